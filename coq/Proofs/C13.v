(* C13: malformed expressions are rejected.
   Part 1: the builder never reorders, drops or invents tokens (token preservation).
   Part 2: a tree without arity defects renders to a token list the recogniser accepts. *)
Require Import Model.Base Model.Syntax Gen.Tables Model.Builder.
Require Import Spec.Recognizer Proofs.Common Proofs.BuilderFacts Proofs.C01Build.

#[local] Opaque impl_prec impl_ltr impl_max_args impl_is_unary impl_is_leaf impl_is_sequence
  impl_tok_leftsided impl_tok_rightsided impl_tok_assignment.

(* ------------------------------------------------------------------------------------------ *)
(* 1. The rendering: unfolding and list lemmas                                                   *)

Definition toksl (fl : bool) (ch : list node) : list token := concat (map (toks fl) ch).

Lemma toksl_nil fl : toksl fl [] = []. Proof. reflexivity. Qed.
Lemma toksl_cons fl c r : toksl fl (c :: r) = toks fl c ++ toksl fl r. Proof. reflexivity. Qed.
Lemma toksl_app fl a b : toksl fl (a ++ b) = toksl fl a ++ toksl fl b.
Proof. unfold toksl. rewrite map_app, concat_app. reflexivity. Qed.
Lemma toksl_one fl c : toksl fl [c] = toks fl c.
Proof. unfold toksl. cbn. apply app_nil_r. Qed.

Lemma toks_unfold bare o ch :
  toks bare (Node o ch) =
  match shape_of o with
  | SRoot => if bare then toksl false ch else TLBrace :: toksl false ch ++ [TRBrace]
  | STuple => join TComma (map (toks true) ch)
  | SChain => join TSemicolon (map (toks true) ch)
  | SLeaf | SPrefix => op_token o ++ toksl false ch
  | SInfix => match ch with
              | [] => op_token o
              | c :: r => toks false c ++ op_token o ++ toksl false r
              end
  end.
Proof. destruct ch; reflexivity. Qed.

(* only a RootNode looks at the flag *)
Lemma toks_flag fl x : is_root_op (nop x) = false -> toks fl x = toks true x.
Proof.
  destruct x as [o ch]. cbn [nop]. intros H. rewrite !toks_unfold.
  destruct o; try reflexivity. discriminate H.
Qed.

Lemma join_snoc sep l x : l <> [] -> join sep (l ++ [x]) = join sep l ++ sep :: x.
Proof.
  induction l as [|a l IH]; [congruence|]. intros _. destruct l as [|b l].
  - reflexivity.
  - change (join sep ((a :: b :: l) ++ [x])) with (a ++ sep :: join sep ((b :: l) ++ [x])).
    rewrite IH by discriminate.
    change (join sep (a :: b :: l)) with (a ++ sep :: join sep (b :: l)).
    rewrite <- app_assoc. reflexivity.
Qed.

Lemma join_last_app sep l x y : join sep (l ++ [x ++ y]) = join sep (l ++ [x]) ++ y.
Proof.
  destruct l as [|a l].
  - reflexivity.
  - rewrite !join_snoc by discriminate. rewrite <- app_assoc. reflexivity.
Qed.

Lemma lsided_start_app l k : lsided_start l = true -> lsided_start (l ++ k) = true.
Proof. destruct l; [discriminate|intros H; exact H]. Qed.

Lemma infix_not_lsided o : shape_of o = SInfix -> lsided_start (op_token o) = false.
Proof. destruct o; cbn; intros H; try discriminate H; reflexivity. Qed.

(* appending a child / extending the last child appends to the rendering *)
Lemma toks_push so sch n :
  is_seq_op so = false -> (shape_of so = SInfix -> sch <> []) ->
  toks true (Node so (sch ++ [n])) = toks true (Node so sch) ++ toks false n.
Proof.
  intros Hs Hi. rewrite !toks_unfold. destruct (shape_of so) eqn:Es.
  - rewrite toksl_app, toksl_one. reflexivity.
  - destruct so; discriminate.
  - destruct so; discriminate.
  - rewrite toksl_app, toksl_one, app_assoc. reflexivity.
  - rewrite toksl_app, toksl_one, app_assoc. reflexivity.
  - destruct sch as [|c r]; [exfalso; apply Hi; reflexivity|]. cbn [app].
    rewrite toksl_app, toksl_one, <- !app_assoc. reflexivity.
Qed.

Lemma toks_replace_last so init lc lc' w :
  is_seq_op so = false -> (shape_of so = SInfix -> init <> []) ->
  toks false lc' = toks false lc ++ w ->
  toks true (Node so (init ++ [lc'])) = toks true (Node so (init ++ [lc])) ++ w.
Proof.
  intros Hs Hi Hw. rewrite !toks_unfold. destruct (shape_of so) eqn:Es.
  - rewrite !toksl_app, !toksl_one, Hw, app_assoc. reflexivity.
  - destruct so; discriminate.
  - destruct so; discriminate.
  - rewrite !toksl_app, !toksl_one, Hw, !app_assoc. reflexivity.
  - rewrite !toksl_app, !toksl_one, Hw, !app_assoc. reflexivity.
  - destruct init as [|c r]; [exfalso; apply Hi; reflexivity|]. cbn [app].
    rewrite !toksl_app, !toksl_one, Hw, <- !app_assoc. reflexivity.
Qed.

(* ------------------------------------------------------------------------------------------ *)
(* 2. Predicates on trees                                                                       *)

(* cf: some function identifier still lacks its argument.  pend: the node at the end of the
   last-child path is such a function identifier. *)
Definition isnil {A} (l : list A) : bool := match l with [] => true | _ => false end.

Fixpoint cf (n : node) : bool :=
  match n with Node o ch => (is_fn_op o && isnil ch) || existsb cf ch end.
Definition cfl (l : list node) : bool := existsb cf l.

Fixpoint pend (n : node) : bool :=
  match n with
  | Node o ch =>
      (fix go (l : list node) : bool :=
         match l with
         | [] => is_fn_op o
         | c :: l' => match l' with [] => pend c | _ :: _ => go l' end
         end) ch
  end.

Lemma cf_unfold o ch : cf (Node o ch) = (is_fn_op o && isnil ch) || cfl ch.
Proof. reflexivity. Qed.
Lemma cfl_app a b : cfl (a ++ b) = cfl a || cfl b. Proof. apply existsb_app. Qed.
Lemma cfl_one c : cfl [c] = cf c. Proof. unfold cfl. cbn. apply orb_false_r. Qed.
Lemma cf_snoc o init lc : cf (Node o (init ++ [lc])) = cfl init || cf lc.
Proof. rewrite cf_unfold, cfl_app, cfl_one. destruct init; cbn [app isnil]; rewrite andb_false_r; reflexivity. Qed.
Lemma cf_nil o : cf (Node o []) = is_fn_op o.
Proof. rewrite cf_unfold. cbn. rewrite andb_true_r, orb_false_r. reflexivity. Qed.

Lemma pend_nil o : pend (Node o []) = is_fn_op o. Proof. reflexivity. Qed.
Lemma pend_snoc o init lc : pend (Node o (init ++ [lc])) = pend lc.
Proof.
  induction init as [|a init IH]; [reflexivity|].
  rewrite <- IH. cbn [app pend]. destruct (init ++ [lc]) eqn:E; [destruct init; discriminate E|reflexivity].
Qed.

Lemma pend_cf x : pend x = true -> cf x = true.
Proof.
  induction x as [o ch IH] using node_ind'.
  destruct (snoc_cases ch) as [->|(init & lc & ->)].
  - rewrite pend_nil, cf_nil. auto.
  - rewrite pend_snoc, cf_snoc. intros H. apply Forall_app in IH. destruct IH as [_ IH].
    inversion IH as [|? ? IHlc _]; subst. rewrite (IHlc H). apply orb_true_r.
Qed.

(* the open part of a tree: along the last-child path, until a parenthesised group is met,
   no sequence node, no operator with too many children, and a function identifier without
   argument only at the very end, below full operators *)
Inductive spine : node -> Prop :=
| sp_nil o : is_seq_op o = false -> spine (Node o [])
| sp_snoc o init lc m :
    is_seq_op o = false ->
    shape_max (shape_of o) = Some m -> (length (init ++ [lc]) <= m)%nat ->
    cfl init = false ->
    (pend lc = true -> length (init ++ [lc]) = m) ->
    (is_root_op (nop lc) = true -> cf lc = false) ->
    (is_root_op (nop lc) = false -> spine lc) ->
    spine (Node o (init ++ [lc])).

Lemma spine_cf x : spine x -> pend x = false -> cf x = false.
Proof.
  induction 1 as [o Ho|o init lc m Ho Hm Hlen Hi Hp Hr Hs IH].
  - rewrite pend_nil, cf_nil. auto.
  - rewrite pend_snoc, cf_snoc, Hi. cbn [orb]. intros H.
    destruct (is_root_op (nop lc)) eqn:E; auto.
Qed.

Lemma cf_spine x : is_seq_op (nop x) = false -> nch x = [] -> spine x.
Proof. destruct x as [o ch]. cbn. intros H ->. constructor; exact H. Qed.

Lemma spine_inv_snoc o init lc : spine (Node o (init ++ [lc])) ->
  is_seq_op o = false /\
  exists m, shape_max (shape_of o) = Some m /\ (length (init ++ [lc]) <= m)%nat /\
  cfl init = false /\ (pend lc = true -> length (init ++ [lc]) = m) /\
  (is_root_op (nop lc) = true -> cf lc = false) /\ (is_root_op (nop lc) = false -> spine lc).
Proof.
  intros H. remember (Node o (init ++ [lc])) as x eqn:Ex.
  destruct H as [o' Ho|o' init' lc' m Ho Hm Hlen Hi Hp Hr Hs].
  - injection Ex as _ E. destruct init; discriminate E.
  - injection Ex as Eo E. subst o'. apply app_inj_tail in E. destruct E as [-> ->].
    split; [exact Ho|]. exists m. auto 10.
Qed.

Lemma spine_seq o ch : spine (Node o ch) -> is_seq_op o = false.
Proof. intros H; inversion H; assumption. Qed.

(* what holds of every node the builder creates (as long as the tokens are preserved) *)
Inductive good : node -> Prop :=
| good_node o ch :
    Forall good ch ->
    (shape_of o = SInfix -> ch <> []) ->
    (is_seq_op o = false -> is_root_op o = false -> Forall (fun c => is_seq_op (nop c) = false) ch) ->
    (is_seq_op o = false -> is_root_op o = false -> exists t, op_token o = [t]) ->
    (is_fn_op o = true -> ch <> [] -> lsided_start (toksl false ch) = true) ->
    good (Node o ch).

Lemma good_tree_ok n : good n -> tree_ok n.
Proof.
  induction n as [o ch IH] using node_ind'. intros H. inversion H as [o' ch' Hch H1 H2 H3 H4]; subst.
  constructor; auto.
  clear - IH Hch. induction ch as [|c ch IHch]; constructor; inversion IH; inversion Hch; subst; auto.
Qed.

Lemma good_root_nil : good (Node ORootNode []).
Proof. constructor; [constructor|discriminate|discriminate|discriminate|discriminate]. Qed.

(* a parenthesised group (a RootNode below an ordinary operator or another root) with an arity defect
   inside: nothing but prefix operators can ever be added inside it, so the defect is permanent *)
Fixpoint poisonp (n : node) : bool :=
  match n with
  | Node o ch =>
      existsb (fun c => (is_root_op (nop c) && negb (is_seq_op o) && has_bad_arity c) || poisonp c) ch
  end.
Definition pch (o : operator) (c : node) : bool :=
  (is_root_op (nop c) && negb (is_seq_op o) && has_bad_arity c) || poisonp c.
Lemma poisonp_unfold o ch : poisonp (Node o ch) = existsb (pch o) ch.
Proof. reflexivity. Qed.

Lemma bad_unfold o ch : has_bad_arity (Node o ch) = negb (arity_fits o (length ch)) || existsb has_bad_arity ch.
Proof. reflexivity. Qed.

Lemma poisonp_bad n : poisonp n = true -> has_bad_arity n = true.
Proof.
  induction n as [o ch IH] using node_ind'. rewrite poisonp_unfold, bad_unfold. intros H.
  apply existsb_exists in H. destruct H as (c & Hin & Hc).
  apply orb_true_iff. right. apply existsb_exists. exists c. split; [exact Hin|].
  unfold pch in Hc. apply orb_prop in Hc. destruct Hc as [Hc|Hc].
  - apply andb_prop in Hc. apply Hc.
  - rewrite Forall_forall in IH. apply IH; assumption.
Qed.

Lemma poisonp_snoc o init c : poisonp (Node o (init ++ [c])) = existsb (pch o) init || pch o c.
Proof. rewrite poisonp_unfold, existsb_app. cbn. rewrite orb_false_r. reflexivity. Qed.

Lemma pch_poisonp o c : poisonp c = true -> pch o c = true.
Proof. unfold pch. intros ->. apply orb_true_r. Qed.

(* ------------------------------------------------------------------------------------------ *)
(* 3. Insertion and arity defects                                                                *)

(* a prefix operator, once inserted, is somewhere in the tree without its operand *)
Lemma insert_unary_bad self n b r :
  insert_back_prioritized self n b = Ok r -> is_unary (nop n) = true -> nch n = [] ->
  has_bad_arity r = true.
Proof.
  revert self n b r.
  apply (insert_ind (fun self n b r => is_unary (nop n) = true -> nch n = [] -> has_bad_arity r = true)).
  - intros so sch n b _ _ _ _ Hu Hn. rewrite bad_unfold, existsb_app. cbn [existsb].
    destruct n as [no nc]. cbn [nop nch] in *. subst nc. rewrite bad_unfold. cbn [length].
    rewrite is_unary_shape in Hu. unfold arity_fits. destruct (shape_of no); try discriminate Hu.
    cbn. rewrite !orb_true_r. reflexivity.
  - intros so init lc lc' n b _ _ _ _ _ IH Hu Hn. rewrite bad_unfold, existsb_app. cbn [existsb].
    rewrite (IH Hu Hn). cbn. rewrite !orb_true_r. reflexivity.
  - intros so init lc n b _ _ _ Hd _ _ _ Hu _. rewrite (descends_unary _ _ Hu) in Hd. discriminate Hd.
Qed.

Lemma insert_poison_n self n b r :
  insert_back_prioritized self n b = Ok r -> poisonp n = true -> poisonp r = true.
Proof.
  revert self n b r. apply (insert_ind (fun self n b r => poisonp n = true -> poisonp r = true)).
  - intros so sch n b _ _ _ _ Hp. rewrite poisonp_snoc, (pch_poisonp _ _ Hp). apply orb_true_r.
  - intros so init lc lc' n b _ _ _ _ _ IH Hp. rewrite poisonp_snoc, (pch_poisonp _ _ (IH Hp)). apply orb_true_r.
  - intros so init lc n b _ _ _ _ _ _ _ Hp. rewrite poisonp_snoc. apply orb_true_iff. right. apply pch_poisonp.
    destruct n as [no nc]. cbn [nop nch]. rewrite poisonp_unfold in *. rewrite existsb_app, Hp. reflexivity.
Qed.

Lemma insert_poison_self self n b r :
  insert_back_prioritized self n b = Ok r ->
  is_seq_op (nop n) = false -> (is_unary (nop n) = true -> nch n = []) ->
  poisonp self = true -> poisonp r = true.
Proof.
  revert self n b r.
  apply (insert_ind (fun self n b r => is_seq_op (nop n) = false -> (is_unary (nop n) = true -> nch n = []) ->
                                       poisonp self = true -> poisonp r = true)).
  - intros so sch n b _ _ _ _ _ _ Hp. rewrite poisonp_unfold in *. rewrite existsb_app, Hp. reflexivity.
  - intros so init lc lc' n b _ _ _ Hd Hi IH Hs Hu Hp. rewrite poisonp_snoc in *.
    apply orb_prop in Hp. destruct Hp as [Hp|Hp]; [rewrite Hp; reflexivity|].
    apply orb_true_iff. right. unfold pch in *. apply orb_prop in Hp. destruct Hp as [Hp|Hp].
    + apply andb_prop in Hp. destruct Hp as [Hp Hbad]. apply andb_prop in Hp. destruct Hp as [Hr Hq].
      rewrite (insert_nop _ _ _ _ Hi), Hr, Hq. cbn [andb].
      assert (Hun : is_unary (nop n) = true).
      { apply descends_root. destruct (nop lc); try discriminate Hr. exact Hd. }
      rewrite (insert_unary_bad _ _ _ _ Hi Hun (Hu Hun)). reflexivity.
    + rewrite (IH Hs Hu Hp). apply orb_true_r.
  - intros so init lc n b _ _ _ _ _ _ _ Hs _ Hp. rewrite poisonp_snoc in *.
    apply orb_prop in Hp. destruct Hp as [Hp|Hp]; [rewrite Hp; reflexivity|].
    apply orb_true_iff. right. apply pch_poisonp. rewrite poisonp_unfold, existsb_app. cbn [existsb].
    assert (Hq : pch (nop n) lc = true).
    { unfold pch in *. rewrite Hs. apply orb_prop in Hp. destruct Hp as [Hp|Hp]; [|rewrite Hp; apply orb_true_r].
      apply andb_prop in Hp. destruct Hp as [Hp Hbad]. apply andb_prop in Hp. destruct Hp as [Hr _].
      rewrite Hr, Hbad. reflexivity. }
    rewrite Hq. cbn. rewrite orb_true_r. reflexivity.
Qed.

(* ------------------------------------------------------------------------------------------ *)
(* 4. Insertion preserves the tokens (or leaves a permanent arity defect)                        *)

(* what is inserted: a fresh childless node, or a closed parenthesis group *)
Definition ins_arg (n : node) : Prop :=
  is_seq_op (nop n) = false /\
  (shape_of (nop n) <> SInfix -> good n) /\
  (is_root_op (nop n) = false -> exists t, op_token (nop n) = [t]) /\
  (nch n = [] \/ (is_root_op (nop n) = true /\ cf n = false)).

Definition ins_post (self n r : node) : Prop :=
  poisonp r = true \/
  (toks true r = toks true self ++ toks false n /\ spine r /\ good r /\
   (pend r = true -> is_fn_op (nop n) = true /\ nch n = [])).

Lemma shape_max_bound s m : shape_max s = Some m -> (m <= 2)%nat.
Proof. destruct s; cbn; intros H; inversion H; lia. Qed.

Lemma ins_arg_cf n : ins_arg n -> is_root_op (nop n) = true -> cf n = false.
Proof.
  intros (_ & _ & _ & [Hn|[_ Hc]]) Hr; [|exact Hc].
  destruct n as [no nc]. cbn in Hn, Hr. subst nc. rewrite cf_nil. destruct no; try discriminate Hr. reflexivity.
Qed.

Lemma ins_arg_spine n : ins_arg n -> is_root_op (nop n) = false -> spine n.
Proof.
  intros (Hs & _ & _ & [Hn|[Hr _]]) Hnr; [|congruence]. apply cf_spine; assumption.
Qed.

Lemma ins_arg_pend n : ins_arg n -> pend n = true -> is_fn_op (nop n) = true /\ nch n = [].
Proof.
  intros (_ & _ & _ & [Hn|[_ Hc]]) Hp.
  - destruct n as [no nc]. cbn in Hn. subst nc. rewrite pend_nil in Hp. auto.
  - apply pend_cf in Hp. congruence.
Qed.

Lemma good_inv o ch : good (Node o ch) ->
  Forall good ch /\ (shape_of o = SInfix -> ch <> []) /\
  (is_seq_op o = false -> is_root_op o = false -> Forall (fun c => is_seq_op (nop c) = false) ch) /\
  (is_seq_op o = false -> is_root_op o = false -> exists t, op_token o = [t]) /\
  (is_fn_op o = true -> ch <> [] -> lsided_start (toksl false ch) = true).
Proof. intros H; inversion H; auto. Qed.

Lemma fn_prefix o : is_fn_op o = true -> shape_of o = SPrefix.
Proof. destruct o; cbn; intros H; try discriminate H; reflexivity. Qed.

Lemma seq_not_root o : is_root_op o = true -> is_seq_op o = false.
Proof. destruct o; cbn; intros H; try discriminate H; reflexivity. Qed.

Lemma insert_main self n b r :
  insert_back_prioritized self n b = Ok r ->
  spine self -> good self -> ins_arg n ->
  (pend self = true -> lsided_start (toks false n) = true) ->
  ins_post self n r.
Proof.
  revert self n b r.
  apply (insert_ind (fun self n b r => spine self -> good self -> ins_arg n ->
                       (pend self = true -> lsided_start (toks false n) = true) -> ins_post self n r)).
  - (* push *)
    intros so sch n b _ Hleaf Hen Hmx Hsp Hg Ha Hpd. right.
    pose proof (spine_seq _ _ Hsp) as Hso.
    destruct (good_inv _ _ Hg) as (Gch & G1 & G2 & G3 & G4).
    pose proof Ha as Ha'. destruct Ha' as (Hns & Hgn' & _ & Hn).
    assert (Hgn : good n).
    { apply Hgn'. intros Es. rewrite max_args_shape, Es in Hmx. congruence. }
    rewrite has_enough_shape in Hen. rewrite is_leaf_shape in Hleaf.
    (* the free slot is the last one *)
    assert (Hslot : exists m, shape_max (shape_of so) = Some m /\ S (length sch) = m /\ cfl sch = false).
    { destruct (snoc_cases sch) as [->|(init & lc & ->)].
      - destruct (shape_of so) eqn:Es; try discriminate Hleaf; cbn [shape_max] in *.
        + exists 1%nat. auto.
        + destruct so; discriminate.
        + destruct so; discriminate.
        + exists 1%nat. auto.
        + exfalso. apply G1; reflexivity.
      - apply spine_inv_snoc in Hsp. destruct Hsp as (_ & m & Hm & Hlen & Hci & Hp & Hr & Hs).
        rewrite Hm in Hen. apply Nat.eqb_neq in Hen.
        exists m. split; [exact Hm|]. pose proof (shape_max_bound _ _ Hm) as Hb.
        assert (Hl1 : (1 <= length (init ++ [lc]))%nat) by (rewrite app_length; cbn; lia).
        split; [lia|].
        rewrite cfl_app, cfl_one, Hci. cbn [orb].
        assert (Hpl : pend lc = false) by (destruct (pend lc); [specialize (Hp eq_refl); lia|reflexivity]).
        destruct (is_root_op (nop lc)) eqn:Er; [auto|]. apply spine_cf; auto. }
    destruct Hslot as (m & Hm & Hlen & Hcf).
    split; [apply toks_push; assumption|]. split; [|split].
    + apply (sp_snoc so sch n m); auto.
      * rewrite app_length. cbn. lia.
      * intros _. rewrite app_length. cbn. lia.
      * apply ins_arg_cf; exact Ha.
      * apply ins_arg_spine; exact Ha.
    + constructor.
      * apply Forall_app. split; [exact Gch|]. constructor; [exact Hgn|constructor].
      * intros _. destruct sch; discriminate.
      * intros H1 H2. apply Forall_app. split; [apply G2; assumption|]. constructor; [exact Hns|constructor].
      * exact G3.
      * intros Hf _. pose proof (fn_prefix _ Hf) as Es. rewrite Es in Hm. cbn in Hm.
        assert (Hl0 : length sch = 0%nat) by (inversion Hm; lia).
        destruct sch; [|discriminate Hl0]. cbn [app]. rewrite toksl_one.
        apply Hpd. rewrite pend_nil. exact Hf.
    + rewrite pend_snoc. apply ins_arg_pend; exact Ha.
  - (* descend *)
    intros so init lc lc' n b _ Hleaf Hen Hd Hi IH Hsp Hg Ha Hpd.
    pose proof (spine_seq _ _ Hsp) as Hso.
    destruct (good_inv _ _ Hg) as (Gch & G1 & G2 & G3 & G4).
    apply spine_inv_snoc in Hsp. destruct Hsp as (_ & m & Hm & Hlen & Hci & Hp & Hr & Hs).
    apply Forall_app in Gch. destruct Gch as [Ginit Glc]. inversion Glc as [|? ? Glc' _]; subst.
    pose proof (insert_nop _ _ _ _ Hi) as Hop.
    rewrite pend_snoc in Hpd.
    destruct (is_root_op (nop lc)) eqn:Er.
    + (* a prefix operator slips into a closed parenthesis group *)
      left. rewrite poisonp_snoc. apply orb_true_iff. right. unfold pch. rewrite Hop, Er, Hso. cbn [negb andb].
      assert (Hun : is_unary (nop n) = true).
      { apply descends_root. destruct (nop lc); try discriminate Er. exact Hd. }
      assert (Hnn : nch n = []).
      { destruct Ha as (_ & _ & _ & [Hn|[Hrn _]]); [exact Hn|].
        rewrite is_unary_shape in Hun. destruct (nop n); discriminate. }
      rewrite (insert_unary_bad _ _ _ _ Hi Hun Hnn). reflexivity.
    + specialize (IH (Hs eq_refl) Glc' Ha Hpd). destruct IH as [IH|(IHt & IHs & IHg & IHp)].
      * left. rewrite poisonp_snoc, (pch_poisonp _ _ IH). apply orb_true_r.
      * right.
        assert (Er' : is_root_op (nop lc') = false) by (rewrite Hop; exact Er).
        assert (Hlen' : length (init ++ [lc']) = length (init ++ [lc])) by (rewrite !app_length; reflexivity).
        assert (Hinit : shape_of so = SInfix -> init <> []).
        { intros Es. rewrite has_enough_shape, Es in Hen. cbn in Hen. apply Nat.eqb_eq in Hen.
          rewrite app_length in Hen. cbn in Hen. destruct init; [cbn in Hen; lia|discriminate]. }
        assert (Ht : toks false lc' = toks false lc ++ toks false n).
        { rewrite (toks_flag false lc') by exact Er'. rewrite (toks_flag false lc) by exact Er. exact IHt. }
        split; [apply toks_replace_last; assumption|]. split; [|split].
        -- apply (sp_snoc so init lc' m); auto.
           ++ rewrite Hlen'. exact Hlen.
           ++ intros _. rewrite Hlen'. rewrite has_enough_shape, Hm in Hen. apply Nat.eqb_eq in Hen. exact Hen.
           ++ intros E. congruence.
        -- constructor.
           ++ apply Forall_app. split; [exact Ginit|]. constructor; [exact IHg|constructor].
           ++ intros _. destruct init; discriminate.
           ++ intros H1 H2. specialize (G2 H1 H2). apply Forall_app in G2. destruct G2 as [G2a G2b].
              apply Forall_app. split; [exact G2a|]. constructor; [|constructor].
              rewrite Hop. inversion G2b; assumption.
           ++ exact G3.
           ++ intros Hf _. assert (Hne : init ++ [lc] <> []) by (destruct init; discriminate).
              specialize (G4 Hf Hne). rewrite toksl_app, toksl_one in *. rewrite Ht, app_assoc.
              apply lsided_start_app. exact G4.
        -- rewrite pend_snoc. exact IHp.
  - (* rotate *)
    intros so init lc n b _ Hleaf Hen Hd Hnl Hnr Hroot Hsp Hg Ha Hpd. right.
    pose proof (spine_seq _ _ Hsp) as Hso.
    destruct (good_inv _ _ Hg) as (Gch & G1 & G2 & G3 & G4).
    apply spine_inv_snoc in Hsp. destruct Hsp as (_ & m & Hm & Hlen & Hci & Hp & Hr & Hs).
    apply Forall_app in Gch. destruct Gch as [Ginit Glc]. inversion Glc as [|? ? Glc' _]; subst.
    rewrite pend_snoc in Hpd.
    destruct Ha as (Hns & _ & Hgn & Hn).
    rewrite is_root_root_op in Hnr.
    destruct Hn as [Hn|[Hrn _]]; [|congruence].
    destruct n as [no nc]. cbn [nop nch] in *. subst nc. cbn [app].
    assert (Hun : is_unary no = false).
    { destruct (is_unary no) eqn:E; [|reflexivity]. rewrite (descends_unary _ _ E) in Hd. discriminate Hd. }
    assert (Es : shape_of no = SInfix).
    { rewrite is_leaf_shape in Hnl. rewrite is_unary_shape in Hun.
      destruct no; try discriminate; reflexivity. }
    assert (Htn : toks false (Node no []) = op_token no).
    { rewrite toks_unfold, Es. reflexivity. }
    assert (Hpl : pend lc = false).
    { destruct (pend lc); [|reflexivity]. specialize (Hpd eq_refl). rewrite Htn, (infix_not_lsided _ Es) in Hpd. discriminate Hpd. }
    assert (Hlc_ns : is_seq_op (nop lc) = false).
    { destruct (is_root_op (nop lc)) eqn:Er; [apply seq_not_root; exact Er|].
      specialize (Hs eq_refl). destruct lc as [lo lch]. apply spine_seq in Hs. exact Hs. }
    set (lc' := Node no [lc]).
    assert (Ht : toks false lc' = toks false lc ++ toks false (Node no [])).
    { unfold lc'. rewrite Htn, toks_unfold, Es, toksl_nil, app_nil_r. reflexivity. }
    assert (Hinit : shape_of so = SInfix -> init <> []).
    { intros Eso. rewrite has_enough_shape, Eso in Hen. cbn in Hen. apply Nat.eqb_eq in Hen.
      rewrite app_length in Hen. cbn in Hen. destruct init; [cbn in Hen; lia|discriminate]. }
    assert (Hlen' : length (init ++ [lc']) = length (init ++ [lc])) by (rewrite !app_length; reflexivity).
    assert (Hgl : good lc').
    { unfold lc'. constructor.
      - constructor; [exact Glc'|constructor].
      - intros _; discriminate.
      - intros _ _. constructor; [exact Hlc_ns|constructor].
      - intros _ _. apply Hgn. exact Hnr.
      - intros Hf. apply fn_prefix in Hf. congruence. }
    assert (Hpl' : pend lc' = false) by (unfold lc'; change (pend (Node no ([] ++ [lc])) = false); rewrite pend_snoc; exact Hpl).
    split; [apply toks_replace_last; assumption|]. split; [|split].
    + apply (sp_snoc so init lc' m); auto.
      * rewrite Hlen'. exact Hlen.
      * rewrite Hpl'. discriminate.
      * unfold lc'. cbn [nop]. destruct no; discriminate.
      * intros _. unfold lc'. apply (sp_snoc no [] lc 2%nat); auto.
        -- rewrite Es. reflexivity.
        -- rewrite Hpl. discriminate.
    + constructor.
      * apply Forall_app. split; [exact Ginit|]. constructor; [exact Hgl|constructor].
      * intros _. destruct init; discriminate.
      * intros H1 H2. specialize (G2 H1 H2). apply Forall_app in G2. destruct G2 as [G2a G2b].
        apply Forall_app. split; [exact G2a|]. constructor; [exact Hns|constructor].
      * exact G3.
      * intros Hf _. assert (Hne : init ++ [lc] <> []) by (destruct init; discriminate).
        specialize (G4 Hf Hne). rewrite toksl_app, toksl_one in *. rewrite Ht, app_assoc.
        apply lsided_start_app. exact G4.
    + rewrite pend_snoc, Hpl'. discriminate.
Qed.

(* ------------------------------------------------------------------------------------------ *)
(* 5. The separators, case by case                                                              *)

Inductive seqstep : operator -> list node -> list node -> Prop :=
| ss_R o ch : is_seq_op o = true ->
    seqstep o [Node ORootNode ch] [Node o [Node ORootNode ch; root_node]; root_node]
| ss_same o ch : is_seq_op o = true ->
    seqstep o [Node o ch; root_node] [Node o (ch ++ [root_node]); root_node]
| ss_CT init z :
    seqstep OTuple [Node OChain (init ++ [z]); root_node] [Node OTuple [z; root_node]; Node OChain init; root_node]
| ss_TC_R ch :
    seqstep OChain [Node OTuple ch; root_node] [Node OChain [Node OTuple ch; root_node]; root_node]
| ss_TT ch cch :
    seqstep OTuple [Node OTuple ch; Node OChain cch; root_node] [Node OTuple (ch ++ [root_node]); Node OChain cch; root_node]
| ss_TC_C ch cch :
    seqstep OChain [Node OTuple ch; Node OChain cch; root_node] [Node OChain (cch ++ [Node OTuple ch; root_node]); root_node].

Lemma seqstep_sound o L L' st : seqstep o L L' -> insert_node (Node o []) (L ++ st) = Ok (L' ++ st).
Proof.
  intros H. destruct H; cbn [app].
  - apply ins_seq_R; assumption.
  - apply ins_seq_same; assumption.
  - apply ins_seq_CT.
  - apply ins_seq_TC_R.
  - apply ins_seq_same; reflexivity.
  - apply ins_seq_TC_C.
Qed.

Lemma seqstep_total o L : level L -> is_seq_op o = true -> exists L', seqstep o L L'.
Proof.
  intros H Ho. destruct H as [ch|o' init rch Ho' Hi|init rch cch Hi Hc].
  - eexists. apply ss_R. exact Ho.
  - destruct (seq_op_cases o Ho) as [-> | ->]; destruct (seq_op_cases o' Ho') as [-> | ->]; eexists.
    + apply ss_same. reflexivity.
    + apply ss_CT.
    + apply ss_TC_R.
    + apply ss_same. reflexivity.
  - destruct (seq_op_cases o Ho) as [-> | ->]; eexists.
    + apply ss_TT.
    + apply ss_TC_C.
Qed.

(* ------------------------------------------------------------------------------------------ *)
(* 6. The tokens a stack stands for                                                             *)

Definition sep_before (x : node) (rest : list node) : list token :=
  match rest with
  | [] => []
  | y :: _ => if is_root_op (nop x) then [TLBrace] else if is_seq_op (nop y) then [TSemicolon] else []
  end.

Fixpoint stoks (st : list node) : list token :=
  match st with
  | [] => []
  | x :: rest => stoks rest ++ sep_before x rest ++ toks true x
  end.

(* the tokens of one level, without its opening parenthesis *)
Definition ltoks (L : list node) : list token := toks true (closed_of L).

Definition sep_of (o : operator) : token := match o with OChain => TSemicolon | _ => TComma end.

Lemma toks_seq fl o ch : is_seq_op o = true -> toks fl (Node o ch) = join (sep_of o) (map (toks true) ch).
Proof. intros H. rewrite toks_unfold. destruct (seq_op_cases o H) as [-> | ->]; reflexivity. Qed.

Lemma toks_root_true ch : toks true (Node ORootNode ch) = toksl false ch.
Proof. rewrite toks_unfold. reflexivity. Qed.
Lemma toks_root_false ch : toks false (Node ORootNode ch) = TLBrace :: toks true (Node ORootNode ch) ++ [TRBrace].
Proof. rewrite !toks_unfold. reflexivity. Qed.

Lemma toks_seq_last fl o init R c w : is_seq_op o = true ->
  toks true c = toks true R ++ w ->
  toks fl (Node o (init ++ [c])) = toks fl (Node o (init ++ [R])) ++ w.
Proof.
  intros Ho Hw. rewrite !toks_seq by exact Ho. rewrite !map_app. cbn [map]. rewrite Hw. apply join_last_app.
Qed.

Lemma toks_seq_new fl o ch : is_seq_op o = true -> ch <> [] ->
  toks fl (Node o (ch ++ [root_node])) = toks fl (Node o ch) ++ [sep_of o].
Proof.
  intros Ho Hc. rewrite !toks_seq by exact Ho. rewrite map_app. cbn [map].
  rewrite join_snoc by (destruct ch; [congruence|discriminate]). reflexivity.
Qed.

Lemma seq_root_false o : is_seq_op o = true -> is_root_op o = false.
Proof. destruct o; cbn; intros H; try discriminate H; reflexivity. Qed.

Lemma ltoks_S o ch r0 : is_seq_op o = true -> ltoks [Node o ch; r0] = toks true (Node o ch).
Proof.
  intros Ho. unfold ltoks. cbn [closed_of]. rewrite toks_root_true, toksl_one. apply toks_flag.
  apply seq_root_false; exact Ho.
Qed.

Lemma ltoks_TC tp co cch r0 : is_seq_op co = true ->
  ltoks [tp; Node co cch; r0] = toks true (Node co (cch ++ [tp])).
Proof.
  intros Ho. unfold ltoks. cbn [closed_of nop nch]. rewrite toks_root_true, toksl_one. apply toks_flag.
  apply seq_root_false; exact Ho.
Qed.

(* ------------------------------------------------------------------------------------------ *)
(* 7. The full invariant of a level                                                             *)

Definition elem_closed (e : node) : Prop := good e /\ cf e = false.
Definition elem_open (r : node) : Prop := nop r = ORootNode /\ good r /\ spine r.

Inductive flevel : list node -> Prop :=
| fl_R R : elem_open R -> flevel [R]
| fl_S o init R : is_seq_op o = true -> init <> [] -> Forall elem_closed init -> elem_open R ->
    flevel [Node o (init ++ [R]); root_node]
| fl_TC init R cch : init <> [] -> Forall elem_closed init -> elem_open R ->
    cch <> [] -> Forall elem_closed cch ->
    flevel [Node OTuple (init ++ [R]); Node OChain cch; root_node].

Lemma flevel_level L : flevel L -> level L.
Proof.
  intros H. destruct H as [R (Hr & _)|o init R Ho Hi _ (Hr & _)|init R cch Hi _ (Hr & _) Hc _];
    destruct R as [ro rch]; cbn in Hr; subst ro; constructor; assumption.
Qed.

Lemma elem_open_root_node : elem_open root_node.
Proof. split; [reflexivity|]. split; [exact good_root_nil|]. constructor. reflexivity. Qed.

Lemma closed_cfl l : Forall elem_closed l -> cfl l = false.
Proof. induction 1 as [|e l (_ & He) _ IH]; [reflexivity|]. cbn. rewrite He. exact IH. Qed.
Lemma closed_good l : Forall elem_closed l -> Forall good l.
Proof. induction 1 as [|e l (He & _) _ IH]; constructor; assumption. Qed.

Lemma good_seq o ch : is_seq_op o = true -> Forall good ch -> good (Node o ch).
Proof.
  intros Ho Hch. constructor; auto; try congruence.
  - destruct (seq_op_cases o Ho) as [-> | ->]; discriminate.
  - destruct (seq_op_cases o Ho) as [-> | ->]; discriminate.
Qed.
Lemma good_root ch : Forall good ch -> good (Node ORootNode ch).
Proof. intros Hch. constructor; auto; discriminate. Qed.

Lemma cf_seq o ch : is_seq_op o = true -> cf (Node o ch) = cfl ch.
Proof. intros Ho. rewrite cf_unfold. destruct (seq_op_cases o Ho) as [-> | ->]; reflexivity. Qed.
Lemma cf_root ch : cf (Node ORootNode ch) = cfl ch.
Proof. reflexivity. Qed.

(* an element is closed when the token that ends it cannot begin a value *)
Lemma open_closed R : elem_open R -> pend R = false -> elem_closed R.
Proof. intros (_ & Hg & Hs) Hp. split; [exact Hg|apply spine_cf; assumption]. Qed.

Lemma seq_closed o init R : is_seq_op o = true -> Forall elem_closed init -> elem_closed R ->
  elem_closed (Node o (init ++ [R])).
Proof.
  intros Ho Hi (Hg & Hc). split.
  - apply good_seq; [exact Ho|]. apply Forall_app. split; [apply closed_good; exact Hi|]. constructor; [exact Hg|constructor].
  - rewrite cf_seq by exact Ho. rewrite cfl_app, cfl_one, (closed_cfl _ Hi), Hc. reflexivity.
Qed.

(* replacing the open element *)
Lemma set_open_full L c w : flevel L -> elem_open c ->
  toks true c = toks true (open_elem L) ++ w ->
  flevel (set_open L c) /\ ltoks (set_open L c) = ltoks L ++ w /\ open_elem (set_open L c) = c.
Proof.
  intros H Hc Hw. destruct H as [R HR|o init R Ho Hi Hcl HR|init R cch Hi Hcl HR Hcc Hccl];
    cbn [open_elem set_open nop nch] in *; rewrite ?last_last, ?removelast_last in *.
  - split; [constructor; exact Hc|]. split; [exact Hw|reflexivity].
  - split; [constructor; assumption|]. split; [|reflexivity].
    rewrite !ltoks_S by exact Ho. apply toks_seq_last; assumption.
  - split; [constructor; assumption|]. split; [|reflexivity].
    rewrite !ltoks_TC by reflexivity. apply toks_seq_last; [reflexivity|].
    apply toks_seq_last; [reflexivity|exact Hw].
Qed.

Lemma toks_root_node : toks true root_node = [].
Proof. reflexivity. Qed.

Lemma flevel_inv_R R : flevel [R] -> elem_open R.
Proof. intros H. inversion H; assumption. Qed.
Lemma flevel_inv_S o ch r0 : flevel [Node o ch; r0] ->
  exists init R, ch = init ++ [R] /\ is_seq_op o = true /\ init <> [] /\ Forall elem_closed init /\ elem_open R.
Proof. intros H. inversion H; subst. eauto 10. Qed.
Lemma flevel_inv_TC tp cn r0 : flevel [tp; cn; r0] ->
  exists init R cch, tp = Node OTuple (init ++ [R]) /\ cn = Node OChain cch /\
    init <> [] /\ Forall elem_closed init /\ elem_open R /\ cch <> [] /\ Forall elem_closed cch.
Proof. intros H. inversion H; subst. eauto 12. Qed.

(* a separator closes the open element and opens a new, empty one *)
Lemma seqstep_full o L L' : seqstep o L L' -> flevel L -> pend (open_elem L) = false ->
  flevel L' /\ ltoks L' = ltoks L ++ [sep_of o] /\ open_elem L' = root_node.
Proof.
  intros Hs Hf Hp. destruct Hs as [o ch Ho|o ch Ho|init z|ch|ch cch|ch cch].
  - apply flevel_inv_R in Hf. cbn [open_elem] in Hp.
    pose proof (open_closed _ Hf Hp) as Hcl.
    split; [apply (fl_S o [Node ORootNode ch] root_node); auto; [discriminate|exact elem_open_root_node]|].
    split; [|reflexivity].
    rewrite ltoks_S by exact Ho. unfold ltoks. cbn [closed_of].
    rewrite (toks_seq true o) by exact Ho. reflexivity.
  - apply flevel_inv_S in Hf. destruct Hf as (init & R & -> & _ & Hi & Hcl & HR).
    cbn [open_elem nch] in Hp. rewrite last_last in Hp.
    pose proof (open_closed _ HR Hp) as HclR.
    split; [apply (fl_S o (init ++ [R]) root_node); auto;
            [destruct init; discriminate|apply Forall_app; split; [exact Hcl|constructor; [exact HclR|constructor]]|exact elem_open_root_node]|].
    split; [|cbn [open_elem nch]; apply last_last].
    rewrite !ltoks_S by exact Ho. apply toks_seq_new; [exact Ho|destruct init; discriminate].
  - apply flevel_inv_S in Hf. destruct Hf as (init' & R & E & _ & Hi & Hcl & HR).
    apply app_inj_tail in E. destruct E as [<- <-].
    cbn [open_elem nch] in Hp. rewrite last_last in Hp.
    pose proof (open_closed _ HR Hp) as HclR.
    split; [apply (fl_TC [z] root_node init); auto; [discriminate|exact elem_open_root_node]|].
    split; [|reflexivity].
    rewrite ltoks_S by reflexivity. rewrite ltoks_TC by reflexivity.
    rewrite (toks_seq_last true OChain init z (Node OTuple [z; root_node]) [TComma]); [reflexivity|reflexivity|].
    rewrite (toks_seq true OTuple) by reflexivity. reflexivity.
  - apply flevel_inv_S in Hf. destruct Hf as (init & R & -> & _ & Hi & Hcl & HR).
    cbn [open_elem nch] in Hp. rewrite last_last in Hp.
    pose proof (open_closed _ HR Hp) as HclR.
    pose proof (seq_closed OTuple init R eq_refl Hcl HclR) as HclT.
    split; [apply (fl_S OChain [Node OTuple (init ++ [R])] root_node); auto; [discriminate|exact elem_open_root_node]|].
    split; [|reflexivity].
    rewrite !ltoks_S by reflexivity. rewrite (toks_seq true OChain) by reflexivity. reflexivity.
  - apply flevel_inv_TC in Hf. destruct Hf as (init & R & cch' & E1 & E2 & Hi & Hcl & HR & Hcc & Hccl).
    injection E1 as ->. injection E2 as ->.
    cbn [open_elem nch] in Hp. rewrite last_last in Hp.
    pose proof (open_closed _ HR Hp) as HclR.
    split; [apply (fl_TC (init ++ [R]) root_node cch'); auto;
            [destruct init; discriminate|apply Forall_app; split; [exact Hcl|constructor; [exact HclR|constructor]]|exact elem_open_root_node]|].
    split; [|cbn [open_elem nch]; apply last_last].
    rewrite !ltoks_TC by reflexivity.
    rewrite (toks_seq_last true OChain cch' (Node OTuple (init ++ [R])) (Node OTuple ((init ++ [R]) ++ [root_node])) [TComma]);
      [reflexivity|reflexivity|].
    apply (toks_seq_new true OTuple); [reflexivity|destruct init; discriminate].
  - apply flevel_inv_TC in Hf. destruct Hf as (init & R & cch' & E1 & E2 & Hi & Hcl & HR & Hcc & Hccl).
    injection E1 as ->. injection E2 as ->.
    cbn [open_elem nch] in Hp. rewrite last_last in Hp.
    pose proof (open_closed _ HR Hp) as HclR.
    pose proof (seq_closed OTuple init R eq_refl Hcl HclR) as HclT.
    replace (cch' ++ [Node OTuple (init ++ [R]); root_node])
      with ((cch' ++ [Node OTuple (init ++ [R])]) ++ [root_node]) by (rewrite <- app_assoc; reflexivity).
    split; [apply (fl_S OChain (cch' ++ [Node OTuple (init ++ [R])]) root_node); auto;
            [destruct cch'; discriminate|apply Forall_app; split; [exact Hccl|constructor; [exact HclT|constructor]]|exact elem_open_root_node]|].
    split; [|cbn [open_elem nch]; apply last_last].
    rewrite ltoks_S by reflexivity. rewrite ltoks_TC by reflexivity.
    apply (toks_seq_new true OChain); [reflexivity|destruct cch'; discriminate].
Qed.

(* closing a level *)
Lemma closed_full L : flevel L -> pend (open_elem L) = false ->
  ins_arg (closed_of L) /\ toks false (closed_of L) = TLBrace :: ltoks L ++ [TRBrace] /\ good (closed_of L).
Proof.
  intros Hf Hp.
  assert (H : is_root_op (nop (closed_of L)) = true /\ good (closed_of L) /\ cf (closed_of L) = false).
  { destruct Hf as [R HR|o init R Ho Hi Hcl HR|init R cch Hi Hcl HR Hcc Hccl];
      cbn [open_elem nch] in Hp; rewrite ?last_last in Hp; cbn [closed_of nop nch];
      pose proof (open_closed _ HR Hp) as (HgR & HcR).
    - destruct HR as (Hr & _). rewrite Hr. auto.
    - pose proof (seq_closed o init R Ho Hcl (conj HgR HcR)) as (Hg & Hc).
      split; [reflexivity|]. split; [apply good_root; constructor; [exact Hg|constructor]|].
      rewrite cf_root, cfl_one. exact Hc.
    - pose proof (seq_closed OTuple init R eq_refl Hcl (conj HgR HcR)) as HT.
      pose proof (seq_closed OChain cch (Node OTuple (init ++ [R])) eq_refl Hccl HT) as (Hg & Hc).
      split; [reflexivity|]. split; [apply good_root; constructor; [exact Hg|constructor]|].
      rewrite cf_root, cfl_one. exact Hc. }
  destruct H as (Hr & Hg & Hc).
  split; [|split; [|exact Hg]].
  - split; [apply seq_not_root; exact Hr|]. split; [intros _; exact Hg|]. split; [congruence|]. right. auto.
  - unfold ltoks. destruct (closed_of L) as [o ch]. cbn [nop] in Hr. destruct o; try discriminate Hr.
    apply toks_root_false.
Qed.

(* the tokens of a stack, level by level *)
Lemma stoks_level L st : flevel L ->
  stoks (L ++ st) = stoks st ++ (if isnil st then [] else [TLBrace]) ++ ltoks L.
Proof.
  intros Hf. destruct Hf as [R (Hr & _)|o init R Ho Hi Hcl HR|init R cch Hi Hcl HR Hcc Hccl]; cbn [app stoks].
  - unfold ltoks. cbn [closed_of]. destruct R as [ro rch]. cbn in Hr. subst ro.
    destruct st; reflexivity.
  - rewrite ltoks_S by exact Ho. unfold root_node. cbn [sep_before nop is_root_op is_seq_op].
    rewrite (seq_root_false _ Ho). rewrite toks_root_true, toksl_nil, !app_nil_r.
    destruct st; cbn [sep_before isnil nop is_root_op app]; rewrite ?app_nil_r, <- ?app_assoc; reflexivity.
  - rewrite ltoks_TC by reflexivity. unfold root_node. cbn [sep_before nop is_root_op is_seq_op].
    rewrite toks_root_true, toksl_nil, !app_nil_r.
    rewrite (toks_seq true OChain (cch ++ _)) by reflexivity. rewrite map_app. cbn [map].
    rewrite join_snoc by (destruct cch; [congruence|discriminate]).
    rewrite (toks_seq true OChain cch) by reflexivity. cbn [sep_of].
    destruct st; cbn [sep_before isnil nop is_root_op app]; rewrite ?app_nil_r, <- ?app_assoc; cbn [app]; reflexivity.
Qed.

(* ------------------------------------------------------------------------------------------ *)
(* 8. Permanent defects on the stack                                                            *)

Definition poisonS (st : list node) : bool := existsb poisonp st.

Lemma poisonS_app a b : poisonS (a ++ b) = poisonS a || poisonS b.
Proof. apply existsb_app. Qed.

Lemma pch_seq o c : is_seq_op o = true -> pch o c = poisonp c.
Proof. intros Ho. unfold pch. rewrite Ho. cbn [negb]. rewrite andb_false_r. reflexivity. Qed.

Lemma poisonp_root_node : poisonp root_node = false. Proof. reflexivity. Qed.

Ltac bool_split :=
  repeat match goal with
         | H : _ || _ = true |- _ => apply orb_prop in H; destruct H as [H|H]
         | H : false = true |- _ => discriminate H
         end.
Ltac bool_close :=
  match goal with H : ?a = true |- _ => rewrite H; rewrite ?orb_true_r; reflexivity end.

Lemma set_open_poison L c : level L ->
  poisonp c = true \/ (poisonS L = true /\ (poisonp (open_elem L) = true -> poisonp c = true)) ->
  poisonS (set_open L c) = true.
Proof.
  intros HL H. destruct HL as [ch|o init rch Ho Hi|init rch cch Hi Hc];
    cbn [open_elem set_open nop nch] in *; rewrite ?last_last, ?removelast_last in *;
    unfold poisonS in *; cbn [existsb] in *; rewrite ?poisonp_root_node, ?orb_false_r in *.
  - destruct H as [H|[H1 H2]]; auto.
  - rewrite !poisonp_snoc, !pch_seq in * by exact Ho.
    destruct H as [H|[H1 H2]]; [rewrite H; apply orb_true_r|].
    bool_split; [bool_close|]. rewrite (H2 H1). apply orb_true_r.
  - rewrite !poisonp_snoc, !pch_seq in * by reflexivity.
    destruct H as [H|[H1 H2]]; [rewrite H; rewrite ?orb_true_r; reflexivity|].
    bool_split; try bool_close. rewrite (H2 H1). rewrite ?orb_true_r; reflexivity.
Qed.

Lemma insert_node_poison L st n st' : level L ->
  is_seq_op (nop n) = false -> (is_unary (nop n) = true -> nch n = []) ->
  insert_node n (L ++ st) = Ok st' ->
  poisonS (L ++ st) = true \/ poisonp n = true -> poisonS st' = true.
Proof.
  intros HL Hn Hu Hi Hp. rewrite insert_node_level in Hi by assumption.
  destruct (insert_back_prioritized (open_elem L) n true) as [c| |] eqn:Ei; try discriminate Hi.
  cbn [bind] in Hi. injection Hi as <-. rewrite poisonS_app.
  destruct Hp as [Hp|Hp].
  - rewrite poisonS_app in Hp. apply orb_prop in Hp. destruct Hp as [Hp|Hp]; [|rewrite Hp; apply orb_true_r].
    rewrite (set_open_poison L c HL); [reflexivity|]. right. split; [exact Hp|].
    apply (insert_poison_self _ _ _ _ Ei Hn Hu).
  - rewrite (set_open_poison L c HL); [reflexivity|]. left. apply (insert_poison_n _ _ _ _ Ei Hp).
Qed.

Lemma seqstep_poison o L L' : seqstep o L L' -> poisonS L = true -> poisonS L' = true.
Proof.
  intros Hs Hp. destruct Hs as [o ch Ho|o ch Ho|init z|ch|ch cch|ch cch];
    unfold poisonS in *; cbn [existsb] in *; rewrite ?poisonp_root_node, ?orb_false_r in *.
  - rewrite (poisonp_unfold o). cbn [existsb]. rewrite pch_seq by exact Ho. rewrite Hp. reflexivity.
  - rewrite poisonp_unfold in *. rewrite existsb_app, Hp. reflexivity.
  - rewrite poisonp_snoc in Hp. rewrite (poisonp_unfold OTuple), (poisonp_unfold OChain init). cbn [existsb].
    rewrite !pch_seq in * by reflexivity. bool_split; bool_close.
  - rewrite (poisonp_unfold OChain). cbn [existsb]. rewrite pch_seq by reflexivity. rewrite Hp. reflexivity.
  - rewrite (poisonp_unfold OTuple (ch ++ _)), existsb_app. rewrite (poisonp_unfold OTuple ch) in Hp.
    bool_split; bool_close.
  - rewrite (poisonp_unfold OChain (cch ++ _)), existsb_app. cbn [existsb]. rewrite pch_seq by reflexivity.
    rewrite (poisonp_unfold OChain cch) in Hp. bool_split; bool_close.
Qed.

Lemma closed_poison L : level L -> poisonS L = true -> poisonp (closed_of L) = true.
Proof.
  intros HL Hp. destruct HL as [ch|o init rch Ho Hi|init rch cch Hi Hc];
    unfold poisonS in *; cbn [existsb closed_of nop nch] in *; rewrite ?poisonp_root_node, ?orb_false_r in *.
  - exact Hp.
  - rewrite (poisonp_unfold ORootNode). cbn [existsb]. rewrite (pch_poisonp _ _ Hp). reflexivity.
  - rewrite (poisonp_unfold ORootNode). cbn [existsb]. rewrite orb_false_r. apply pch_poisonp.
    rewrite poisonp_snoc. rewrite pch_seq by reflexivity. rewrite (poisonp_unfold OChain cch) in Hp.
    bool_split; bool_close.
Qed.

Lemma root_not_unary : is_unary ORootNode = false.
Proof. rewrite is_unary_shape. reflexivity. Qed.

Lemma step_poison t next lr st st' d p : levels st d p -> poisonS st = true ->
  step t next lr st = Ok st' -> poisonS st' = true.
Proof.
  intros Hl Hp Hs.
  assert (Hins : forall o, insert_node (Node o []) st = Ok st' -> poisonS st' = true).
  { intros o Hi. apply levels_inv in Hl. destruct Hl as (L & st2 & p2 & -> & HL & _ & _).
    destruct (is_seq_op o) eqn:Eo.
    - destruct (seqstep_total o L HL Eo) as (L' & Hss).
      rewrite (seqstep_sound _ _ _ st2 Hss) in Hi. injection Hi as <-.
      rewrite poisonS_app in *. apply orb_prop in Hp. destruct Hp as [Hp|Hp]; [|rewrite Hp; apply orb_true_r].
      rewrite (seqstep_poison _ _ _ Hss Hp). reflexivity.
    - apply (insert_node_poison L st2 (Node o []) st' HL Eo (fun _ => eq_refl) Hi). left. exact Hp. }
  destruct t.
  17: { cbn [step] in Hs. destruct (length st <=? 1)%nat; [discriminate Hs|].
    apply levels_inv in Hl. destruct Hl as (L & st2 & p2 & -> & HL & Hr & _).
    rewrite collapse_level in Hs by exact HL.
    destruct (Nat.ltb 1 (length (nch (closed_of L)))); [discriminate Hs|]. cbn [bind] in Hs.
    destruct Hr as [(_ & -> & _)|(d' & _ & Hl2)]; [discriminate Hs|].
    apply levels_inv in Hl2. destruct Hl2 as (L2 & st3 & p3 & -> & HL2 & _ & _).
    apply (insert_node_poison L2 st3 (closed_of L) st' HL2); auto.
    - rewrite closed_of_root by exact HL. reflexivity.
    - rewrite closed_of_root by exact HL. rewrite root_not_unary. discriminate.
    - rewrite poisonS_app in Hp. apply orb_prop in Hp. destruct Hp as [Hp|Hp]; [right|left; exact Hp].
      apply closed_poison; assumption. }
  16: { cbn [step] in Hs. injection Hs as <-. cbn [poisonS existsb]. unfold poisonS in Hp. rewrite Hp. apply orb_true_r. }
  all: cbn [step] in Hs;
    match type of Hs with
    | context [token_to_operator ?t ?nx ?l] =>
        destruct (token_to_operator t nx l) as [o|] eqn:Eo;
        [apply (Hins o Hs)|apply token_to_operator_brace in Eo; destruct Eo; discriminate]
    end.
Qed.

(* ------------------------------------------------------------------------------------------ *)
(* 9. The invariant of the token loop                                                           *)

Inductive fstack : list node -> Prop :=
| fs_base L : flevel L -> fstack L
| fs_push L st : flevel L -> fstack st -> fstack (L ++ st).

Lemma fstack_inv st : fstack st -> exists L st', st = L ++ st' /\ flevel L /\ (st' = [] \/ fstack st').
Proof.
  intros H. destruct H as [L HL|L st HL Hst].
  - exists L, []. rewrite app_nil_r. auto.
  - exists L, st. auto.
Qed.

Lemma fstack_mk L st : flevel L -> st = [] \/ fstack st -> fstack (L ++ st).
Proof. intros HL [-> | H]; [rewrite app_nil_r; constructor; exact HL|constructor; assumption]. Qed.

Lemma fstack_nonempty st : fstack st -> st <> [].
Proof.
  intros H. apply fstack_inv in H. destruct H as (L & st' & -> & HL & _).
  apply flevel_level, level_nonempty in HL. destruct L; [congruence|discriminate].
Qed.

(* st stands for exactly the tokens read so far (pre); a function identifier still waiting for its
   argument is about to get it (rest begins with a value token) *)
Definition Full (st : list node) (pre rest : list token) : Prop :=
  exists L st', st = L ++ st' /\ flevel L /\ (st' = [] \/ fstack st') /\ stoks st = pre /\
                (pend (open_elem L) = true -> lsided_start rest = true).

Lemma flevel_open L : flevel L -> elem_open (open_elem L).
Proof. intros H. destruct H; cbn [open_elem nch]; rewrite ?last_last; assumption. Qed.

Lemma full_insert L st n st' : flevel L -> ins_arg n ->
  (pend (open_elem L) = true -> lsided_start (toks false n) = true) ->
  insert_node n (L ++ st) = Ok st' ->
  poisonS st' = true \/
  exists c, st' = set_open L c ++ st /\ flevel (set_open L c) /\
            ltoks (set_open L c) = ltoks L ++ toks false n /\ open_elem (set_open L c) = c /\
            (pend c = true -> is_fn_op (nop n) = true /\ nch n = []).
Proof.
  intros HL Ha Hp Hi. pose proof (flevel_level _ HL) as Hlv.
  rewrite insert_node_level in Hi by (try assumption; apply Ha).
  destruct (insert_back_prioritized (open_elem L) n true) as [c| |] eqn:Ei; try discriminate Hi.
  cbn [bind] in Hi. injection Hi as <-.
  destruct (flevel_open _ HL) as (Hr & Hg & Hs).
  destruct (insert_main _ _ _ _ Ei Hs Hg Ha Hp) as [Hpo|(Ht & Hs' & Hg' & Hp')].
  - left. rewrite poisonS_app, (set_open_poison L c Hlv); [reflexivity|]. left; exact Hpo.
  - right. exists c. split; [reflexivity|].
    assert (Hc : elem_open c) by (split; [rewrite (insert_nop _ _ _ _ Ei); exact Hr|split; assumption]).
    destruct (set_open_full L c (toks false n) HL Hc Ht) as (H1 & H2 & H3). auto.
Qed.

Lemma good_fresh o : shape_of o <> SInfix -> is_seq_op o = false -> is_root_op o = false ->
  (exists t, op_token o = [t]) -> good (Node o []).
Proof.
  intros H1 H2 H3 H4. constructor; auto; intros; congruence.
Qed.

Lemma ins_arg_fresh o : is_seq_op o = false -> is_root_op o = false ->
  (exists t, op_token o = [t]) -> ins_arg (Node o []).
Proof.
  intros H2 H3 H4. split; [exact H2|]. split; [intros H1; apply good_fresh; assumption|].
  split; [intros _; exact H4|left; reflexivity].
Qed.

(* the node a token becomes *)
Lemma token_node t next lr o : token_to_operator t next lr = Some o ->
  (is_seq_op o = true /\ sep_of o = t) \/
  (is_seq_op o = false /\ ins_arg (Node o []) /\ toks false (Node o []) = [t] /\
   (is_fn_op o = true -> exists nx, next = Some nx /\ starts_value nx = true)).
Proof.
  assert (Hgen : forall o' t', is_seq_op o' = false -> is_root_op o' = false -> op_token o' = [t'] ->
            toks false (Node o' []) = [t'] -> is_fn_op o' = false ->
            (is_seq_op o' = true /\ sep_of o' = t') \/
            (is_seq_op o' = false /\ ins_arg (Node o' []) /\ toks false (Node o' []) = [t'] /\
             (is_fn_op o' = true -> exists nx, next = Some nx /\ starts_value nx = true))).
  { intros o' t' H1 H2 H3 H4 H5. right. split; [exact H1|]. split; [apply ins_arg_fresh; eauto|].
    split; [exact H4|]. rewrite H5. discriminate. }
  destruct t; cbn [token_to_operator]; intros H; try discriminate H.
  all: try (injection H as <-; first [apply Hgen; reflexivity | left; split; reflexivity]).
  - (* - *) destruct lr; injection H as <-; apply Hgen; reflexivity.
  - (* identifier *)
    injection H as <-. destruct next as [nx|]; [|apply Hgen; reflexivity].
    destruct (is_assignment nx); [apply Hgen; reflexivity|].
    destruct (is_leftsided_value nx) eqn:El; [|apply Hgen; reflexivity].
    rewrite is_leftsided_starts in El.
    right. split; [reflexivity|].
    split; [apply ins_arg_fresh; [reflexivity|reflexivity|exists (TIdentifier s); reflexivity]|].
    split; [reflexivity|]. intros _. exists nx. split; [reflexivity|exact El].
Qed.

Lemma stoks_top L L' st w : flevel L -> flevel L' -> ltoks L' = ltoks L ++ w ->
  stoks (L' ++ st) = stoks (L ++ st) ++ w.
Proof. intros H H' E. rewrite !stoks_level by assumption. rewrite E, <- !app_assoc. reflexivity. Qed.

Lemma step_full t ts lr st st' pre :
  Full st pre (t :: ts) -> step t (next_of ts) lr st = Ok st' ->
  poisonS st' = true \/ Full st' (pre ++ [t]) ts.
Proof.
  intros (L & st2 & -> & HL & Hst2 & Htok & Hpend) Hs.
  pose proof (flevel_level _ HL) as Hlv.
  assert (Hins : forall o, token_to_operator t (next_of ts) lr = Some o ->
            insert_node (Node o []) (L ++ st2) = Ok st' ->
            poisonS st' = true \/ Full st' (pre ++ [t]) ts).
  { intros o Eo Hi. destruct (token_node _ _ _ _ Eo) as [(Hseq & Hsep)|(Hns & Ha & Ht & Hfn)].
    - assert (Hp0 : pend (open_elem L) = false).
      { destruct (pend (open_elem L)); [|reflexivity]. specialize (Hpend eq_refl). cbn in Hpend.
        rewrite <- Hsep in Hpend. destruct (seq_op_cases o Hseq) as [-> | ->]; discriminate Hpend. }
      destruct (seqstep_total o L Hlv Hseq) as (L' & Hss).
      rewrite (seqstep_sound _ _ _ st2 Hss) in Hi. injection Hi as <-.
      destruct (seqstep_full _ _ _ Hss HL Hp0) as (HL' & Hlt & Hop).
      right. exists L', st2. split; [reflexivity|]. split; [exact HL'|]. split; [exact Hst2|].
      split; [rewrite (stoks_top L L' st2 [sep_of o]) by assumption; rewrite Htok, Hsep; reflexivity|].
      rewrite Hop. discriminate.
    - assert (Hp0 : pend (open_elem L) = true -> lsided_start (toks false (Node o [])) = true).
      { intros Hp. rewrite Ht. exact (Hpend Hp). }
      destruct (full_insert L st2 (Node o []) st' HL Ha Hp0 Hi) as [Hpo|(c & -> & HL' & Hlt & Hop & Hpc)]; [left; exact Hpo|].
      right. exists (set_open L c), st2. split; [reflexivity|]. split; [exact HL'|]. split; [exact Hst2|].
      split; [rewrite (stoks_top L (set_open L c) st2 (toks false (Node o []))) by assumption; rewrite Htok, Ht; reflexivity|].
      rewrite Hop. intros Hp. destruct (Hpc Hp) as (Hf & _). destruct (Hfn Hf) as (nx & Enx & Hnx).
      destruct ts as [|x ts]; [discriminate Enx|]. cbn in Enx. injection Enx as ->. exact Hnx. }
  destruct t.
  17: { (* ) *)
    cbn [step] in Hs. destruct (length (L ++ st2) <=? 1)%nat; [discriminate Hs|].
    rewrite collapse_level in Hs by exact Hlv.
    destruct (Nat.ltb 1 (length (nch (closed_of L)))); [discriminate Hs|]. cbn [bind] in Hs.
    destruct Hst2 as [-> | Hst2]; [discriminate Hs|].
    assert (Hp0 : pend (open_elem L) = false).
    { destruct (pend (open_elem L)); [|reflexivity]. specialize (Hpend eq_refl). discriminate Hpend. }
    destruct (closed_full L HL Hp0) as (Ha & Ht & _).
    pose proof (fstack_nonempty _ Hst2) as Hne.
    apply fstack_inv in Hst2. destruct Hst2 as (L2 & st3 & -> & HL2 & Hst3).
    assert (Hp2 : pend (open_elem L2) = true -> lsided_start (toks false (closed_of L)) = true).
    { intros _. rewrite Ht. reflexivity. }
    destruct (full_insert L2 st3 (closed_of L) st' HL2 Ha Hp2 Hs) as [Hpo|(c & -> & HL' & Hlt & Hop & Hpc)]; [left; exact Hpo|].
    right. exists (set_open L2 c), st3. split; [reflexivity|]. split; [exact HL'|]. split; [exact Hst3|].
    split.
    - rewrite (stoks_top L2 (set_open L2 c) st3 (toks false (closed_of L))) by assumption.
      rewrite <- Htok, Ht. rewrite (stoks_level L (L2 ++ st3)) by exact HL.
      destruct (L2 ++ st3); [congruence|]. cbn [isnil app]. rewrite <- !app_assoc. reflexivity.
    - rewrite Hop. intros Hp. destruct (Hpc Hp) as (Hf & _).
      rewrite closed_of_root in Hf by exact Hlv. discriminate Hf. }
  16: { (* ( *)
    cbn [step] in Hs. injection Hs as <-. right.
    exists [root_node], (L ++ st2). split; [reflexivity|].
    split; [constructor; exact elem_open_root_node|]. split; [right; apply fstack_mk; assumption|].
    split; [|discriminate].
    change (root_node :: L ++ st2) with ([root_node] ++ (L ++ st2)).
    rewrite (stoks_level [root_node]) by (constructor; exact elem_open_root_node).
    rewrite Htok. pose proof (level_nonempty _ Hlv). destruct L; [congruence|]. reflexivity. }
  all: cbn [step] in Hs;
    match type of Hs with
    | context [token_to_operator ?t ?nx ?l] =>
        destruct (token_to_operator t nx l) as [o|] eqn:Eo;
        [apply (Hins o eq_refl Hs)|apply token_to_operator_brace in Eo; destruct Eo; discriminate]
    end.
Qed.

Lemma loop_inv ts : forall st lr pre d p st',
  levels st d p -> poisonS st = true \/ Full st pre ts ->
  build_loop ts st lr = Ok st' ->
  exists d' p', levels st' d' p' /\ (poisonS st' = true \/ Full st' (pre ++ ts) []).
Proof.
  induction ts as [|t ts IH]; intros st lr pre d p st' Hl Hinv Hb.
  - cbn [build_loop] in Hb. injection Hb as <-. rewrite app_nil_r. eauto.
  - rewrite build_loop_cons in Hb.
    pose proof (step_levels t (next_of ts) lr st d p Hl) as Hsl.
    destruct (step t (next_of ts) lr st) as [st1| |] eqn:Es; try discriminate Hb. cbn [bind] in Hb.
    destruct Hsl as (d1 & p1 & Hl1 & _ & _).
    assert (Hinv1 : poisonS st1 = true \/ Full st1 (pre ++ [t]) ts).
    { destruct Hinv as [Hp|Hf]; [left; apply (step_poison _ _ _ _ _ _ _ Hl Hp Es)|apply (step_full _ _ _ _ _ _ Hf Es)]. }
    destruct (IH _ _ _ _ _ _ Hl1 Hinv1 Hb) as (d' & p' & Hl' & Hinv').
    exists d', p'. split; [exact Hl'|]. rewrite <- app_assoc in Hinv'. exact Hinv'.
Qed.

Lemma full_init ts : Full [root_node] [] ts.
Proof.
  exists [root_node], []. split; [reflexivity|]. split; [constructor; exact elem_open_root_node|].
  split; [left; reflexivity|]. split; [reflexivity|discriminate].
Qed.

(* Token preservation: the tree renders to exactly the tokens it was built from, unless a prefix
   operator was written directly behind a closing parenthesis -- then the tree has an arity defect. *)
Theorem build_flatten ts n : tokens_to_operator_tree ts = Ok n ->
  has_bad_arity n = true \/ (toks true n = ts /\ good n).
Proof.
  unfold tokens_to_operator_tree. intros H.
  destruct (build_loop ts [root_node] false) as [st| |] eqn:Eb; try discriminate H. cbn [bind] in H.
  destruct (loop_inv ts _ _ [] _ _ _ levels_init (or_intror (full_init ts)) Eb) as (d & p & Hl & Hinv).
  cbn [app] in Hinv. destruct Hinv as [Hp|(L & st2 & -> & HL & Hst2 & Htok & Hpend)].
  - left. apply levels_inv in Hl. destruct Hl as (L & st2 & p2 & -> & HL & _ & _).
    rewrite collapse_level in H by exact HL.
    destruct (Nat.ltb 1 (length (nch (closed_of L)))); [discriminate H|]. cbn [bind] in H.
    destruct st2; [|discriminate H]. injection H as <-. rewrite app_nil_r in Hp.
    apply poisonp_bad. apply closed_poison; assumption.
  - right. pose proof (flevel_level _ HL) as Hlv. rewrite collapse_level in H by exact Hlv.
    destruct (Nat.ltb 1 (length (nch (closed_of L)))); [discriminate H|]. cbn [bind] in H.
    destruct st2; [|discriminate H]. injection H as <-.
    assert (Hp0 : pend (open_elem L) = false).
    { destruct (pend (open_elem L)); [|reflexivity]. specialize (Hpend eq_refl). discriminate Hpend. }
    destruct (closed_full L HL Hp0) as (_ & _ & Hg). split; [|exact Hg].
    rewrite stoks_level in Htok by exact HL. cbn in Htok. exact Htok.
Qed.

(* ------------------------------------------------------------------------------------------ *)
(* 10. A tree without arity defects renders to a token list the recogniser accepts               *)

Definition closer (k : list token) : bool :=
  match k with
  | [] => true
  | TRBrace :: _ | TComma :: _ | TSemicolon :: _ => true
  | _ => false
  end.

Lemma run_closer k : closer k = true -> run NeedOpt k = run Have k.
Proof. destruct k as [|t r]; [reflexivity|]. destruct t; cbn; intros H; try discriminate H; reflexivity. Qed.

Lemma closer_not_lsided k : closer k = true -> lsided_start k = false.
Proof. destruct k as [|t r]; [reflexivity|]. destruct t; cbn; intros H; try discriminate H; reflexivity. Qed.

Lemma infix_token o : shape_of o = SInfix ->
  exists t, op_token o = [t] /\ starts_value t = false /\ forall r, run Have (t :: r) = run Need r.
Proof. destruct o; cbn [shape_of]; intros H; try discriminate H; eexists; (split; [reflexivity|split; [reflexivity|reflexivity]]). Qed.

(* what the induction proves of a node: in an operand position it is read as one operand;
   in an element position (bare) it is read as one, possibly empty, sequence element *)
Definition reads (x : node) : Prop :=
  (is_seq_op (nop x) = false -> forall s k, expects_operand s = true -> lsided_start k = false ->
     run s (toks false x ++ k) = run Have k) /\
  (forall k, closer k = true -> run NeedOpt (toks true x ++ k) = run Have k).

Lemma reads_inner c k : reads c -> closer k = true -> run NeedOpt (toks false c ++ k) = run Have k.
Proof.
  intros (H1 & H2) Hk. destruct (is_seq_op (nop c)) eqn:Es.
  - rewrite (toks_flag false c) by (apply seq_root_false; exact Es). apply H2; exact Hk.
  - apply H1; [reflexivity|reflexivity|apply closer_not_lsided; exact Hk].
Qed.

Lemma reads_join sep ch k : (sep = TComma \/ sep = TSemicolon) -> Forall reads ch -> closer k = true ->
  run NeedOpt (join sep (map (toks true) ch) ++ k) = run Have k.
Proof.
  intros Hsep H. revert k. induction H as [|c r Hc Hr IH]; intros k Hk.
  - apply run_closer; exact Hk.
  - destruct r as [|c2 r].
    + apply Hc; exact Hk.
    + change (join sep (map (toks true) (c :: c2 :: r))) with (toks true c ++ sep :: join sep (map (toks true) (c2 :: r))).
      rewrite <- app_assoc. cbn [app]. destruct Hc as (_ & Hc). rewrite Hc.
      * destruct Hsep as [-> | ->]; cbn [run may_close andb]; apply IH; exact Hk.
      * destruct Hsep as [-> | ->]; reflexivity.
Qed.

Lemma tree_ok_inv o ch : tree_ok (Node o ch) ->
  Forall tree_ok ch /\
  (is_seq_op o = false -> is_root_op o = false -> Forall (fun c => is_seq_op (nop c) = false) ch) /\
  (is_seq_op o = false -> is_root_op o = false -> exists t, op_token o = [t]) /\
  (is_fn_op o = true -> ch <> [] -> lsided_start (concat (map (toks false) ch)) = true).
Proof. intros H; inversion H; auto. Qed.

Lemma bad_false_inv o ch : has_bad_arity (Node o ch) = false ->
  arity_fits o (length ch) = true /\ Forall (fun c => has_bad_arity c = false) ch.
Proof.
  rewrite bad_unfold. intros H. apply orb_false_elim in H. destruct H as [H1 H2]. split.
  - destruct (arity_fits o (length ch)); [reflexivity|discriminate H1].
  - apply Forall_forall. intros c Hin. destruct (has_bad_arity c) eqn:E; [|reflexivity].
    assert (existsb has_bad_arity ch = true) by (apply existsb_exists; eauto). congruence.
Qed.

Lemma tree_reads x : tree_ok x -> has_bad_arity x = false -> reads x.
Proof.
  induction x as [o ch IH] using node_ind'. intros Hok Hbad.
  destruct (tree_ok_inv _ _ Hok) as (Tch & T2 & T3 & T4).
  destruct (bad_false_inv _ _ Hbad) as (Har & Bch).
  assert (Rch : Forall reads ch).
  { clear - IH Tch Bch. induction ch as [|c ch IHch]; constructor;
      inversion IH; inversion Tch; inversion Bch; subst; auto. }
  unfold arity_fits in Har.
  (* for a non-root, non-sequence operator the element reading follows from the operand reading *)
  assert (Hpart2 : is_seq_op o = false -> is_root_op o = false ->
            (forall s k, expects_operand s = true -> lsided_start k = false ->
               run s (toks false (Node o ch) ++ k) = run Have k) -> reads (Node o ch)).
  { intros Hs Hr H1. split; [intros _; exact H1|]. intros k Hk.
    rewrite <- (toks_flag false (Node o ch)) by exact Hr.
    apply H1; [reflexivity|apply closer_not_lsided; exact Hk]. }
  destruct (shape_of o) eqn:Es.
  - (* RootNode *)
    destruct o; try discriminate Es. clear Hpart2.
    destruct ch as [|c [|c2 ch]]; [| |discriminate Har].
    + split.
      * intros _ s k Hs _. rewrite toks_root_false, toks_root_true, toksl_nil. cbn [app run].
        rewrite Hs. reflexivity.
      * intros k Hk. rewrite toks_root_true, toksl_nil. apply run_closer; exact Hk.
    + inversion Rch as [|? ? Rc _]; subst. split.
      * intros _ s k Hs _. rewrite toks_root_false, toks_root_true, toksl_one. cbn [app run]. rewrite Hs. cbn [andb].
        rewrite <- app_assoc. cbn [app]. rewrite (reads_inner c (TRBrace :: k) Rc eq_refl). reflexivity.
      * intros k Hk. rewrite toks_root_true, toksl_one. apply reads_inner; assumption.
  - (* Tuple *)
    split; [destruct o; discriminate|]. intros k Hk. rewrite toks_unfold, Es. apply reads_join; auto.
  - (* Chain *)
    split; [destruct o; discriminate|]. intros k Hk. rewrite toks_unfold, Es. apply reads_join; auto.
  - (* leaves *)
    destruct ch; [|discriminate Har].
    assert (Hs : is_seq_op o = false) by (destruct o; try discriminate Es; reflexivity).
    assert (Hr : is_root_op o = false) by (destruct o; try discriminate Es; reflexivity).
    apply Hpart2; auto. intros s k Hse Hk. rewrite toks_unfold, Es, toksl_nil, app_nil_r.
    destruct (T3 Hs Hr) as (t & Ht).
    destruct o as [| | | | | | | | | | | | | | | | | | | | | | | | | | | |v|id|id|id]; try discriminate Es.
    + destruct v; cbn [op_token] in *; try discriminate Ht; cbn [app run]; rewrite Hse; reflexivity.
    + cbn [op_token app run]. rewrite Hse. destruct k as [|nx k']; [reflexivity|].
      cbn [lsided_start] in Hk. rewrite Hk. reflexivity.
    + cbn [op_token app run]. rewrite Hse. destruct k as [|nx k']; [reflexivity|].
      cbn [lsided_start] in Hk. rewrite Hk. reflexivity.
  - (* prefix operators and function identifiers *)
    destruct ch as [|c [|c2 ch]]; [discriminate Har| |discriminate Har].
    assert (Hs : is_seq_op o = false) by (destruct o; try discriminate Es; reflexivity).
    assert (Hr : is_root_op o = false) by (destruct o; try discriminate Es; reflexivity).
    inversion Rch as [|? ? Rc _]; subst. specialize (T2 Hs Hr). inversion T2 as [|? ? Hcs _]; subst.
    destruct Rc as (Rc1 & _). specialize (Rc1 Hcs).
    apply Hpart2; auto. intros s k Hse Hk. rewrite toks_unfold, Es, toksl_one, <- app_assoc.
    destruct o as [| | | | | | | | | | | | | | | | | | | | | | | | | | | |v|id|id|id]; try discriminate Es.
    + cbn [op_token app run]. apply Rc1; [reflexivity|exact Hk].
    + cbn [op_token app run]. rewrite Hse. apply Rc1; [reflexivity|exact Hk].
    + cbn [op_token app run]. rewrite Hse. cbn [andb].
      assert (Hl : lsided_start (toks false c ++ k) = true).
      { apply lsided_start_app. specialize (T4 eq_refl). cbn [map concat] in T4. rewrite app_nil_r in T4.
        apply T4. discriminate. }
      destruct (toks false c ++ k) as [|nx r] eqn:E; [discriminate Hl|]. cbn [lsided_start] in Hl. rewrite Hl.
      rewrite <- E. apply Rc1; [reflexivity|exact Hk].
  - (* infix operators *)
    destruct ch as [|a [|c [|c3 ch]]]; try discriminate Har.
    assert (Hs : is_seq_op o = false) by (destruct o; try discriminate Es; reflexivity).
    assert (Hr : is_root_op o = false) by (destruct o; try discriminate Es; reflexivity).
    inversion Rch as [|? ? Ra Rch']; subst. inversion Rch' as [|? ? Rc _]; subst.
    specialize (T2 Hs Hr). inversion T2 as [|? ? Has T2']; subst. inversion T2' as [|? ? Hcs _]; subst.
    destruct Ra as (Ra1 & _). destruct Rc as (Rc1 & _). specialize (Ra1 Has). specialize (Rc1 Hcs).
    apply Hpart2; auto. intros s k Hse Hk. rewrite toks_unfold, Es, toksl_one.
    destruct (infix_token o Es) as (t & Ht & Hts & Hrun). rewrite Ht.
    rewrite <- !app_assoc. cbn [app].
    rewrite Ra1; [|exact Hse|exact Hts]. rewrite Hrun. apply Rc1; [reflexivity|exact Hk].
Qed.

(* the rendering of any tree is balanced *)
Lemma op_token_balanced o d k : balanced_from d (op_token o ++ k) = balanced_from d k.
Proof. destruct o as [| | | | | | | | | | | | | | | | | | | | | | | | | | | |v|id|id|id]; try reflexivity. destruct v; reflexivity. Qed.

Lemma join_balanced sep (ls : list (list token)) :
  (sep = TComma \/ sep = TSemicolon) ->
  Forall (fun l => forall d k, balanced_from d (l ++ k) = balanced_from d k) ls ->
  forall d k, balanced_from d (join sep ls ++ k) = balanced_from d k.
Proof.
  intros Hsep H. induction H as [|l r Hl Hr IH]; intros d k; [reflexivity|].
  destruct r as [|l2 r]; [apply Hl|].
  change (join sep (l :: l2 :: r)) with (l ++ sep :: join sep (l2 :: r)).
  rewrite <- app_assoc, Hl. cbn [app]. destruct Hsep as [-> | ->]; cbn [balanced_from]; apply IH.
Qed.

Lemma concat_balanced (ls : list (list token)) :
  Forall (fun l => forall d k, balanced_from d (l ++ k) = balanced_from d k) ls ->
  forall d k, balanced_from d (concat ls ++ k) = balanced_from d k.
Proof.
  intros H. induction H as [|l r Hl Hr IH]; intros d k; [reflexivity|].
  cbn [concat]. rewrite <- app_assoc, Hl. apply IH.
Qed.

Lemma toks_balanced x : forall fl d k, balanced_from d (toks fl x ++ k) = balanced_from d k.
Proof.
  induction x as [o ch IH] using node_ind'. intros fl d k.
  assert (Hm : forall fl', Forall (fun l => forall d k, balanced_from d (l ++ k) = balanced_from d k) (map (toks fl') ch)).
  { intros fl'. clear - IH. induction IH as [|c ch Hc _ IHch]; constructor; [intros; apply Hc|exact IHch]. }
  rewrite toks_unfold. destruct (shape_of o).
  - destruct fl.
    + apply concat_balanced. apply Hm.
    + cbn [app balanced_from]. rewrite <- app_assoc. unfold toksl. rewrite concat_balanced by apply Hm. reflexivity.
  - apply join_balanced; auto.
  - apply join_balanced; auto.
  - rewrite <- app_assoc, op_token_balanced. apply concat_balanced. apply Hm.
  - rewrite <- app_assoc, op_token_balanced. apply concat_balanced. apply Hm.
  - destruct ch as [|c r]; [apply op_token_balanced|].
    inversion IH as [|? ? Hc _]; subst. rewrite <- !app_assoc, Hc, op_token_balanced.
    specialize (Hm false). inversion Hm; subst. apply concat_balanced; assumption.
Qed.

Theorem tree_wellformed n : tree_ok n -> has_bad_arity n = false -> wellformed (tokens_of_top n) = true.
Proof.
  intros Hok Hbad. unfold wellformed, tokens_of_top, balanced.
  pose proof (toks_balanced n true 0%nat []) as Hb. rewrite app_nil_r in Hb. rewrite Hb. cbn [balanced_from Nat.eqb andb].
  destruct (tree_reads n Hok Hbad) as (_ & H2). specialize (H2 [] eq_refl). rewrite app_nil_r in H2. rewrite H2. reflexivity.
Qed.

(* ------------------------------------------------------------------------------------------ *)
(* 11. The theorems of Props/C13.v                                                              *)

Theorem flatten_arity ts n : tokens_to_operator_tree ts = Ok n -> has_bad_arity n = false ->
  tokens_of_top n = ts.
Proof. intros H Hb. destruct (build_flatten ts n H) as [Hbad|[Ht _]]; [congruence|exact Ht]. Qed.

Theorem built_tree_ok ts n : tokens_to_operator_tree ts = Ok n -> has_bad_arity n = false -> tree_ok n.
Proof. intros H Hb. destruct (build_flatten ts n H) as [Hbad|[_ Hg]]; [congruence|apply good_tree_ok; exact Hg]. Qed.

Theorem rejected ts : wellformed ts = false ->
  (exists e, tokens_to_operator_tree ts = Err e) \/
  (exists n, tokens_to_operator_tree ts = Ok n /\ has_bad_arity n = true).
Proof.
  intros Hw. pose proof (build_no_panic ts) as Hnp.
  destruct (tokens_to_operator_tree ts) as [n|e|s] eqn:E; [|left; eauto|discriminate Hnp].
  right. exists n. split; [reflexivity|]. destruct (has_bad_arity n) eqn:Hb; [reflexivity|].
  pose proof (tree_wellformed n (built_tree_ok ts n E Hb) Hb) as Hwf.
  rewrite (flatten_arity ts n E Hb) in Hwf. congruence.
Qed.

(* the rendering cannot be made to work for all trees: two token lists build the same tree *)
Theorem flatten_refuted :
  exists ts1 ts2 n, ts1 <> ts2 /\ tokens_to_operator_tree ts1 = Ok n /\ tokens_to_operator_tree ts2 = Ok n.
Proof.
  exists [TLBrace; TRBrace; TNot], [TLBrace; TNot; TRBrace], (Node ORootNode [Node ORootNode [Node ONot []]]).
  split; [discriminate|]. split; vm_compute; reflexivity.
Qed.
