(* Lemmas shared by all proof files. *)
From Coq Require Import Floats.SpecFloat.
Require Import Model.Base Model.Syntax Model.F64 Model.Lexer Model.Value.

(* well-formed values: every integer is a 64-bit integer *)
Fixpoint wf (v : value) : Prop :=
  match v with
  | VInt i => in_i64 i = true
  | VTuple l => (fix all (l : list value) : Prop := match l with [] => True | x :: l' => wf x /\ all l' end) l
  | _ => True
  end.

Lemma in_i64_spec z : in_i64 z = true <-> (i64_min <= z <= i64_max).
Proof. unfold in_i64. rewrite andb_true_iff, !Z.leb_le. tauto. Qed.

(* induction principle for values with the nested list *)
Lemma value_ind' (P : value -> Prop) :
  (forall s, P (VString s)) -> (forall f, P (VFloat f)) -> (forall i, P (VInt i)) -> (forall b, P (VBool b)) ->
  (forall l, Forall P l -> P (VTuple l)) -> P VEmpty -> forall v, P v.
Proof.
  intros Hs Hf Hi Hb Ht He. fix IH 1. intros [s|f|i|b|l|].
  - apply Hs. - apply Hf. - apply Hi. - apply Hb.
  - apply Ht. induction l as [|x l IHl]; constructor; [apply IH|exact IHl].
  - exact He.
Qed.


Lemma wf_tuple l : wf (VTuple l) <-> Forall wf l.
Proof.
  induction l as [|x l IH]; cbn.
  - split; [constructor|trivial].
  - cbn in IH. rewrite IH. split; [intros [? ?]; constructor; assumption|inversion 1; auto].
Qed.

(* outcome monad *)
Lemma bind_ok {A B} (r : outcome A) (f : A -> outcome B) b :
  bind r f = Ok b -> exists a, r = Ok a /\ f a = Ok b.
Proof. destruct r; cbn; intros H; try discriminate. eauto. Qed.

Lemma bind_not_panic {A B} (r : outcome A) (f : A -> outcome B) :
  is_panic r = false -> (forall a, r = Ok a -> is_panic (f a) = false) -> is_panic (bind r f) = false.
Proof. destruct r; cbn; intros H1 H2; auto; discriminate. Qed.

Lemma nth_opt_some {A} (l : list A) (i : nat) : (i < length l)%nat -> exists x, nth_opt l i = Some x.
Proof.
  revert i; induction l as [|a l IH]; intros i H; cbn in *; [lia|].
  destruct i; [eauto|]. apply IH. lia.
Qed.
