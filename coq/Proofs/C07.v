(* C07: whitespace and comments never change meaning; and the embedded form of C06
   (tokenize (join ls seps) = Ok (map denote ls) for every valid separator assignment). *)
From Coq Require Import Strings.String Floats.SpecFloat.
Require Import Model.Base Model.Syntax Model.F64 Gen.Tables Model.Lexer.
Require Import Spec.LexSpec Proofs.Common Proofs.LexFacts Proofs.C06.

(* ========================================================================================== *)
(** * 1. Comments *)

(* an inline comment, from state Normal (the previous character was not a lone '/') *)
Lemma comment_block acc body : ~ contains [42; 47]%N body ->
  lex_run LNormal acc ([47; 42]%N ++ body ++ [42; 47]%N) = Ok (LNormal, PWhitespace :: acc).
Proof.
  intros H. cbn [app lex_run lex_step]. rewrite lex_normal_slash. cbn [bind fst snd lex_step]. ceval.
  cbn [bind fst snd]. apply lex_run_block_close. exact H.
Qed.

(* a line comment closed by a newline *)
Lemma comment_line acc body : ~ In 10%N body ->
  lex_run LNormal acc ([47; 47]%N ++ body ++ [10%N]) = Ok (LNormal, PWhitespace :: acc).
Proof.
  intros H. cbn [app lex_run lex_step]. rewrite lex_normal_slash. cbn [bind fst snd lex_step]. ceval.
  cbn [bind fst snd]. rewrite lex_run_app, lex_run_line_body by exact H.
  cbn [bind fst snd lex_run lex_step]. ceval. reflexivity.
Qed.

(* a line comment closed by the end of the input *)
Lemma comment_line_eof acc body : ~ In 10%N body ->
  lex LNormal acc ([47; 47]%N ++ body) = Ok (rev (PWhitespace :: acc)).
Proof.
  intros H. apply lex_run_ok_end with (st1 := LLine).
  cbn [app lex_run lex_step]. rewrite lex_normal_slash. cbn [bind fst snd lex_step]. ceval.
  cbn [bind fst snd]. apply lex_run_line_body. exact H.
Qed.

(* an inline comment that is never closed *)
Lemma unterminated pre acc body :
  lex_run LNormal [] pre = Ok (LNormal, acc) -> ~ contains [42; 47]%N body ->
  tokenize (pre ++ [47; 42]%N ++ body) = Err (ECustomMessage (s2l "unmatched inline comment"%string)).
Proof.
  intros Hpre Hb. unfold tokenize, str_to_partial_tokens.
  rewrite (lex_app_ok _ _ _ _ _ _ Hpre).
  assert (E : lex_run LNormal acc ([47; 42]%N ++ body) = Ok (LBlock (ends_star false body), acc)).
  { cbn [app lex_run lex_step]. rewrite lex_normal_slash. cbn [bind fst snd lex_step]. ceval.
    cbn [bind fst snd]. apply lex_run_block_body; [exact Hb|discriminate]. }
  rewrite (lex_run_ok_end _ _ _ _ _ E). reflexivity.
Qed.

(* ========================================================================================== *)
(** * 2. Separators *)

Definition ws (n : nat) : list ptoken := repeat PWhitespace n.

Lemma ws_snoc n : ws n ++ [PWhitespace] = PWhitespace :: ws n.
Proof. unfold ws. induction n as [|n IHn]; [reflexivity|]. cbn [repeat app]. rewrite IHn. reflexivity. Qed.

Lemma rev_ws n : rev (ws n) = ws n.
Proof. induction n as [|n IHn]; [reflexivity|]. change (ws (S n)) with (PWhitespace :: ws n). cbn [rev]. rewrite IHn. apply ws_snoc. Qed.

Lemma item_normal it acc : item_wf it ->
  lex_run LNormal acc (item_text it) = Ok (LNormal, PWhitespace :: acc).
Proof.
  destruct it as [c|body|body]; cbn [item_wf item_text]; intros H.
  - apply lex_run_ws_normal. exact H.
  - apply comment_block. exact H.
  - apply comment_line. exact H.
Qed.

Lemma gap_normal g : Forall item_wf g -> forall acc,
  lex_run LNormal acc (gap_text g) = Ok (LNormal, ws (length g) ++ acc).
Proof.
  induction 1 as [|it g Hit Hg IH]; intros acc; [reflexivity|].
  unfold gap_text. cbn [map concat]. fold (gap_text g).
  rewrite lex_run_app, item_normal by exact Hit. cbn [bind fst snd]. rewrite IH.
  cbn [length]. change (ws (S (length g))) with (PWhitespace :: ws (length g)).
  rewrite <- ws_snoc, <- app_assoc. reflexivity.
Qed.

(* from either between-lexemes state; after a lone '/' the gap must not begin with a comment *)
Lemma gap_run g st acc : Forall item_wf g -> (st = LNormal \/ st = LSlash) ->
  (st = LSlash -> ~ begins_with_comment g) ->
  lex_run st acc (gap_text g) =
  Ok (match g with [] => (st, acc) | _ => (LNormal, ws (length g) ++ flush st acc) end).
Proof.
  intros Hg Hst Hc. destruct g as [|it g]; [reflexivity|].
  destruct Hst as [->| ->]; [apply gap_normal; exact Hg|].
  inversion Hg as [|? ? Hit Hg']; subst.
  destruct it as [c|body|body]; try (exfalso; apply Hc; [reflexivity|exact I]).
  unfold gap_text. cbn [map concat item_text]. fold (gap_text g). cbn [item_wf] in Hit.
  rewrite lex_run_app, lex_run_ws_slash by exact Hit. cbn [bind fst snd].
  rewrite gap_normal by exact Hg'. cbn [flush length]. rewrite push_slash.
  change (ws (S (length g))) with (PWhitespace :: ws (length g)).
  rewrite <- ws_snoc, <- app_assoc. reflexivity.
Qed.

(* white space in the partial-token list: skipped, and its multiplicity is irrelevant *)
Lemma ptt_ws_prefix n ps : partial_tokens_to_tokens (ws n ++ ps) = partial_tokens_to_tokens ps.
Proof. induction n as [|n IHn]; [reflexivity|]. change (ws (S n)) with (PWhitespace :: ws n). cbn [app partial_tokens_to_tokens]. exact IHn. Qed.

Lemma ptt_ws_once ps1 : forall ps2,
  partial_tokens_to_tokens (ps1 ++ PWhitespace :: PWhitespace :: ps2) =
  partial_tokens_to_tokens (ps1 ++ PWhitespace :: ps2).
Proof.
  induction ps1 as [ps1 IH] using list_len_ind. intros ps2.
  destruct ps1 as [|x ps1']; [reflexivity|].
  cbn [app]. rewrite !ptt_cons.
  destruct ps1' as [|y ps1''].
  - (* the white space is the second partial token *)
    cbn [app hd_error tl].
    destruct (pstep_ws_second x (Some PWhitespace)) as [E1 _]. rewrite E1.
    destruct (pstep_ws_second x (hd_error ps2)) as [E2 Hk]. rewrite E2.
    destruct (pstep x (Some PWhitespace) None) as [ts k|e]; [|reflexivity]. subst k. reflexivity.
  - assert (Hh : forall q, hd_error (tl ((y :: ps1'') ++ PWhitespace :: q)) = hd_error (ps1'' ++ [PWhitespace])).
    { intros q. cbn [app tl]. destruct ps1''; reflexivity. }
    cbn [hd_error]. rewrite !Hh. cbn [app hd_error].
    destruct (pstep x (Some y) (hd_error (ps1'' ++ [PWhitespace]))) as [ts k|e] eqn:E; [|reflexivity].
    pose proof (pstep_drop_le _ _ _ _ _ E) as Hk.
    assert (Hgoal : partial_tokens_to_tokens (skipn k (y :: ps1'' ++ PWhitespace :: PWhitespace :: ps2)) =
                    partial_tokens_to_tokens (skipn k (y :: ps1'' ++ PWhitespace :: ps2))).
    { destruct k as [|[|[|k]]]; [| | |lia].
      - cbn [skipn]. apply (IH (y :: ps1'')). cbn [length]. lia.
      - cbn [skipn]. apply (IH ps1''). cbn [length]. lia.
      - destruct ps1'' as [|z ps1'''].
        + reflexivity.
        + cbn [skipn app]. apply (IH ps1'''). cbn [length]. lia. }
    rewrite Hgoal. reflexivity.
Qed.

Lemma ptt_ws_many n ps1 ps2 :
  partial_tokens_to_tokens (ps1 ++ ws (S n) ++ ps2) = partial_tokens_to_tokens (ps1 ++ PWhitespace :: ps2).
Proof.
  induction n as [|n IH]; [reflexivity|].
  rewrite <- IH. change (ws (S (S n)) ++ ps2) with (PWhitespace :: PWhitespace :: (ws n ++ ps2)).
  apply ptt_ws_once.
Qed.

(* C07_sep_equiv, lexer half: any non-empty separator pushes only white space and returns to Normal *)
Lemma sep_equiv_lex g acc : Forall item_wf g -> g <> [] ->
  exists n, lex_run LNormal acc (gap_text g) = Ok (LNormal, ws (S n) ++ acc).
Proof.
  intros Hg Hne. destruct g as [|it g]; [congruence|].
  exists (length g). apply (gap_normal (it :: g) Hg).
Qed.

(* ========================================================================================== *)
(** * 3. Lexemes as partial tokens *)

Definition op_ptoks (o : oplex) : list ptoken :=
  match o with
  | XPlus => [PPlus] | XMinus => [PMinus] | XStar => [PStar] | XSlash => [PSlash] | XPercent => [PPercent]
  | XHat => [PHat]
  | XEq => [PEq; PEq] | XNeq => [PExclamationMark; PEq] | XGt => [PGt] | XLt => [PLt]
  | XGeq => [PGt; PEq] | XLeq => [PLt; PEq]
  | XAnd => [PAmpersand; PAmpersand] | XOr => [PVerticalBar; PVerticalBar] | XNot => [PExclamationMark]
  | XLBrace => [PToken TLBrace] | XRBrace => [PToken TRBrace]
  | XAssign => [PEq] | XPlusAssign => [PPlus; PEq] | XMinusAssign => [PMinus; PEq] | XStarAssign => [PStar; PEq]
  | XSlashAssign => [PSlash; PEq] | XPercentAssign => [PPercent; PEq] | XHatAssign => [PHat; PEq]
  | XAndAssign => [PAmpersand; PAmpersand; PEq] | XOrAssign => [PVerticalBar; PVerticalBar; PEq]
  | XComma => [PToken TComma] | XSemicolon => [PToken TSemicolon]
  end.

Definition exp_neg (fl : float_lit) : bool := match fl_exp fl with Exp _ SMinus _ => true | _ => false end.
Definition exp_digits (fl : float_lit) : str := match fl_exp fl with Exp _ _ ds => ds | NoExp => [] end.

Definition ptoks (l : lexeme) : list ptoken :=
  match l with
  | LWord w => [PLiteral w]
  | LSci fl => [PLiteral (sci_coeff fl); sign_ptoken (exp_neg fl); PLiteral (exp_digits fl)]
  | LOp o => op_ptoks o
  | LStr t => [PToken (TString t)]
  end.

(* the token a lexeme denotes *)
Definition denote (l : lexeme) : token :=
  match l with
  | LWord w => word_token w
  | LSci fl => TFloat (float_value fl)
  | LOp o => op_token o
  | LStr t => TString t
  end.

Lemma sci_pieces fl : float_wf fl -> signed_exp fl ->
  float_text fl = sci_coeff fl ++ sign_char (exp_neg fl) :: exp_digits fl /\ digits1 (exp_digits fl) /\
  exists up, fl_exp fl = Exp up (if exp_neg fl then SMinus else SPlus) (exp_digits fl).
Proof.
  intros Hwf Hs. destruct (signed_exp_inv fl Hs) as (up & neg & ds & E).
  assert (En : exp_neg fl = neg) by (unfold exp_neg; rewrite E; destruct neg; reflexivity).
  assert (Ed : exp_digits fl = ds) by (unfold exp_digits; rewrite E; reflexivity).
  rewrite En, Ed. split; [apply (float_text_signed fl up neg ds E)|]. split; [|exists up; exact E].
  destruct Hwf as (_ & _ & _ & Hex). rewrite E in Hex. exact Hex.
Qed.

(* one operator character in state Normal *)
Lemma lex_normal_op acc c : In c op_chars -> c <> 47%N ->
  lex_normal acc c = (LNormal, char_to_partial_token c :: acc).
Proof.
  unfold op_chars. intros H Hs.
  repeat (destruct H as [<-|H]; [try congruence; unfold lex_normal; cbn; destruct acc as [|[] acc]; reflexivity|]).
  destruct H.
Qed.

Definition lexeme_state (l : lexeme) : lstate := if is_slash l then LSlash else LNormal.

(* entering a lexeme or a separator from either between-lexemes state *)
Lemma lex_run_enter st acc s : (st = LNormal \/ st = LSlash) -> s <> [] ->
  (st = LSlash -> hd 0%N s <> 47%N /\ hd 0%N s <> 42%N) ->
  lex_run st acc s = lex_run LNormal (flush st acc) s.
Proof.
  intros [->| ->] Hne Hs; [reflexivity|]. destruct s as [|c s]; [congruence|].
  destruct (Hs eq_refl) as [H1 H2]. cbn [hd] in *. cbn [flush]. rewrite push_slash.
  apply lex_run_slash_flush; assumption.
Qed.

(* an operator lexeme, from state Normal *)
Lemma lex_op o acc : exists acc',
  lex_run LNormal acc (op_text o) = Ok (lexeme_state (LOp o), acc') /\
  flush (lexeme_state (LOp o)) acc' = rev (op_ptoks o) ++ acc.
Proof.
  assert (S1 : forall c a s, In c op_chars -> c <> 47%N ->
            lex_run LNormal a (c :: s) = lex_run LNormal (char_to_partial_token c :: a) s).
  { intros c a s Hc Hs. cbn [lex_run lex_step]. rewrite lex_normal_op by assumption. reflexivity. }
  assert (S2 : forall c a s, In c op_chars -> c <> 47%N -> c <> 42%N ->
            lex_run LNormal a (47%N :: c :: s) = lex_run LNormal (char_to_partial_token c :: PSlash :: a) s).
  { intros c a s Hc Hs Hst. cbn [lex_run lex_step]. rewrite lex_normal_slash. cbn [bind fst snd].
    rewrite lex_step_slash_flush by assumption. cbn [lex_step]. rewrite lex_normal_op by assumption. reflexivity. }
  destruct o;
    match goal with |- context [op_text ?o] =>
      let v := eval vm_compute in (op_text o) in change (op_text o) with v end;
    cbn [lexeme_state is_slash op_ptoks rev app flush].
  all: try (eexists; split; [cbn [lex_run lex_step]; rewrite lex_normal_slash; reflexivity|rewrite push_slash; reflexivity]).
  all: try (rewrite S2 by (cbn [op_chars In]; lia); eexists; split; reflexivity).
  all: repeat (rewrite S1 by (cbn [op_chars In]; lia)); eexists; split; reflexivity.
Qed.

(* any lexeme, from state Normal; a word-like lexeme must not follow a literal directly *)
Lemma lex_lexeme l acc : lexeme_wf l -> (wordlike l = true -> top_lit acc = false) ->
  exists acc', lex_run LNormal acc (text l) = Ok (lexeme_state l, acc') /\
               flush (lexeme_state l) acc' = rev (ptoks l) ++ acc.
Proof.
  intros Hwf Htop. destruct l as [w|fl|o|t]; cbn [text lexeme_wf] in *.
  - destruct Hwf as [Hne Hw]. eexists. split; [apply lex_run_word; assumption|].
    cbn [lexeme_state is_slash flush ptoks rev app]. apply push_lit_fresh. apply Htop. reflexivity.
  - destruct Hwf as [Hwf Hs]. destruct (sci_pieces fl Hwf Hs) as (E & Hds & _).
    rewrite E. eexists. split; [apply lex_run_sci; [apply sci_coeff_word; exact Hwf|exact Hds]|].
    cbn [lexeme_state is_slash flush ptoks rev app]. rewrite push_lit_fresh by (apply Htop; reflexivity). reflexivity.
  - apply lex_op.
  - eexists. split; [apply lex_run_quote|reflexivity].
Qed.

Lemma text_nonempty l : lexeme_wf l -> text l <> [].
Proof.
  destruct l as [w|fl|o|t]; cbn [text lexeme_wf].
  - intros [H _]. exact H.
  - intros [H _]. apply float_text_nonempty. exact H.
  - intros _. destruct o; discriminate.
  - intros _. discriminate.
Qed.

(* the last partial token of a lexeme is a literal exactly for the word-like lexemes *)
Lemma top_lit_ptoks l acc : top_lit (rev (ptoks l) ++ acc) = wordlike l.
Proof. destruct l as [w|fl|o|t]; try reflexivity. destruct o; reflexivity. Qed.

(* ========================================================================================== *)
(** * 4. The joined text *)

(* the partial tokens of a joined text: one white space per separator item, the lexemes unfused *)
Fixpoint Pfrom (ls : list lexeme) (seps : list gap) : list ptoken :=
  ws (length (hd [] seps)) ++
  match ls with
  | [] => []
  | l :: ls' => ptoks l ++ Pfrom ls' (tl seps)
  end.

(* valid_seps, as a recursive predicate that remembers the previous lexeme *)
Fixpoint V (prev : option lexeme) (ls : list lexeme) (seps : list gap) : Prop :=
  Forall item_wf (hd [] seps) /\
  (prev = Some (LOp XSlash) -> ~ begins_with_comment (hd [] seps)) /\
  match ls with
  | [] => True
  | l :: ls' =>
      (forall p, prev = Some p -> fuses p l = true -> hd [] seps <> []) /\
      (forall l2 l3, hd_error ls' = Some l2 -> hd_error (tl ls') = Some l3 -> sci l l2 l3 ->
                     gap_at seps 1 <> [] \/ gap_at seps 2 <> []) /\
      V (Some l) ls' (tl seps)
  end.

Lemma gap_at_tl seps i : gap_at (tl seps) i = gap_at seps (S i).
Proof. unfold gap_at. destruct seps as [|g seps]; [destruct i; reflexivity|reflexivity]. Qed.

Lemma gap_at_0 seps : gap_at seps 0 = hd [] seps.
Proof. destruct seps; reflexivity. Qed.

Definition VI (prev : option lexeme) (ls : list lexeme) (seps : list gap) : Prop :=
  (forall i, Forall item_wf (gap_at seps i)) /\
  (prev = Some (LOp XSlash) -> ~ begins_with_comment (gap_at seps 0)) /\
  (forall p l, prev = Some p -> nth_error ls 0 = Some l -> fuses p l = true -> gap_at seps 0 <> []) /\
  (forall i l1 l2, nth_error ls i = Some l1 -> nth_error ls (S i) = Some l2 ->
                   fuses l1 l2 = true -> gap_at seps (S i) <> []) /\
  (forall i l1 l2 l3, nth_error ls i = Some l1 -> nth_error ls (S i) = Some l2 -> nth_error ls (S (S i)) = Some l3 ->
                      sci l1 l2 l3 -> gap_at seps (S i) <> [] \/ gap_at seps (S (S i)) <> []) /\
  (forall i, nth_error ls i = Some (LOp XSlash) -> ~ begins_with_comment (gap_at seps (S i))).

Lemma VI_V ls : forall prev seps, VI prev ls seps -> V prev ls seps.
Proof.
  induction ls as [|l ls IH]; intros prev seps (Hwf & Hsl0 & Hf0 & Hf & Hsci & Hsl).
  - cbn [V]. rewrite <- gap_at_0. auto.
  - cbn [V]. rewrite <- gap_at_0. split; [apply Hwf|]. split; [exact Hsl0|]. split; [|split].
    + intros p Hp Hfu. apply (Hf0 p l Hp eq_refl Hfu).
    + intros l2 l3 H2 H3 Hs. apply (Hsci 0%nat l l2 l3 eq_refl); [| |exact Hs].
      * destruct ls; [discriminate|exact H2].
      * destruct ls as [|a [|b ls]]; try discriminate. exact H3.
    + apply IH. unfold VI. repeat split.
      * intros i. rewrite gap_at_tl. apply Hwf.
      * intros [= ->]. rewrite gap_at_tl. apply (Hsl 0%nat). reflexivity.
      * intros p l' [= <-] Hn Hfu. rewrite gap_at_tl. apply (Hf 0%nat l l'); [reflexivity|exact Hn|exact Hfu].
      * intros i l1 l2 H1 H2 Hfu. rewrite gap_at_tl. apply (Hf (S i) l1 l2); assumption.
      * intros i l1 l2 l3 H1 H2 H3 Hs. rewrite !gap_at_tl. apply (Hsci (S i) l1 l2 l3); assumption.
      * intros i Hi. rewrite gap_at_tl. apply (Hsl (S i)). exact Hi.
Qed.

Lemma valid_V ls seps : valid_seps ls seps -> V None ls seps.
Proof.
  intros (Hwf & Hf & Hsci & Hsl). apply VI_V. unfold VI. repeat split; try assumption; discriminate.
Qed.

(* ---- the lexer on a joined text ---- *)

Definition between (st : lstate) : Prop := st = LNormal \/ st = LSlash.

Definition state_ok (prev : option lexeme) (st : lstate) (acc : list ptoken) : Prop :=
  between st /\
  (st = LSlash -> prev = Some (LOp XSlash)) /\
  (top_lit (flush st acc) = true -> exists p, prev = Some p /\ wordlike p = true).

Lemma first_char_hd l : first_char l = hd 0%N (text l).
Proof. reflexivity. Qed.

Lemma lex_join ls : forall prev seps st acc,
  lexemes_wf ls -> V prev ls seps -> state_ok prev st acc ->
  exists st' acc', lex_run st acc (join ls seps) = Ok (st', acc') /\ between st' /\
                   flush st' acc' = rev (Pfrom ls seps) ++ flush st acc.
Proof.
  induction ls as [|l ls IH]; intros prev seps st acc Hls HV (Hst & Hslash & Htop).
  - cbn [V] in HV. destruct HV as (Hg & Hc & _). cbn [join Pfrom]. rewrite !app_nil_r.
    rewrite gap_run; [|exact Hg|exact Hst|intros E; apply Hc; apply Hslash; exact E].
    destruct (hd [] seps) as [|it g].
    + exists st, acc. repeat split; auto.
    + eexists _, _. split; [reflexivity|]. split; [left; reflexivity|].
      cbn [flush]. rewrite rev_ws. reflexivity.
  - cbn [V] in HV. destruct HV as (Hg & Hc & Hfu & _ & HV').
    inversion Hls as [|? ? Hl Hls']; subst.
    cbn [join Pfrom].
    (* the separator *)
    pose proof (gap_run (hd [] seps) st acc Hg Hst (fun E => Hc (Hslash E))) as Egap.
    (* the state before the lexeme *)
    assert (Hmid : exists st1 acc1, lex_run st acc (gap_text (hd [] seps)) = Ok (st1, acc1) /\ between st1 /\
                     flush st1 acc1 = ws (length (hd [] seps)) ++ flush st acc /\
                     (st1 = LSlash -> hd 0%N (text l) <> 47%N /\ hd 0%N (text l) <> 42%N) /\
                     (wordlike l = true -> top_lit (flush st1 acc1) = false)).
    { destruct (hd [] seps) as [|it g] eqn:Eg.
      - exists st, acc. split; [exact Egap|]. split; [exact Hst|]. split; [reflexivity|]. split.
        + intros E. pose proof (Hslash E) as Hp.
          destruct ((first_char l =? 47) || (first_char l =? 42))%N eqn:Efc.
          * exfalso. apply (Hfu _ Hp); [|reflexivity]. unfold fuses. subst prev. cbn [is_slash andb].
            rewrite Efc. apply orb_true_r.
          * apply orb_false_elim in Efc. destruct Efc as [E1 E2]. apply N.eqb_neq in E1, E2.
            rewrite <- first_char_hd. split; assumption.
        + intros Hw. destruct (top_lit (flush st acc)) eqn:Et; [|reflexivity].
          destruct (Htop eq_refl) as (p & Hp & Hpw). exfalso. apply (Hfu _ Hp); [|reflexivity].
          unfold fuses. rewrite Hpw, Hw. reflexivity.
      - eexists _, _. split; [exact Egap|]. split; [left; reflexivity|]. split; [reflexivity|]. split.
        + discriminate.
        + intros _. reflexivity. }
    destruct Hmid as (st1 & acc1 & E1 & Hb1 & Hf1 & Hs1 & Ht1).
    rewrite (lex_run_app_ok _ _ _ _ _ _ E1).
    (* the lexeme *)
    rewrite lex_run_app.
    rewrite (lex_run_enter st1 acc1 (text l) Hb1 (text_nonempty l Hl) Hs1).
    destruct (lex_lexeme l (flush st1 acc1) Hl Ht1) as (acc2 & E2 & Hf2).
    rewrite E2. cbn [bind fst snd].
    (* the rest *)
    destruct (IH (Some l) (tl seps) (lexeme_state l) acc2 Hls' HV') as (st' & acc' & E3 & Hb3 & Hf3).
    { unfold state_ok. split; [|split].
      - unfold between, lexeme_state. destruct (is_slash l); auto.
      - unfold lexeme_state. destruct l as [w|fl|[]|t]; cbn [is_slash]; try discriminate. reflexivity.
      - rewrite Hf2, top_lit_ptoks. intros Hw. exists l. auto. }
    exists st', acc'. split; [exact E3|]. split; [exact Hb3|].
    rewrite Hf3, Hf2, Hf1. rewrite !rev_app_distr, rev_ws, <- !app_assoc. reflexivity.
Qed.

Lemma lex_end_between st acc : between st -> lex_end st acc = Ok (rev (flush st acc)).
Proof. intros [->| ->]; reflexivity. Qed.

Lemma lex_joined ls seps : lexemes_wf ls -> valid_seps ls seps ->
  str_to_partial_tokens (join ls seps) = Ok (Pfrom ls seps).
Proof.
  intros Hls Hv. unfold str_to_partial_tokens.
  destruct (lex_join ls None seps LNormal [] Hls (valid_V _ _ Hv)) as (st' & acc' & E & Hb & Hf).
  { unfold state_ok. split; [left; reflexivity|]. split; [discriminate|]. cbn. discriminate. }
  rewrite (lex_run_ok_end _ _ _ _ _ E), (lex_end_between _ _ Hb), Hf.
  cbn [flush]. rewrite app_nil_r, rev_involutive. reflexivity.
Qed.

(* ========================================================================================== *)
(** * 5. From partial tokens to tokens *)

(* what may follow a lexeme without being joined to it *)
Definition follow_ok (l : lexeme) (rest : list ptoken) : Prop :=
  (takes_eq l = true -> hd_error rest <> Some PEq) /\
  (forall w neg t, l = LWord w -> hd_error rest = Some (sign_ptoken neg) -> hd_error (tl rest) = Some (PLiteral t) ->
                   parse_float (w ++ sign_char neg :: t) = None).

Lemma literal_alone w second third :
  (forall neg t, second = Some (sign_ptoken neg) -> third = Some (PLiteral t) ->
                 parse_float (w ++ sign_char neg :: t) = None) ->
  literal_to_token w second third = (word_token w, 1%nat).
Proof.
  intros H. unfold word_token, literal_to_token.
  destruct (parse_dec_or_hex w); [reflexivity|]. destruct (parse_float w); [reflexivity|].
  destruct (parse_bool w); [reflexivity|]. cbn [fst].
  destruct second as [[tk2|lit2| | | | | | | | | | | | | ]|]; try reflexivity;
    destruct third as [[tk3|lit3| | | | | | | | | | | | | ]|]; try reflexivity.
  - pose proof (H false lit3 eq_refl eq_refl) as E. cbn [sign_char] in E. rewrite E. reflexivity.
  - pose proof (H true lit3 eq_refl eq_refl) as E. cbn [sign_char] in E. rewrite E. reflexivity.
Qed.

Lemma ptt_lexeme l rest : lexeme_wf l -> follow_ok l rest ->
  partial_tokens_to_tokens (ptoks l ++ rest) =
  bind (partial_tokens_to_tokens rest) (fun r => Ok (denote l :: r)).
Proof.
  intros Hwf [Heq Hsci]. destruct l as [w|fl|o|t].
  - cbn [ptoks app denote]. rewrite ptt_cons. cbn [pstep].
    rewrite literal_alone by (intros neg t; apply Hsci; reflexivity). reflexivity.
  - cbn [ptoks app denote]. destruct Hwf as [Hwf Hs].
    destruct (sci_pieces fl Hwf Hs) as (E & Hds & up & Eexp).
    destruct (sci_coeff_not_number fl _ _ _ Hwf Eexp) as (N1 & N2 & N3).
    pose proof (parse_float_text fl Hwf) as Hpf. rewrite E in Hpf.
    apply ptt_sci. apply literal_join; assumption.
  - cbn [takes_eq] in Heq.
    destruct o; cbn [ptoks op_ptoks app denote op_token partial_tokens_to_tokens];
      try reflexivity;
      (destruct rest as [|x r]; [reflexivity|]; destruct x; try reflexivity;
       exfalso; apply Heq; reflexivity).
  - reflexivity.
Qed.

(* the first partial tokens of a lexeme *)
Lemma hd_ptoks_eq l x : hd_error (ptoks l ++ x) = Some PEq -> first_char l = 61%N.
Proof.
  destruct l as [w|fl|o|t]; cbn [ptoks app hd_error]; try discriminate.
  destruct o; cbn [op_ptoks app hd_error]; try discriminate; reflexivity.
Qed.

Lemma hd_ptoks_lit l x t : hd_error (ptoks l ++ x) = Some (PLiteral t) -> first_word l = Some t.
Proof.
  destruct l as [w|fl|o|s]; cbn [ptoks app hd_error first_word]; try discriminate.
  - intros [= ->]. reflexivity.
  - intros [= ->]. reflexivity.
  - destruct o; cbn [op_ptoks app hd_error]; discriminate.
Qed.

Lemma hd_ptoks_sign l x neg : hd_error (ptoks l ++ x) = Some (sign_ptoken neg) ->
  (l = LOp (if neg then XMinus else XPlus) /\ ptoks l = [sign_ptoken neg]) \/
  hd_error (tl (ptoks l ++ x)) = Some PEq.
Proof.
  destruct l as [w|fl|o|s]; cbn [ptoks app hd_error]; try (destruct neg; discriminate).
  destruct o, neg; cbn [op_ptoks app hd_error tl sign_ptoken]; try discriminate; auto.
Qed.

Lemma Pfrom_gap ls seps : hd [] seps <> [] -> hd_error (Pfrom ls seps) = Some PWhitespace.
Proof.
  intros H. destruct ls; cbn [Pfrom]; destruct (hd [] seps); try congruence; reflexivity.
Qed.

Lemma Pfrom_nogap ls seps : hd [] seps = [] ->
  Pfrom ls seps = match ls with [] => [] | l :: ls' => ptoks l ++ Pfrom ls' (tl seps) end.
Proof. intros H. destruct ls; cbn [Pfrom]; rewrite H; reflexivity. Qed.

Lemma sign_not_ws neg : Some PWhitespace <> Some (sign_ptoken neg).
Proof. destruct neg; discriminate. Qed.

(* a text with a sign in it that parses as a float is a float form *)
Lemma parse_float_signed_form w neg t f :
  parse_float (w ++ sign_char neg :: t) = Some f -> float_form (w ++ sign_char neg :: t).
Proof.
  intros H. destruct (parse_float_some_form _ _ H) as [Hs|[Hf|[_ Hd]]]; [|exact Hf|].
  - exfalso.
    assert (Hin : In (sign_char neg) (map lower_ascii (w ++ sign_char neg :: t))).
    { rewrite map_app, in_app_iff. right. left. destruct neg; reflexivity. }
    unfold special_float_word in Hs. cbv zeta in Hs.
    destruct Hs as [Hs|[Hs|Hs]]; rewrite Hs in Hin; cbn in Hin; destruct neg; cbn in Hin;
      repeat (destruct Hin as [Hin|Hin]; [discriminate Hin|]); exact Hin.
  - exfalso. apply Forall_app in Hd. destruct Hd as [_ Hd]. inversion Hd as [|? ? Hc _]; subst.
    unfold dec_digit in Hc. destruct neg; cbn in Hc; lia.
Qed.

Lemma follow_from_valid prev l ls' seps :
  V prev (l :: ls') seps -> follow_ok l (Pfrom ls' (tl seps)).
Proof.
  cbn [V]. intros (_ & _ & _ & Hsci & HV').
  assert (Hnext : forall l' ls'', ls' = l' :: ls'' -> hd [] (tl seps) = [] -> fuses l l' = false).
  { intros l' ls'' -> Hg. cbn [V] in HV'. destruct HV' as (_ & _ & Hfu & _).
    destruct (fuses l l') eqn:E; [|reflexivity]. exfalso. apply (Hfu l eq_refl E). exact Hg. }
  split.
  - (* '=' *)
    intros Ht Hhd. destruct (hd [] (tl seps)) as [|it g] eqn:Eg.
    + rewrite Pfrom_nogap in Hhd by exact Eg. destruct ls' as [|l' ls'']; [discriminate|].
      apply hd_ptoks_eq in Hhd. pose proof (Hnext l' ls'' eq_refl eq_refl) as Hnf.
      unfold fuses in Hnf. rewrite Ht, Hhd in Hnf. cbn in Hnf. rewrite orb_true_r in Hnf. discriminate.
    + rewrite Pfrom_gap in Hhd by (rewrite Eg; discriminate). discriminate.
  - (* scientific join *)
    intros w neg t -> H1 H2.
    destruct (hd [] (tl seps)) as [|it g] eqn:Eg;
      [|rewrite Pfrom_gap in H1 by (rewrite Eg; discriminate); exfalso; exact (sign_not_ws _ H1)].
    rewrite Pfrom_nogap in H1, H2 by exact Eg. destruct ls' as [|l' ls'']; [discriminate|].
    destruct (hd_ptoks_sign _ _ _ H1) as [[-> Hp]|Hp]; [|rewrite Hp in H2; discriminate].
    rewrite Hp in H2. cbn [app tl] in H2.
    destruct (hd [] (tl (tl seps))) as [|it' g'] eqn:Eg'.
    2: { rewrite Pfrom_gap in H2; [discriminate H2|]. unfold gap in *. rewrite Eg'. discriminate. }
    rewrite Pfrom_nogap in H2 by exact Eg'. destruct ls'' as [|l'' ls''']; [discriminate|].
    apply hd_ptoks_lit in H2.
    destruct (parse_float (w ++ sign_char neg :: t)) as [f|] eqn:Ef; [|reflexivity]. exfalso.
    apply parse_float_signed_form in Ef.
    assert (Hs : sci (LWord w) (LOp (if neg then XMinus else XPlus)) l'').
    { exists w, (if neg then XMinus else XPlus), t. repeat split; auto.
      - destruct neg; auto.
      - destruct neg; exact Ef. }
    destruct (Hsci _ _ eq_refl eq_refl Hs) as [Hg|Hg]; apply Hg.
    + rewrite <- gap_at_tl, gap_at_0. exact Eg.
    + rewrite <- !gap_at_tl, gap_at_0. exact Eg'.
Qed.

Lemma ptt_Pfrom ls : forall prev seps, lexemes_wf ls -> V prev ls seps ->
  partial_tokens_to_tokens (Pfrom ls seps) = Ok (map denote ls).
Proof.
  induction ls as [|l ls IH]; intros prev seps Hls HV; cbn [Pfrom]; rewrite ptt_ws_prefix.
  - reflexivity.
  - inversion Hls as [|? ? Hl Hls']; subst.
    rewrite ptt_lexeme; [|exact Hl|eapply follow_from_valid; exact HV].
    cbn [V] in HV. destruct HV as (_ & _ & _ & _ & HV').
    rewrite (IH _ _ Hls' HV'). reflexivity.
Qed.

(* C06_embedded: every lexeme of a validly separated text is read as the token it denotes *)
Theorem tokenize_join ls seps : lexemes_wf ls -> valid_seps ls seps ->
  tokenize (join ls seps) = Ok (map denote ls).
Proof.
  intros Hls Hv. unfold tokenize. rewrite (lex_joined ls seps Hls Hv). cbn [bind].
  apply (ptt_Pfrom ls None seps Hls (valid_V _ _ Hv)).
Qed.

(* C07_separators *)
Theorem separators ls s1 s2 : lexemes_wf ls -> valid_seps ls s1 -> valid_seps ls s2 ->
  tokenize (join ls s1) = tokenize (join ls s2).
Proof. intros Hls H1 H2. rewrite !tokenize_join by assumption. reflexivity. Qed.

(* ========================================================================================== *)
(** * 6. Statements in terms of the model's lex alone (for Props/C07.v) *)

Lemma comment_block_k acc body rest : ~ contains [42; 47]%N body ->
  lex LNormal acc (([47; 42]%N ++ body ++ [42; 47]%N) ++ rest) = lex LNormal (PWhitespace :: acc) rest.
Proof. intros H. apply (lex_app_ok _ _ _ _ _ _ (comment_block acc body H)). Qed.

Lemma comment_line_k acc body rest : ~ In 10%N body ->
  lex LNormal acc (([47; 47]%N ++ body ++ [10%N]) ++ rest) = lex LNormal (PWhitespace :: acc) rest.
Proof. intros H. apply (lex_app_ok _ _ _ _ _ _ (comment_line acc body H)). Qed.

Lemma unterminated_k pre acc body :
  (forall s, lex LNormal [] (pre ++ s) = lex LNormal acc s) -> ~ contains [42; 47]%N body ->
  tokenize (pre ++ [47; 42]%N ++ body) = Err (ECustomMessage (s2l "unmatched inline comment"%string)).
Proof.
  intros Hk Hb. unfold tokenize, str_to_partial_tokens. rewrite Hk.
  assert (E : lex_run LNormal acc ([47; 42]%N ++ body) = Ok (LBlock (ends_star false body), acc)).
  { cbn [app lex_run lex_step]. rewrite lex_normal_slash. cbn [bind fst snd lex_step]. ceval.
    cbn [bind fst snd]. apply lex_run_block_body; [exact Hb|discriminate]. }
  rewrite (lex_run_ok_end _ _ _ _ _ E). reflexivity.
Qed.

Lemma sep_equiv_lex_k g acc : Forall item_wf g -> g <> [] ->
  exists n, forall rest, lex LNormal acc (gap_text g ++ rest) = lex LNormal (repeat PWhitespace (S n) ++ acc) rest.
Proof.
  intros Hg Hne. destruct (sep_equiv_lex g acc Hg Hne) as [n E]. exists n. intros rest.
  apply (lex_app_ok _ _ _ _ _ _ E).
Qed.

Lemma in_string_markers a b marker :
  In marker [[47; 42]; [42; 47]; [47; 47]]%N ->
  tokenize (quote (a ++ marker ++ b)) = Ok [TString (a ++ marker ++ b)].
Proof. intros _. apply string_alone. Qed.

(* the side remark of Spec/LexSpec.v: in a sci triple the first word ends in e/E after a mantissa and is
   itself neither a number nor a boolean *)
Lemma first_split {A} (P : A -> Prop) (a c : list A) s s' b d :
  Forall (fun x => ~ P x) a -> Forall (fun x => ~ P x) c -> P s -> P s' ->
  a ++ s :: b = c ++ s' :: d -> a = c /\ s = s' /\ b = d.
Proof.
  intros Ha. revert c. induction Ha as [|x a Hx Ha IH]; intros c Hc Ps Ps' E.
  - destruct c as [|y c]; cbn [app] in E.
    + injection E as -> ->. auto.
    + injection E as -> _. inversion Hc; subst. contradiction.
  - destruct c as [|y c]; cbn [app] in E.
    + injection E as -> _. contradiction.
    + injection E as -> E. inversion Hc; subst. destruct (IH c) as (-> & -> & ->); auto.
Qed.

Definition is_sign (c : N) : Prop := c = 43%N \/ c = 45%N.

Lemma float_char_not_sign s : Forall float_char s -> Forall (fun c => ~ is_sign c) s.
Proof. intros H. eapply Forall_impl; [|exact H]. unfold float_char, dec_digit, is_sign. intros c Hc. lia. Qed.

Lemma word_not_sign w : Forall word_char w -> Forall (fun c => ~ is_sign c) w.
Proof.
  intros H. eapply Forall_impl; [|exact H]. intros c (_ & Ho & _) Hs. apply Ho.
  unfold is_sign in Hs. unfold op_chars, In. lia.
Qed.

Lemma sci_first_word_shape w (neg : bool) t : word w -> float_form (w ++ sign_char neg :: t) ->
  exists fl, float_wf fl /\ signed_exp fl /\ w = sci_coeff fl /\ t = exp_digits fl.
Proof.
  intros [_ Hw] (fl & Hwf & _ & E). exists fl.
  assert (Hsign : is_sign (sign_char neg)) by (unfold is_sign; destruct neg; cbn; auto).
  destruct (fl_exp fl) as [|up sg ds] eqn:Ee.
  - (* no exponent: no sign character at all *)
    exfalso. pose proof (float_text_chars fl Hwf) as Hch.
    assert (Hns : ~ signed_exp fl) by (unfold signed_exp; rewrite Ee; tauto).
    specialize (Hch Hns). rewrite <- E in Hch. apply float_char_not_sign in Hch.
    apply Forall_app in Hch. destruct Hch as [_ Hch]. inversion Hch; subst. contradiction.
  - destruct sg.
    + exfalso. pose proof (float_text_chars fl Hwf) as Hch.
      assert (Hns : ~ signed_exp fl) by (unfold signed_exp; rewrite Ee; tauto).
      specialize (Hch Hns). rewrite <- E in Hch. apply float_char_not_sign in Hch.
      apply Forall_app in Hch. destruct Hch as [_ Hch]. inversion Hch; subst. contradiction.
    + assert (Hs : signed_exp fl) by (unfold signed_exp; rewrite Ee; exact I).
      destruct (sci_pieces fl Hwf Hs) as (Et & Hds & _). rewrite Et in E.
      assert (Hsign' : is_sign (sign_char (exp_neg fl))) by (unfold is_sign; destruct (exp_neg fl); cbn; auto).
      destruct (first_split is_sign w (sci_coeff fl) _ _ _ _ (word_not_sign _ Hw)
                  (float_char_not_sign _ (sci_coeff_chars fl Hwf)) Hsign Hsign' E) as (-> & _ & ->).
      auto.
    + assert (Hs : signed_exp fl) by (unfold signed_exp; rewrite Ee; exact I).
      destruct (sci_pieces fl Hwf Hs) as (Et & Hds & _). rewrite Et in E.
      assert (Hsign' : is_sign (sign_char (exp_neg fl))) by (unfold is_sign; destruct (exp_neg fl); cbn; auto).
      destruct (first_split is_sign w (sci_coeff fl) _ _ _ _ (word_not_sign _ Hw)
                  (float_char_not_sign _ (sci_coeff_chars fl Hwf)) Hsign Hsign' E) as (-> & _ & ->).
      auto.
Qed.

Lemma sci_first_not_number l1 l2 l3 : lexeme_wf l1 -> sci l1 l2 l3 ->
  exists w, l1 = LWord w /\
            parse_dec_or_hex w = None /\ parse_float w = None /\ parse_bool w = None.
Proof.
  intros Hwf (w & sg & t & -> & -> & Hsg & _ & Hff). exists w. split; [reflexivity|].
  assert (Hneg : exists neg : bool, op_text sg ++ t = sign_char neg :: t).
  { destruct Hsg as [-> | ->]; [exists false|exists true]; reflexivity. }
  destruct Hneg as [neg En]. rewrite En in Hff.
  destruct (sci_first_word_shape w neg t Hwf Hff) as (fl & Hfl & Hs & -> & _).
  destruct (signed_exp_inv fl Hs) as (up & neg' & ds & Ee).
  apply (sci_coeff_not_number fl up _ ds Hfl Ee).
Qed.

(* ========================================================================================== *)
(** * 7. Concrete instances (the hypotheses of the theorems are satisfiable) *)

Lemma float_form_parses w : float_form w -> exists f, parse_float w = Some f.
Proof. intros (fl & Hwf & _ & ->). exists (float_value fl). apply parse_float_text. exact Hwf. Qed.

Lemma valid3 l1 l2 l3 g0 g1 g2 g3 :
  Forall item_wf g0 -> Forall item_wf g1 -> Forall item_wf g2 -> Forall item_wf g3 ->
  (fuses l1 l2 = true -> g1 <> []) -> (fuses l2 l3 = true -> g2 <> []) ->
  (sci l1 l2 l3 -> g1 <> [] \/ g2 <> []) ->
  (l1 = LOp XSlash -> ~ begins_with_comment g1) -> (l2 = LOp XSlash -> ~ begins_with_comment g2) ->
  (l3 = LOp XSlash -> ~ begins_with_comment g3) ->
  valid_seps [l1; l2; l3] [g0; g1; g2; g3].
Proof.
  intros W0 W1 W2 W3 F1 F2 S1 A1 A2 A3. unfold valid_seps. split; [|split; [|split]].
  - intros i. destruct i as [|[|[|[|i]]]]; cbn; auto. destruct i; constructor.
  - intros i a b Ha Hb Hf. destruct i as [|[|[|i]]]; cbn in *.
    + injection Ha as <-. injection Hb as <-. auto.
    + injection Ha as <-. injection Hb as <-. auto.
    + discriminate.
    + destruct i; discriminate.
  - intros i a b c Ha Hb Hc Hs. destruct i as [|[|i]]; cbn in *.
    + injection Ha as <-. injection Hb as <-. injection Hc as <-. auto.
    + discriminate.
    + destruct i; discriminate.
  - intros i Hi. destruct i as [|[|[|i]]]; cbn in *.
    + injection Hi as Hi. auto.
    + injection Hi as Hi. auto.
    + injection Hi as Hi. auto.
    + destruct i; discriminate.
Qed.

Definition fl_5em3 : float_lit := FloatLit (s2l "5"%string) None (Exp false SMinus (s2l "3"%string)).
Definition fl_2em3 : float_lit := FloatLit (s2l "2"%string) None (Exp false SMinus (s2l "3"%string)).
Definition fl_1ep2 : float_lit := FloatLit (s2l "1"%string) None (Exp false SPlus (s2l "2"%string)).

Ltac digits_tac := repeat constructor; unfold dec_digit; cbn; lia.

Lemma sci_wf_example fl : fl = fl_5em3 \/ fl = fl_2em3 \/ fl = fl_1ep2 -> lexeme_wf (LSci fl).
Proof.
  intros [->|[->| ->]]; (split; [|exact I]); unfold float_wf; cbn;
    (split; [digits_tac|split; [constructor|split; [discriminate|split; [discriminate|digits_tac]]]]).
Qed.

Lemma word_example w : w = s2l "a"%string \/ w = s2l "b"%string \/ w = s2l "0x1e"%string \/ w = s2l "3"%string -> word w.
Proof.
  intros [->|[->|[->| ->]]]; (split; [discriminate|]); repeat constructor; apply word_char_alnum; cbn; lia.
Qed.

Lemma not_in_by_compute c l : existsb (N.eqb c) l = false -> ~ In c l.
Proof.
  intros H Hin. assert (E : existsb (N.eqb c) l = true).
  { apply existsb_exists. exists c. split; [exact Hin|apply N.eqb_refl]. }
  congruence.
Qed.

Lemma in_by_compute c l : existsb (N.eqb c) l = true -> In c l.
Proof. intros H. apply existsb_exists in H. destruct H as (x & Hin & E). apply N.eqb_eq in E. subst. exact Hin. Qed.

Ltac nofuse := let H := fresh "H" in intros H; vm_compute in H; discriminate H.
Ltac noslash := let H := fresh "H" in intros H; discriminate H.
Ltac lexwf := unfold lexemes_wf; repeat apply Forall_cons; try apply Forall_nil; try exact I;
  try (apply sci_wf_example; auto); try (apply word_example; auto).

(* 5e-3-2e-3 : two scientific literals and a minus, written without any separator *)
Lemma example_5e : 
  lexemes_wf [LSci fl_5em3; LOp XMinus; LSci fl_2em3] /\
  valid_seps [LSci fl_5em3; LOp XMinus; LSci fl_2em3] [[]; []; []; []] /\
  join [LSci fl_5em3; LOp XMinus; LSci fl_2em3] [[]; []; []; []] = s2l "5e-3-2e-3"%string.
Proof.
  split; [|split; [|reflexivity]].
  - lexwf.
  - apply valid3; [constructor|constructor|constructor|constructor|nofuse|nofuse| |noslash|noslash|noslash].
    intros (w & sg & t & Hl1 & _). discriminate Hl1.
Qed.

(* 0x1e-3 : the hexadecimal integer 30, minus, 3  (not the float 0x1 * 10^-3) *)
Lemma example_hex :
  lexemes_wf [LWord (s2l "0x1e"%string); LOp XMinus; LWord (s2l "3"%string)] /\
  valid_seps [LWord (s2l "0x1e"%string); LOp XMinus; LWord (s2l "3"%string)] [[]; []; []; []] /\
  join [LWord (s2l "0x1e"%string); LOp XMinus; LWord (s2l "3"%string)] [[]; []; []; []] = s2l "0x1e-3"%string.
Proof.
  split; [|split; [|reflexivity]].
  - lexwf.
  - apply valid3; [constructor|constructor|constructor|constructor|nofuse|nofuse| |noslash|noslash|noslash].
    intros (w & sg & t & [= <-] & [= <-] & _ & [= <-] & Hff).
    destruct (float_form_parses _ Hff) as [f Hf]. vm_compute in Hf. discriminate Hf.
Qed.

(* a-1e+2 : identifier, minus, scientific literal *)
Lemma example_a :
  lexemes_wf [LWord (s2l "a"%string); LOp XMinus; LSci fl_1ep2] /\
  valid_seps [LWord (s2l "a"%string); LOp XMinus; LSci fl_1ep2] [[]; []; []; []] /\
  join [LWord (s2l "a"%string); LOp XMinus; LSci fl_1ep2] [[]; []; []; []] = s2l "a-1e+2"%string.
Proof.
  split; [|split; [|reflexivity]].
  - lexwf.
  - apply valid3; [constructor|constructor|constructor|constructor|nofuse|nofuse| |noslash|noslash|noslash].
    intros (w & sg & t & [= <-] & [= <-] & _ & [= <-] & Hff).
    destruct (float_form_parses _ Hff) as [f Hf]. vm_compute in Hf. discriminate Hf.
Qed.

(* a / b with comments and white space against a/b *)
Definition seps_rich : list gap :=
  [[SLine (s2l "note"%string)]; [SBlock (s2l " c * / "%string)]; [SWs 12288; SLine (s2l "/* x"%string)]; [SWs 10]].

Lemma example_seps :
  lexemes_wf [LWord (s2l "a"%string); LOp XSlash; LWord (s2l "b"%string)] /\
  valid_seps [LWord (s2l "a"%string); LOp XSlash; LWord (s2l "b"%string)] seps_rich /\
  valid_seps [LWord (s2l "a"%string); LOp XSlash; LWord (s2l "b"%string)] [[]; []; []; []] /\
  join [LWord (s2l "a"%string); LOp XSlash; LWord (s2l "b"%string)] [[]; []; []; []] = s2l "a/b"%string /\
  join [LWord (s2l "a"%string); LOp XSlash; LWord (s2l "b"%string)] seps_rich =
    s2l "//note"%string ++ [10%N] ++ s2l "a/* c * / *//"%string ++ [12288%N] ++ s2l "///* x"%string ++ [10%N] ++ s2l "b"%string ++ [10%N].
Proof.
  assert (Hnc : ~ contains [42; 47]%N (s2l " c * / "%string)).
  { intros (a & b & E). change (s2l " c * / "%string) with [32; 99; 32; 42; 32; 47; 32]%N in E.
    repeat (destruct a as [|? a]; cbn [app] in E; [discriminate E|injection E as <- E]).
    destruct a; discriminate E. }
  split; [|split; [|split; [|split; reflexivity]]].
  - lexwf.
  - unfold seps_rich. apply valid3; [| | | |nofuse|nofuse| |noslash| |noslash].
    + constructor; [|constructor]. apply not_in_by_compute. reflexivity.
    + constructor; [|constructor]. exact Hnc.
    + constructor; [apply in_by_compute; reflexivity|]. constructor; [|constructor].
      apply not_in_by_compute. reflexivity.
    + constructor; [apply in_by_compute; reflexivity|constructor].
    + intros (w & sg & t & _ & [= <-] & [Hsg|Hsg] & _); discriminate Hsg.
    + intros _ H. exact H.
  - apply valid3; [constructor|constructor|constructor|constructor|nofuse|nofuse| |noslash| |noslash].
    + intros (w & sg & t & _ & [= <-] & [Hsg|Hsg] & _); discriminate Hsg.
    + intros _ H. exact H.
Qed.
