(* C11: the read-only evaluator against the mutable one, through the traced run of Spec/RefEval.v. *)
From Coq Require Import Floats.SpecFloat.
Require Import Model.Base Model.Syntax Model.F64 Model.Lexer Model.Builder Model.Value Model.Context Model.Builtins
               Model.Eval Model.Interface.
Require Import Spec.RefEval Proofs.Common Proofs.C08.

Section WithOracle.
Variable O : std_oracle.

(* ---- the inner fix of eval_traced as a standalone function ---- *)
Fixpoint eval_args_traced (l : list node) (c : ctx) (lg : log) (mk : option log)
  : outcome (list value) * ctx * log * option log :=
  match l with
  | [] => (Ok [], c, lg, mk)
  | x :: l' =>
      match eval_traced O x c lg mk with
      | (Ok v, c1, lg1, mk1) =>
          match eval_args_traced l' c1 lg1 mk1 with
          | (Ok vs, c2, lg2, mk2) => (Ok (v :: vs), c2, lg2, mk2)
          | r => r
          end
      | (Err e, c1, lg1, mk1) => (Err e, c1, lg1, mk1)
      | (Panic p, c1, lg1, mk1) => (Panic p, c1, lg1, mk1)
      end
  end.

Lemma eval_traced_node o ch c lg mk :
  eval_traced O (Node o ch) c lg mk =
  match eval_args_traced ch c lg mk with
  | (Ok vs, c1, lg1, mk1) => (op_eval_mut O o vs c1 lg1, mark o lg1 mk1)
  | (Err e, c1, lg1, mk1) => (Err e, c1, lg1, mk1)
  | (Panic p, c1, lg1, mk1) => (Panic p, c1, lg1, mk1)
  end.
Proof. reflexivity. Qed.

Lemma eval_traced_node_ok o ch c lg mk vs c1 lg1 mk1 :
  eval_args_traced ch c lg mk = (Ok vs, c1, lg1, mk1) ->
  eval_traced O (Node o ch) c lg mk = (op_eval_mut O o vs c1 lg1, mark o lg1 mk1).
Proof. intros H. rewrite eval_traced_node, H. reflexivity. Qed.

Lemma eval_traced_node_stop o ch c lg mk s c1 lg1 mk1 :
  eval_args_traced ch c lg mk = (stopped s, c1, lg1, mk1) ->
  eval_traced O (Node o ch) c lg mk = (stopped s, c1, lg1, mk1).
Proof. intros H. rewrite eval_traced_node, H. destruct s; reflexivity. Qed.

Lemma eval_args_traced_cons_ok x l c lg mk v c1 lg1 mk1 :
  eval_traced O x c lg mk = (Ok v, c1, lg1, mk1) ->
  eval_args_traced (x :: l) c lg mk =
  match eval_args_traced l c1 lg1 mk1 with
  | (Ok vs, c2, lg2, mk2) => (Ok (v :: vs), c2, lg2, mk2)
  | r => r
  end.
Proof. intros H. cbn [eval_args_traced]. rewrite H. reflexivity. Qed.

Lemma eval_args_traced_cons_stop x l c lg mk s c1 lg1 mk1 :
  eval_traced O x c lg mk = (stopped s, c1, lg1, mk1) ->
  eval_args_traced (x :: l) c lg mk = (stopped s, c1, lg1, mk1).
Proof. intros H. cbn [eval_args_traced]. rewrite H. destruct s; reflexivity. Qed.

(* ---- the traced run IS the mutable run (forget the marker) ---- *)
Lemma traced_faithful_args l :
  Forall (fun n => forall c lg mk, fst (eval_traced O n c lg mk) = eval_mut O n c lg) l ->
  forall c lg mk, fst (eval_args_traced l c lg mk) = eval_args_mut O l c lg.
Proof.
  induction 1 as [|x l Hx Hl IHl]; intros c lg mk; [reflexivity|].
  cbn [eval_args_traced]. rewrite eval_args_mut_cons, <- (Hx c lg mk).
  destruct (eval_traced O x c lg mk) as [[[[v|e|p] c1] lg1] mk1]; try reflexivity.
  cbn [fst]. rewrite <- (IHl c1 lg1 mk1).
  destruct (eval_args_traced l c1 lg1 mk1) as [[[[vs|e|p] c2] lg2] mk2]; reflexivity.
Qed.

Lemma traced_faithful n : forall c lg mk, fst (eval_traced O n c lg mk) = eval_mut O n c lg.
Proof.
  induction n as [o ch IH] using node_ind'. intros c lg mk.
  rewrite eval_traced_node, eval_mut_node, <- (traced_faithful_args ch IH c lg mk).
  destruct (eval_args_traced ch c lg mk) as [[[[vs|e|p] c1] lg1] mk1]; reflexivity.
Qed.

(* ---- once set, the marker stays ---- *)
Lemma mark_some o lg l0 : mark o lg (Some l0) = Some l0.
Proof. reflexivity. Qed.

Lemma marker_stays_args l :
  Forall (fun n => forall c lg l0, snd (eval_traced O n c lg (Some l0)) = Some l0) l ->
  forall c lg l0, snd (eval_args_traced l c lg (Some l0)) = Some l0.
Proof.
  induction 1 as [|x l Hx Hl IHl]; intros c lg l0; [reflexivity|].
  cbn [eval_args_traced]. pose proof (Hx c lg l0) as Hm.
  destruct (eval_traced O x c lg (Some l0)) as [[[[v|e|p] c1] lg1] mk1]; cbn [snd] in Hm; subst mk1;
    try reflexivity.
  pose proof (IHl c1 lg1 l0) as Hm.
  destruct (eval_args_traced l c1 lg1 (Some l0)) as [[[[vs|e|p] c2] lg2] mk2]; exact Hm.
Qed.

Lemma marker_stays n : forall c lg l0, snd (eval_traced O n c lg (Some l0)) = Some l0.
Proof.
  induction n as [o ch IH] using node_ind'. intros c lg l0.
  rewrite eval_traced_node. pose proof (marker_stays_args ch IH c lg l0) as Hm.
  destruct (eval_args_traced ch c lg (Some l0)) as [[[[vs|e|p] c1] lg1] mk1]; cbn [snd] in Hm; subst mk1;
    reflexivity.
Qed.

Lemma marker_stays_args' l c lg l0 : snd (eval_args_traced l c lg (Some l0)) = Some l0.
Proof. apply marker_stays_args. apply Forall_forall. intros n _. apply marker_stays. Qed.

(* ---- the read-only dispatcher ---- *)
Lemma op_eval_assign o vs c lg : is_assign o = true -> op_eval O o vs c lg = (Err EContextNotMutable, lg).
Proof. destruct o; try discriminate; reflexivity. Qed.

(* ---- the invariant: until an assignment operator is applied the two evaluators walk in step ---- *)
Definition in_step (n : node) : Prop := forall c lg r c' lg' mk',
  eval_traced O n c lg None = (r, c', lg', mk') ->
  match mk' with
  | None => c' = c /\ eval_ro O n c lg = (r, lg')
  | Some l0 => eval_ro O n c lg = (Err EContextNotMutable, l0)
  end.

Lemma in_step_args l : Forall in_step l -> forall c lg r c' lg' mk',
  eval_args_traced l c lg None = (r, c', lg', mk') ->
  match mk' with
  | None => c' = c /\ eval_args_ro O l c lg = (r, lg')
  | Some l0 => eval_args_ro O l c lg = (Err EContextNotMutable, l0)
  end.
Proof.
  induction 1 as [|x l Hx Hl IHl]; intros c lg r c' lg' mk' H.
  - cbn in H. injection H as <- <- <- <-. split; reflexivity.
  - destruct (eval_traced O x c lg None) as [[[rx c1] lg1] mk1] eqn:Ex.
    pose proof (Hx _ _ _ _ _ _ Ex) as Sx.
    destruct mk1 as [l0|].
    + (* the marker was set inside x: eval_ro stopped there *)
      assert (Hm : mk' = Some l0).
      { destruct (outcome_stopped rx) as [[v ->]|[s ->]].
        - rewrite (eval_args_traced_cons_ok _ _ _ _ _ _ _ _ _ Ex) in H.
          pose proof (marker_stays_args' l c1 lg1 l0) as Hs.
          destruct (eval_args_traced l c1 lg1 (Some l0)) as [[[[vs|e|p] c2] lg2] mk2];
            cbn [snd] in Hs; injection H as _ _ _ <-; exact Hs.
        - rewrite (eval_args_traced_cons_stop _ _ _ _ _ _ _ _ _ Ex) in H. injection H as _ _ _ <-. reflexivity. }
      subst mk'. apply (eval_args_ro_cons_stop O x l c lg (SErr EContextNotMutable) l0). exact Sx.
    + destruct Sx as [-> Sx].
      destruct (outcome_stopped rx) as [[v ->]|[s ->]].
      * rewrite (eval_args_traced_cons_ok _ _ _ _ _ _ _ _ _ Ex) in H.
        rewrite (eval_args_ro_cons_ok O _ _ _ _ _ _ Sx).
        destruct (eval_args_traced l c lg1 None) as [[[rl c2] lg2] mk2] eqn:El.
        pose proof (IHl _ _ _ _ _ _ El) as Sl.
        assert (Hmk : mk' = mk2) by (destruct rl; injection H as _ _ _ <-; reflexivity).
        subst mk'. destruct mk2 as [l0|].
        -- rewrite Sl. reflexivity.
        -- destruct Sl as [-> Sl]. rewrite Sl.
           destruct rl; injection H as <- <- <-; split; reflexivity.
      * rewrite (eval_args_traced_cons_stop _ _ _ _ _ _ _ _ _ Ex) in H. injection H as <- <- <- <-.
        split; [reflexivity|]. apply eval_args_ro_cons_stop. exact Sx.
Qed.

Lemma traced_in_step n : in_step n.
Proof.
  induction n as [o ch IH] using node_ind'. intros c lg r c' lg' mk' H.
  destruct (eval_args_traced ch c lg None) as [[[ra c1] lg1] mk1] eqn:Ea.
  pose proof (in_step_args ch IH _ _ _ _ _ _ Ea) as Sa.
  destruct (outcome_stopped ra) as [[vs ->]|[s ->]].
  - rewrite (eval_traced_node_ok _ _ _ _ _ _ _ _ _ Ea) in H.
    destruct mk1 as [l0|].
    + (* a child applied an assignment operator *)
      rewrite mark_some in H.
      assert (Hm : mk' = Some l0).
      { destruct (op_eval_mut O o vs c1 lg1) as [[r0 c0] lg0]. injection H as _ _ _ <-. reflexivity. }
      subst mk'. apply (eval_ro_node_stop O o ch c lg (SErr EContextNotMutable) l0). exact Sa.
    + destruct Sa as [-> Sa]. rewrite (eval_ro_node_ok O _ _ _ _ _ _ Sa).
      unfold mark in H. destruct (is_assign o) eqn:Ha.
      * (* this node applies an assignment operator *)
        assert (Hm : mk' = Some lg1).
        { destruct (op_eval_mut O o vs c lg1) as [[r0 c0] lg0]. injection H as _ _ _ <-. reflexivity. }
        subst mk'. apply op_eval_assign. exact Ha.
      * rewrite (op_eval_mut_other O _ _ _ _ Ha) in H. injection H as <- <- <- <-.
        split; [reflexivity|]. destruct (op_eval O o vs c lg1); reflexivity.
  - rewrite (eval_traced_node_stop _ _ _ _ _ _ _ _ _ Ea) in H. injection H as <- <- <- <-.
    destruct mk1 as [l0|].
    + apply (eval_ro_node_stop O o ch c lg (SErr EContextNotMutable) l0). exact Sa.
    + destruct Sa as [-> Sa]. split; [reflexivity|]. apply eval_ro_node_stop. exact Sa.
Qed.

(* C11_project *)
Lemma ro_is_projection n c lg : eval_ro O n c lg = project_ro (eval_traced O n c lg None).
Proof.
  destruct (eval_traced O n c lg None) as [[[r c'] lg'] mk'] eqn:E.
  pose proof (traced_in_step n _ _ _ _ _ _ E) as S.
  destruct mk' as [l0|]; cbn [project_ro]; [exact S|exact (proj2 S)].
Qed.

(* the two readings asked for: marker set / not set *)
Lemma traced_marked n c lg r c' lg' l0 :
  eval_traced O n c lg None = (r, c', lg', Some l0) ->
  eval_mut O n c lg = (r, c', lg') /\ eval_ro O n c lg = (Err EContextNotMutable, l0).
Proof.
  intros E. split.
  - rewrite <- (traced_faithful n c lg None), E. reflexivity.
  - exact (traced_in_step n _ _ _ _ _ _ E).
Qed.

Lemma traced_unmarked n c lg r c' lg' :
  eval_traced O n c lg None = (r, c', lg', None) ->
  eval_mut O n c lg = (r, c, lg') /\ eval_ro O n c lg = (r, lg') /\ c' = c.
Proof.
  intros E. destruct (traced_in_step n _ _ _ _ _ _ E) as [-> S]. split; [|split; [exact S|reflexivity]].
  rewrite <- (traced_faithful n c lg None), E. reflexivity.
Qed.

(* C11_agree, dynamic form: no assignment operator is APPLIED during the mutable run *)
Lemma agree_dynamic n c lg :
  snd (eval_traced O n c lg None) = None ->
  eval_mut O n c lg = (fst (eval_ro O n c lg), c, snd (eval_ro O n c lg)).
Proof.
  intros Hm. destruct (eval_traced O n c lg None) as [[[r c'] lg'] mk'] eqn:E. cbn [snd] in Hm. subst mk'.
  destruct (traced_unmarked _ _ _ _ _ _ E) as [Hmut [Hro _]]. rewrite Hmut, Hro. reflexivity.
Qed.

(* ---- trees without assignment operators never set the marker ---- *)
Lemma mark_not_assign o lg mk : is_assign o = false -> mark o lg mk = mk.
Proof. intros Ha. unfold mark. rewrite Ha. destruct mk; reflexivity. Qed.

Lemma no_assign_unmarked_args l :
  Forall (fun n => no_assign n = true -> forall c lg mk, snd (eval_traced O n c lg mk) = mk) l ->
  forallb no_assign l = true -> forall c lg mk, snd (eval_args_traced l c lg mk) = mk.
Proof.
  induction 1 as [|x l Hx Hl IHl]; intros Hall c lg mk; [reflexivity|].
  cbn [forallb] in Hall. apply andb_prop in Hall. destruct Hall as [Hnx Hnl].
  cbn [eval_args_traced]. pose proof (Hx Hnx c lg mk) as Hm.
  destruct (eval_traced O x c lg mk) as [[[[v|e|p] c1] lg1] mk1]; cbn [snd] in Hm; subst mk1;
    try reflexivity.
  pose proof (IHl Hnl c1 lg1 mk) as Hm.
  destruct (eval_args_traced l c1 lg1 mk) as [[[[vs|e|p] c2] lg2] mk2]; exact Hm.
Qed.

Lemma no_assign_unmarked n : no_assign n = true -> forall c lg mk, snd (eval_traced O n c lg mk) = mk.
Proof.
  induction n as [o ch IH] using node_ind'. intros Hn c lg mk.
  cbn [no_assign] in Hn. apply andb_prop in Hn. destruct Hn as [Ho Hch].
  apply negb_true_iff in Ho.
  rewrite eval_traced_node. pose proof (no_assign_unmarked_args ch IH Hch c lg mk) as Hm.
  destruct (eval_args_traced ch c lg mk) as [[[[vs|e|p] c1] lg1] mk1]; cbn [snd] in Hm; subst mk1;
    try reflexivity.
  cbn [snd]. apply mark_not_assign. exact Ho.
Qed.

(* C11_agree *)
Lemma agree_static n c lg : no_assign n = true ->
  eval_mut O n c lg = (fst (eval_ro O n c lg), c, snd (eval_ro O n c lg)).
Proof. intros Hn. apply agree_dynamic. apply no_assign_unmarked. exact Hn. Qed.

(* ---- where the marker is: between the initial log and the final log of the mutable run ---- *)
Lemma traced_log_grows n c lg mk r c' lg' mk' :
  eval_traced O n c lg mk = (r, c', lg', mk') -> exists d, lg' = lg ++ d.
Proof.
  intros E. pose proof (traced_faithful n c lg mk) as F. rewrite E in F. cbn [fst] in F. symmetry in F.
  destruct (eval_mut_frame O n _ _ _ _ _ F) as [d [Hd _]]. exists d. exact Hd.
Qed.

Lemma traced_args_log_grows l c lg mk r c' lg' mk' :
  eval_args_traced l c lg mk = (r, c', lg', mk') -> exists d, lg' = lg ++ d.
Proof.
  intros E.
  assert (F : fst (eval_args_traced l c lg mk) = eval_args_mut O l c lg).
  { apply traced_faithful_args. apply Forall_forall. intros n _. apply traced_faithful. }
  rewrite E in F. cbn [fst] in F. symmetry in F.
  assert (Hfr : Forall (framed_mut O) l) by (apply Forall_forall; intros n _; apply eval_mut_frame).
  destruct (frame_args_mut O l Hfr _ _ _ _ _ F) as [d [Hd _]]. exists d. exact Hd.
Qed.

Definition marker_between (n : node) : Prop := forall c lg r c' lg' l0,
  eval_traced O n c lg None = (r, c', lg', Some l0) ->
  exists d1 d2, l0 = lg ++ d1 /\ lg' = l0 ++ d2.

Lemma marker_between_args l : Forall marker_between l -> forall c lg r c' lg' l0,
  eval_args_traced l c lg None = (r, c', lg', Some l0) ->
  exists d1 d2, l0 = lg ++ d1 /\ lg' = l0 ++ d2.
Proof.
  induction 1 as [|x l Hx Hl IHl]; intros c lg r c' lg' l0 H.
  - cbn in H. discriminate H.
  - destruct (eval_traced O x c lg None) as [[[rx c1] lg1] mk1] eqn:Ex.
    destruct (outcome_stopped rx) as [[v ->]|[s ->]].
    + rewrite (eval_args_traced_cons_ok _ _ _ _ _ _ _ _ _ Ex) in H.
      destruct (eval_args_traced l c1 lg1 mk1) as [[[rl c2] lg2] mk2] eqn:El.
      assert (H' : c2 = c' /\ lg2 = lg' /\ mk2 = Some l0) by (destruct rl; injection H as _ <- <- <-; auto).
      destruct H' as [<- [<- ->]].
      destruct mk1 as [l1|].
      * pose proof (marker_stays_args' l c1 lg1 l1) as Hs. rewrite El in Hs. cbn [snd] in Hs.
        injection Hs as ->.
        destruct (Hx _ _ _ _ _ _ Ex) as [d1 [d2 [-> ->]]].
        destruct (traced_args_log_grows _ _ _ _ _ _ _ _ El) as [d3 ->].
        exists d1, (d2 ++ d3). split; [reflexivity|]. now rewrite app_assoc.
      * destruct (traced_log_grows _ _ _ _ _ _ _ _ Ex) as [d0 ->].
        destruct (IHl _ _ _ _ _ _ El) as [d1 [d2 [-> ->]]].
        exists (d0 ++ d1), d2. split; [now rewrite app_assoc|reflexivity].
    + rewrite (eval_args_traced_cons_stop _ _ _ _ _ _ _ _ _ Ex) in H. injection H as <- <- <- ->.
      exact (Hx _ _ _ _ _ _ Ex).
Qed.

Lemma marker_is_between n : marker_between n.
Proof.
  induction n as [o ch IH] using node_ind'. intros c lg r c' lg' l0 H.
  destruct (eval_args_traced ch c lg None) as [[[ra c1] lg1] mk1] eqn:Ea.
  destruct (outcome_stopped ra) as [[vs ->]|[s ->]].
  - rewrite (eval_traced_node_ok _ _ _ _ _ _ _ _ _ Ea) in H.
    destruct (op_eval_mut O o vs c1 lg1) as [[r0 c0] lg0] eqn:Eop.
    injection H as <- <- <- Hm.
    destruct (op_eval_mut_frame O _ _ _ _ _ _ _ Eop) as [-> _].
    destruct mk1 as [l1|].
    + rewrite mark_some in Hm. injection Hm as ->.
      destruct (marker_between_args ch IH _ _ _ _ _ _ Ea) as [d1 [d2 [-> ->]]].
      exists d1, (d2 ++ own_log o vs c1). split; [reflexivity|]. now rewrite app_assoc.
    + unfold mark in Hm. destruct (is_assign o); [|discriminate Hm]. injection Hm as <-.
      destruct (traced_args_log_grows _ _ _ _ _ _ _ _ Ea) as [d1 ->].
      exists d1, (own_log o vs c1). split; reflexivity.
  - rewrite (eval_traced_node_stop _ _ _ _ _ _ _ _ _ Ea) in H. injection H as <- <- <- ->.
    exact (marker_between_args ch IH _ _ _ _ _ _ Ea).
Qed.

(* ---- contexts without a variable store ---- *)
Lemma set_value_nostore c x v : c_kind c <> KHashMap -> set_value c x v = Err EContextNotMutable.
Proof. intros Hk. unfold set_value. destruct (c_kind c); try reflexivity. contradiction. Qed.

(* the eight plain operators behind the op-assign operators never panic on two operands *)
Lemma base_no_panic o b x y c lg : assign_base o = Some b ->
  is_panic (fst (op_eval O b [x; y] c lg)) = false.
Proof.
  intros Hb. destruct o; try discriminate Hb; injection Hb as <-; cbn [op_eval fst];
    unfold arith, bool_op;
    cbn [nargs length N.of_nat expect_operator_argument_amount N.eqb Pos.eqb Pos.of_succ_nat Pos.succ bind arg nth_opt];
    destruct x, y; cbn [bind as_number as_boolean expect_number_or_string is_panic]; try reflexivity;
    unfold checked_add, checked_sub, checked_mul, checked_div, checked_rem, checked;
    match goal with |- context [if ?t then _ else _] => destruct t end; reflexivity.
Qed.

(* every application of an assignment operator fails and leaves context and log alone *)
Lemma nostore_apply o vs c lg : c_kind c <> KHashMap -> is_assign o = true ->
  exists e, op_eval_mut O o vs c lg = (Err e, c, lg).
Proof.
  intros Hk Ha.
  destruct (op_eval_mut O o vs c lg) as [[r c'] lg'] eqn:E. apply apply_complete in E.
  destruct E as
    [o vs c lg Ha' Hc | f a c lg | f vs c lg Hlen
    | x v c lg c' Hset | x v c lg s Hset
    | o b x v c lg old res c' Hb Hget Hop Hset
    | o b x v c lg old res s Hb Hget Hop Hset
    | o b x v c lg old s Hb Hget Hop
    | o b x v c lg Hb Hget
    | o vs c lg Ha' Hlen
    | o t v c lg Ha' Ht].
  - congruence.
  - discriminate Ha.
  - discriminate Ha.
  - rewrite (set_value_nostore _ _ _ Hk) in Hset. discriminate Hset.
  - rewrite (set_value_nostore _ _ _ Hk) in Hset. destruct s as [e|p]; [exists e; reflexivity|discriminate Hset].
  - rewrite (set_value_nostore _ _ _ Hk) in Hset. discriminate Hset.
  - rewrite (set_value_nostore _ _ _ Hk) in Hset. destruct s as [e|p]; [exists e; reflexivity|discriminate Hset].
  - pose proof (base_no_panic o b old v c lg Hb) as Hp. rewrite Hop in Hp.
    destruct s as [e|p]; [exists e; reflexivity|discriminate Hp].
  - eauto.
  - eauto.
  - eauto.
Qed.

(* with well-formed operands the error is set_value's default *)
Lemma nostore_assign x v c lg : c_kind c <> KHashMap ->
  op_eval_mut O OAssign [VString x; v] c lg = (Err EContextNotMutable, c, lg).
Proof.
  intros Hk. apply apply_sound. apply (ap_assign_fail O x v c lg (SErr EContextNotMutable)).
  apply set_value_nostore. exact Hk.
Qed.

Lemma nostore_opassign o b x v c lg old res : c_kind c <> KHashMap ->
  assign_base o = Some b -> get_value c x = Some old -> fst (op_eval O b [old; v] c lg) = Ok res ->
  op_eval_mut O o [VString x; v] c lg = (Err EContextNotMutable, c, lg).
Proof.
  intros Hk Hb Hget Hop. apply apply_sound.
  apply (ap_opassign_store_fail O o b x v c lg old res (SErr EContextNotMutable) Hb Hget Hop).
  apply set_value_nostore. exact Hk.
Qed.

(* hence no tree ever changes such a context *)
Lemma nostore_op_ctx o vs c lg : c_kind c <> KHashMap -> snd (fst (op_eval_mut O o vs c lg)) = c.
Proof.
  intros Hk. destruct (is_assign o) eqn:Ha.
  - destruct (nostore_apply o vs c lg Hk Ha) as [e ->]. reflexivity.
  - rewrite (op_eval_mut_other O _ _ _ _ Ha). reflexivity.
Qed.

Lemma nostore_args_ctx l :
  Forall (fun n => forall c lg, c_kind c <> KHashMap -> snd (fst (eval_mut O n c lg)) = c) l ->
  forall c lg, c_kind c <> KHashMap -> snd (fst (eval_args_mut O l c lg)) = c.
Proof.
  induction 1 as [|x l Hx Hl IHl]; intros c lg Hk; [reflexivity|].
  rewrite eval_args_mut_cons. pose proof (Hx c lg Hk) as Hc.
  destruct (eval_mut O x c lg) as [[[v|e|p] c1] lg1]; cbn [fst snd] in Hc; subst c1; try reflexivity.
  pose proof (IHl c lg1 Hk) as Hc.
  destruct (eval_args_mut O l c lg1) as [[[vs|e|p] c2] lg2]; exact Hc.
Qed.

Lemma nostore_tree_ctx n : forall c lg, c_kind c <> KHashMap -> snd (fst (eval_mut O n c lg)) = c.
Proof.
  induction n as [o ch IH] using node_ind'. intros c lg Hk.
  rewrite eval_mut_node. pose proof (nostore_args_ctx ch IH c lg Hk) as Hc.
  destruct (eval_args_mut O ch c lg) as [[[vs|e|p] c1] lg1]; cbn [fst snd] in Hc; subst c1; try reflexivity.
  apply nostore_op_ctx. exact Hk.
Qed.

(* ... and a tree whose root is an assignment operator never succeeds on it *)
Lemma nostore_assign_node o ch c lg : c_kind c <> KHashMap -> is_assign o = true ->
  exists s, fst (fst (eval_mut O (Node o ch) c lg)) = stopped s.
Proof.
  intros Hk Ha. rewrite eval_mut_node.
  assert (Hall : Forall (fun n => forall c lg, c_kind c <> KHashMap -> snd (fst (eval_mut O n c lg)) = c) ch).
  { apply Forall_forall. intros n _. apply nostore_tree_ctx. }
  pose proof (nostore_args_ctx ch Hall c lg Hk) as Hc.
  destruct (eval_args_mut O ch c lg) as [[[vs|e|p] c1] lg1]; cbn [fst snd] in Hc; subst c1.
  - destruct (nostore_apply o vs c lg1 Hk Ha) as [e ->]. exists (SErr e). reflexivity.
  - exists (SErr e). reflexivity.
  - exists (SPanic p). reflexivity.
Qed.

(* ---- the read-only entry points hand back the context they were given ---- *)
Lemma run_entry_ro_ctx t s c lg : snd (fst (run_entry O MRo t s c lg)) = c.
Proof.
  unfold run_entry. destruct (build_operator_tree s) as [n|e|p]; try reflexivity.
  destruct (eval_ro O n c lg); reflexivity.
Qed.

Lemma run_entry_ro_observations t s c lg x :
  let c' := snd (fst (run_entry O MRo t s c lg)) in
  get_value c' x = get_value c x /\ iter_variables c' = iter_variables c /\
  lookup_function c' x = lookup_function c x /\
  are_builtin_functions_disabled c' = are_builtin_functions_disabled c.
Proof. intros c'. unfold c'. rewrite run_entry_ro_ctx. repeat split. Qed.

End WithOracle.
