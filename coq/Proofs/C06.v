(* C06: literals denote exactly their value. *)
From Coq Require Import Strings.String Floats.SpecFloat.
Require Import Model.Base Model.Syntax Model.F64 Gen.Tables Model.Lexer.
Require Import Spec.LexSpec Proofs.Common Proofs.LexFacts.

(* evaluate comparisons between character constants *)
Ltac ceval :=
  unfold QUOTE, BACKSLASH, SLASH, STAR, NEWLINE;
  repeat match goal with
    | |- context [N.eqb (Npos ?a) (Npos ?b)] =>
        let v := eval vm_compute in (N.eqb (Npos a) (Npos b)) in
        change (N.eqb (Npos a) (Npos b)) with v
    end.

(* ========================================================================================== *)
(** * 1. String literals *)

Lemma lex_run_escape t : forall text acc,
  lex_run (LString text) acc (escape t) = Ok (LString (rev t ++ text), acc).
Proof.
  induction t as [|c t IH]; intros text acc; [reflexivity|].
  cbn [escape]. destruct ((c =? 34) || (c =? 92))%N eqn:E.
  - assert (Hr : forall q, rev t ++ q :: text = rev (q :: t) ++ text).
    { intros q. cbn [rev]. rewrite <- app_assoc. reflexivity. }
    apply orb_prop in E. destruct E as [E|E]; apply N.eqb_eq in E; subst c.
    + cbn [lex_run lex_step]. ceval. cbn [bind fst snd lex_step]. ceval. cbn [bind fst snd].
      rewrite IH, Hr. reflexivity.
    + cbn [lex_run lex_step]. ceval. cbn [bind fst snd lex_step]. ceval. cbn [bind fst snd].
      rewrite IH, Hr. reflexivity.
  - apply orb_false_elim in E. destruct E as [E1 E2].
    cbn [lex_run lex_step]. unfold QUOTE, BACKSLASH. rewrite E1, E2. cbn [bind fst snd].
    rewrite IH. cbn [rev]. rewrite <- app_assoc. reflexivity.
Qed.

(* the body and the closing quote, from inside a string *)
Lemma lex_run_string_rest t text acc :
  lex_run (LString text) acc (escape t ++ [34%N]) = Ok (LNormal, PToken (TString (rev text ++ t)) :: acc).
Proof.
  rewrite lex_run_app, lex_run_escape. cbn [bind fst snd lex_run lex_step]. ceval. cbn [bind fst snd].
  rewrite rev_app_distr, rev_involutive. reflexivity.
Qed.

Lemma lex_run_quote t acc : lex_run LNormal acc (quote t) = Ok (LNormal, PToken (TString t) :: acc).
Proof.
  unfold quote. cbn [lex_run lex_step]. rewrite lex_normal_quote. cbn [bind fst snd].
  rewrite lex_run_string_rest. reflexivity.
Qed.

Lemma lex_run_quote_slash t acc : lex_run LSlash acc (quote t) = Ok (LNormal, PToken (TString t) :: PSlash :: acc).
Proof.
  unfold quote. rewrite lex_run_slash_flush by discriminate. apply (lex_run_quote t (PSlash :: acc)).
Qed.

Lemma ptt_single_token t : partial_tokens_to_tokens [PToken t] = Ok [t].
Proof. reflexivity. Qed.

Lemma string_alone t : tokenize (quote t) = Ok [TString t].
Proof.
  unfold tokenize, str_to_partial_tokens.
  rewrite (lex_run_ok_end _ _ _ _ _ (lex_run_quote t [])). reflexivity.
Qed.

(* embedded: after any prefix that leaves the lexer between lexemes, the quoted text is one String token
   and lexing goes on after it, in state Normal *)
Lemma string_in pre post t acc :
  lex_run LNormal [] pre = Ok (LNormal, acc) ->
  str_to_partial_tokens (pre ++ quote t ++ post) = lex LNormal (PToken (TString t) :: acc) post.
Proof.
  intros H. unfold str_to_partial_tokens.
  rewrite (lex_app_ok _ _ _ _ _ _ H). rewrite (lex_app_ok _ _ _ _ _ _ (lex_run_quote t acc)). reflexivity.
Qed.

(* ... and also directly after a lone '/' *)
Lemma string_in_after_slash pre post t acc :
  lex_run LNormal [] pre = Ok (LSlash, acc) ->
  str_to_partial_tokens (pre ++ quote t ++ post) = lex LNormal (PToken (TString t) :: PSlash :: acc) post.
Proof.
  intros H. unfold str_to_partial_tokens.
  rewrite (lex_app_ok _ _ _ _ _ _ H). rewrite (lex_app_ok _ _ _ _ _ _ (lex_run_quote_slash t acc)). reflexivity.
Qed.

(* bad escapes and missing closing quotes, from anywhere inside a string literal *)
Lemma bad_escape pre text acc c post :
  lex_run LNormal [] pre = Ok (LString text, acc) -> c <> 34%N -> c <> 92%N ->
  tokenize (pre ++ 92%N :: c :: post) = Err (EIllegalEscapeSequence [92%N; c]).
Proof.
  intros H H1 H2. unfold tokenize, str_to_partial_tokens.
  rewrite (lex_app_ok _ _ _ _ _ _ H). rewrite lex_cons. cbn [lex_step]. ceval. cbn [bind fst snd].
  rewrite lex_cons. cbn [lex_step]. unfold QUOTE, BACKSLASH.
  apply N.eqb_neq in H1, H2. rewrite H1, H2. reflexivity.
Qed.

Lemma bad_escape_eof pre text acc :
  lex_run LNormal [] pre = Ok (LString text, acc) ->
  tokenize (pre ++ [92%N]) = Err (EIllegalEscapeSequence [92%N]).
Proof.
  intros H. unfold tokenize, str_to_partial_tokens.
  rewrite (lex_app_ok _ _ _ _ _ _ H). reflexivity.
Qed.

Lemma unmatched_quote pre text acc :
  lex_run LNormal [] pre = Ok (LString text, acc) -> tokenize pre = Err EUnmatchedDoubleQuote.
Proof.
  intros H. unfold tokenize, str_to_partial_tokens. rewrite (lex_run_ok_end _ _ _ _ _ H). reflexivity.
Qed.

(* the prefixes that end inside a string: anything between lexemes, an opening quote, escaped text *)
Lemma inside_string pre acc st t :
  lex_run LNormal [] pre = Ok (st, acc) -> st = LNormal \/ st = LSlash ->
  lex_run LNormal [] (pre ++ 34%N :: escape t) = Ok (LString (rev t), flush st acc).
Proof.
  intros H Hst. rewrite (lex_run_app_ok _ _ _ _ _ _ H).
  assert (E : lex_run st acc (34%N :: escape t) = lex_run LNormal (flush st acc) (34%N :: escape t)).
  { destruct Hst as [->| ->]; [reflexivity|].
    rewrite lex_run_slash_flush by discriminate. cbn [flush]. rewrite push_slash. reflexivity. }
  rewrite E. cbn [lex_run lex_step]. rewrite lex_normal_quote. cbn [bind fst snd].
  rewrite lex_run_escape, app_nil_r. reflexivity.
Qed.

(* ========================================================================================== *)
(** * 2. Words, and integer literals *)

(* the token of a word standing alone *)
Definition word_token (w : str) : token := fst (literal_to_token w None None).

Lemma lex_word w : word w -> str_to_partial_tokens w = Ok [PLiteral w].
Proof.
  intros [Hne Hw]. unfold str_to_partial_tokens.
  rewrite (lex_run_ok_end _ _ _ _ _ (lex_run_word w Hne Hw [])). reflexivity.
Qed.

Lemma ptt_single_literal w : partial_tokens_to_tokens [PLiteral w] = Ok [word_token w].
Proof.
  rewrite ptt_cons. cbn [hd_error tl pstep]. unfold word_token.
  destruct (literal_to_token w None None) as [t n] eqn:E.
  destruct (literal_cut _ _ _ _ _ E) as [->|[_ (sg & x & H & _)]]; [|discriminate].
  reflexivity.
Qed.

Lemma tokenize_word w : word w -> tokenize w = Ok [word_token w].
Proof. intros H. unfold tokenize. rewrite (lex_word w H). cbn [bind]. apply ptt_single_literal. Qed.

Lemma digits1_word w : digits1 w -> word w.
Proof. intros [Hne Hd]. split; [exact Hne|]. eapply Forall_impl; [|exact Hd]. apply dec_digit_word_char. Qed.

(* ---- decimal ---- *)

Definition dstep (acc : Z) (c : N) : Z := acc * 10 + digit_val c.

Lemma digits_val_fold s : digits_val s = fold_left dstep s 0.
Proof. reflexivity. Qed.

Lemma dec_digits_all s : all_digits s -> forall a, dec_digits a s = Some (fold_left dstep s a).
Proof.
  induction 1 as [|c s Hc Hs IH]; intros a; [reflexivity|].
  cbn [dec_digits fold_left]. apply is_digit_iff in Hc. rewrite Hc. apply IH.
Qed.

Lemma dec_digits_some s : forall a v, dec_digits a s = Some v -> all_digits s.
Proof.
  induction s as [|c s IH]; intros a v H; [constructor|].
  cbn [dec_digits] in H. destruct (is_digit c) eqn:E; [|discriminate].
  constructor; [apply is_digit_iff; exact E|eapply IH; exact H].
Qed.

Lemma digits_val_snoc s c : digits_val (s ++ [c]) = digits_val s * 10 + digit_val c.
Proof. unfold digits_val. rewrite fold_left_app. reflexivity. Qed.

Lemma digit_char_spec d : 0 <= d < 10 -> dec_digit (digit_char d) /\ digit_val (digit_char d) = d.
Proof. unfold dec_digit, digit_char, digit_val. intros H. split; lia. Qed.

Lemma pow2_succ (f : nat) : 2 ^ Z.of_nat (S f) = 2 * 2 ^ Z.of_nat f.
Proof. rewrite Nat2Z.inj_succ, Z.pow_succ_r by lia. reflexivity. Qed.

Lemma dec_fuel_spec fuel : forall n, 0 <= n < 2 ^ Z.of_nat fuel ->
  all_digits (dec_fuel fuel n) /\ digits_val (dec_fuel fuel n) = n.
Proof.
  induction fuel as [|f IH]; intros n Hn.
  - cbn in Hn. assert (n = 0) by lia. subst. split; [constructor|reflexivity].
  - rewrite pow2_succ in Hn. cbn [dec_fuel].
    assert (Hm : 0 <= n mod 10 < 10) by (apply Z.mod_pos_bound; lia).
    destruct (digit_char_spec _ Hm) as [Hd Hv].
    destruct (n <? 10) eqn:E.
    + apply Z.ltb_lt in E. cbn [app]. split; [constructor; [exact Hd|constructor]|].
      unfold digits_val. cbn [fold_left]. rewrite Hv. rewrite Z.mod_small by lia. lia.
    + apply Z.ltb_ge in E.
      assert (Hq : 0 <= n / 10 < 2 ^ Z.of_nat f).
      { split; [apply Z.div_pos; lia|]. apply Z.div_lt_upper_bound; lia. }
      destruct (IH _ Hq) as [IHd IHv]. split.
      * apply Forall_app. split; [exact IHd|constructor; [exact Hd|constructor]].
      * rewrite digits_val_snoc, IHv, Hv. pose proof (Z_div_mod_eq_full n 10). lia.
Qed.

Lemma log2_fuel n : 0 <= n -> n < 2 ^ Z.of_nat (S (Z.to_nat (Z.log2 n))).
Proof.
  intros Hn. rewrite Nat2Z.inj_succ, Z2Nat.id by apply Z.log2_nonneg.
  destruct (Z.eq_dec n 0) as [->|Hz]; [reflexivity|].
  apply Z.log2_spec. lia.
Qed.

Lemma decimal_spec n : 0 <= n -> digits1 (decimal n) /\ digits_val (decimal n) = n.
Proof.
  intros Hn. unfold decimal.
  destruct (dec_fuel_spec (S (Z.to_nat (Z.log2 n))) n) as [Hd Hv]; [split; [exact Hn|apply log2_fuel; exact Hn]|].
  split; [split; [|exact Hd]|exact Hv].
  cbn [dec_fuel]. intros H. apply app_eq_nil in H. destruct H as [_ H]. discriminate H.
Qed.

Lemma zeros_digits k : all_digits (zeros k).
Proof. induction k as [|k IHk]; constructor; [unfold dec_digit; lia|exact IHk]. Qed.

Lemma fold_dstep_zeros k : fold_left dstep (zeros k) 0 = 0.
Proof. induction k as [|k IHk]; [reflexivity|]. cbn [zeros repeat fold_left]. exact IHk. Qed.

Lemma digits_val_zeros k s : digits_val (zeros k ++ s) = digits_val s.
Proof. unfold digits_val. rewrite fold_left_app. fold dstep. rewrite fold_dstep_zeros. reflexivity. Qed.

Lemma parse_dec_digits w : digits1 w -> digits_val w <= i64_max -> parse_dec w = Some (digits_val w).
Proof.
  intros [Hne Hd] Hle. unfold parse_dec. destruct w as [|c w]; [congruence|].
  rewrite (dec_digits_all _ Hd 0). rewrite <- digits_val_fold.
  apply Z.leb_le in Hle. rewrite Hle. reflexivity.
Qed.

Lemma parse_dec_overflow w : all_digits w -> i64_max < digits_val w -> parse_dec w = None.
Proof.
  intros Hd Hgt. unfold parse_dec. destruct w as [|c w]; [reflexivity|].
  rewrite (dec_digits_all _ Hd 0). rewrite <- digits_val_fold.
  apply Z.leb_gt in Hgt. rewrite Hgt. reflexivity.
Qed.

Lemma parse_dec_nondigits w : ~ digits1 w -> parse_dec w = None.
Proof.
  intros H. unfold parse_dec. destruct w as [|c w]; [reflexivity|].
  destruct (dec_digits 0 (c :: w)) as [v|] eqn:E; [|reflexivity].
  exfalso. apply H. split; [discriminate|]. eapply dec_digits_some. exact E.
Qed.

(* a word whose second character is not x is not tried as hexadecimal *)
Ltac bits p := do 7 (try (destruct p as [p|p|])).

Lemma parse_dec_or_hex_no_x w : nth 1 w 0%N <> 120%N -> parse_dec_or_hex w = parse_dec w.
Proof.
  intros H. unfold parse_dec_or_hex. destruct w as [|a w]; [reflexivity|].
  destruct (N.eq_dec a 48) as [->|Ha].
  - destruct w as [|b w]; [reflexivity|]. cbn [nth] in H.
    destruct b as [|p]; [reflexivity|]. bits p; try reflexivity. congruence.
  - destruct a as [|p]; [reflexivity|]. bits p; try reflexivity; congruence.
Qed.

Lemma digits_second_not_x w : all_digits w -> nth 1 w 0%N <> 120%N.
Proof.
  intros H. destruct w as [|a [|b w]]; cbn [nth]; try discriminate.
  inversion H as [|? ? _ H']; subst. inversion H' as [|? ? Hb _]; subst. unfold dec_digit in Hb. lia.
Qed.

Lemma word_token_int w z : parse_dec_or_hex w = Some z -> word_token w = TInt z.
Proof. intros H. unfold word_token, literal_to_token. rewrite H. reflexivity. Qed.

Lemma zeros_decimal_digits1 k n : 0 <= n -> digits1 (zeros k ++ decimal n).
Proof.
  intros Hn. destruct (decimal_spec n Hn) as [[Hne Hd] _]. split.
  - intros H. apply app_eq_nil in H. destruct H as [_ H]. contradiction.
  - apply Forall_app. split; [apply zeros_digits|exact Hd].
Qed.

Lemma dec_alone n k : 0 <= n <= i64_max -> tokenize (zeros k ++ decimal n) = Ok [TInt n].
Proof.
  intros [Hn Hmax].
  pose proof (zeros_decimal_digits1 k n Hn) as Hd1.
  rewrite tokenize_word by (apply digits1_word; exact Hd1).
  rewrite (word_token_int _ n); [reflexivity|].
  rewrite parse_dec_or_hex_no_x by (apply digits_second_not_x; apply Hd1).
  destruct (decimal_spec n Hn) as [_ Hv].
  rewrite parse_dec_digits; rewrite ?digits_val_zeros, ?Hv; auto.
Qed.

(* ---- hexadecimal ---- *)

Ltac bool_lia :=
  repeat match goal with
    | |- context [(?a <=? ?b)%N] =>
        first [ replace (a <=? b)%N with true by (symmetry; apply N.leb_le; lia)
              | replace (a <=? b)%N with false by (symmetry; apply N.leb_gt; lia) ]
    end.

Lemma hex_char_spec up d : 0 <= d < 16 -> hex_digit (hex_char up d) /\ hex_val (hex_char up d) = Some d.
Proof.
  intros Hd. unfold hex_digit, hex_val, hex_char, is_digit.
  destruct (d <? 10) eqn:E; [apply Z.ltb_lt in E|apply Z.ltb_ge in E; destruct up].
  - split; [lia|]. bool_lia. cbn [andb]. f_equal. lia.
  - split; [lia|]. bool_lia. cbn [andb]. f_equal. lia.
  - split; [lia|]. bool_lia. cbn [andb]. f_equal. lia.
Qed.

Lemma hex_digits_app s1 : forall a s2,
  hex_digits a (s1 ++ s2) = match hex_digits a s1 with Some v => hex_digits v s2 | None => None end.
Proof.
  induction s1 as [|c s1 IH]; intros a s2; [reflexivity|].
  cbn [app hex_digits]. destruct (hex_val c); [apply IH|reflexivity].
Qed.

Lemma hex_fuel_spec casing fuel : forall n, 0 <= n < 2 ^ Z.of_nat fuel ->
  Forall hex_digit (hex_fuel fuel casing n) /\ hex_digits 0 (hex_fuel fuel casing n) = Some n.
Proof.
  induction fuel as [|f IH]; intros n Hn.
  - cbn in Hn. assert (n = 0) by lia. subst. split; [constructor|reflexivity].
  - rewrite pow2_succ in Hn. cbn [hex_fuel].
    assert (Hm : 0 <= n mod 16 < 16) by (apply Z.mod_pos_bound; lia).
    destruct (hex_char_spec (casing f) _ Hm) as [Hd Hv].
    destruct (n <? 16) eqn:E.
    + apply Z.ltb_lt in E. cbn [app]. split; [constructor; [exact Hd|constructor]|].
      cbn [hex_digits]. rewrite Hv. rewrite Z.mod_small by lia. reflexivity.
    + apply Z.ltb_ge in E.
      assert (Hq : 0 <= n / 16 < 2 ^ Z.of_nat f).
      { split; [apply Z.div_pos; lia|]. apply Z.div_lt_upper_bound; lia. }
      destruct (IH _ Hq) as [IHd IHv]. split.
      * apply Forall_app. split; [exact IHd|constructor; [exact Hd|constructor]].
      * rewrite hex_digits_app, IHv. cbn [hex_digits]. rewrite Hv. f_equal.
        pose proof (Z_div_mod_eq_full n 16). lia.
Qed.

Lemma hex_spec casing n : 0 <= n ->
  hex casing n <> [] /\ Forall hex_digit (hex casing n) /\ hex_digits 0 (hex casing n) = Some n.
Proof.
  intros Hn. unfold hex.
  destruct (hex_fuel_spec casing (S (Z.to_nat (Z.log2 n))) n) as [Hd Hv]; [split; [exact Hn|apply log2_fuel; exact Hn]|].
  split; [|split; assumption].
  cbn [hex_fuel]. intros H. apply app_eq_nil in H. destruct H as [_ H]. discriminate H.
Qed.

Lemma hex_digits_zeros k s : hex_digits 0 (zeros k ++ s) = hex_digits 0 s.
Proof. induction k as [|k IHk]; [reflexivity|]. cbn [zeros repeat app hex_digits]. exact IHk. Qed.

Lemma hex_alone casing n k : 0 <= n <= i64_max ->
  tokenize (48%N :: 120%N :: zeros k ++ hex casing n) = Ok [TInt n].
Proof.
  intros [Hn Hmax]. destruct (hex_spec casing n Hn) as (Hne & Hd & Hv).
  rewrite tokenize_word.
  - f_equal. f_equal. apply word_token_int. cbn [parse_dec_or_hex]. unfold parse_hex.
    rewrite hex_digits_zeros, Hv. apply Z.leb_le in Hmax. rewrite Hmax.
    destruct (zeros k ++ hex casing n) eqn:E; [|reflexivity].
    apply app_eq_nil in E. destruct E as [_ E]. contradiction.
  - split; [discriminate|].
    constructor; [apply word_char_alnum; lia|]. constructor; [apply word_char_alnum; lia|].
    apply Forall_app. split.
    + eapply Forall_impl; [|apply zeros_digits]. apply dec_digit_word_char.
    + eapply Forall_impl; [|exact Hd]. apply hex_digit_word_char.
Qed.

(* ========================================================================================== *)
(** * 3. Float literals *)

Lemma str_eqb_eq a : forall b, str_eqb a b = true <-> a = b.
Proof.
  induction a as [|x a IH]; intros [|y b]; cbn [str_eqb]; split; intros H; try congruence; try discriminate.
  - apply andb_prop in H. destruct H as [H1 H2]. apply N.eqb_eq in H1. apply IH in H2. congruence.
  - injection H as -> ->. rewrite N.eqb_refl. apply IH. reflexivity.
Qed.

Lemma str_eqb_head_neq c s d t : c <> d -> str_eqb (c :: s) (d :: t) = false.
Proof. intros H. cbn [str_eqb]. apply N.eqb_neq in H. rewrite H. reflexivity. Qed.

(* ---- the pieces of parse_float ---- *)

Definition nondigit_head (r : str) : Prop := match r with [] => True | c :: _ => ~ dec_digit c end.

Lemma take_digits_app ds r : all_digits ds -> nondigit_head r -> take_digits (ds ++ r) = (ds, r).
Proof.
  intros Hd Hr. induction Hd as [|d ds Hd Hds IH].
  - destruct r as [|c r]; [reflexivity|]. cbn [app take_digits]. cbn in Hr.
    apply is_digit_false_iff in Hr. rewrite Hr. reflexivity.
  - cbn [app take_digits]. apply is_digit_iff in Hd. rewrite Hd, IH. reflexivity.
Qed.

Lemma take_digits_spec s : forall d r, take_digits s = (d, r) -> s = d ++ r /\ all_digits d /\ nondigit_head r.
Proof.
  induction s as [|c s IH]; intros d r H; cbn [take_digits] in H.
  - injection H as <- <-. repeat split; constructor.
  - destruct (is_digit c) eqn:E.
    + destruct (take_digits s) as [d' r'] eqn:E'. injection H as <- <-.
      destruct (IH _ _ eq_refl) as (-> & Hd & Hr). repeat split; [|exact Hr].
      constructor; [apply is_digit_iff; exact E|exact Hd].
    + injection H as <- <-. repeat split; [constructor|]. cbn. apply is_digit_false_iff. exact E.
Qed.

Definition split_sign (s : str) : bool * str :=
  match s with
  | 43%N :: t => (false, t)
  | 45%N :: t => (true, t)
  | _ => (false, s)
  end.

Definition frac_split (r1 : str) : str * str :=
  match r1 with
  | 46%N :: t => take_digits t
  | _ => ([], r1)
  end.

Definition parse_float_core (s : str) : option f64 :=
  let '(ip, r1) := take_digits s in
  let '(fp, r2) := frac_split r1 in
  match ip ++ fp with
  | [] => None
  | ds =>
      match parse_exponent r2 with
      | Some e => Some (f_of_decimal (digits_val ds) (e - Z.of_nat (length fp)))
      | None => None
      end
  end.

Definition special_b (s : str) : bool :=
  let low := map lower_ascii s in
  str_eqb low (s2l "inf"%string) || str_eqb low (s2l "infinity"%string) || str_eqb low (s2l "nan"%string).

Lemma parse_float_unfold s :
  parse_float s =
  let low := map lower_ascii s in
  if str_eqb low (s2l "inf"%string) || str_eqb low (s2l "infinity"%string) then Some (f_inf false)
  else if str_eqb low (s2l "nan"%string) then Some f_nan
  else parse_float_core s.
Proof. reflexivity. Qed.

Lemma parse_float_nonspecial s : special_b s = false -> parse_float s = parse_float_core s.
Proof.
  unfold special_b. intros H. rewrite parse_float_unfold. cbv zeta.
  apply orb_false_elim in H. destruct H as [H1 H2]. rewrite H1, H2. reflexivity.
Qed.

Lemma parse_exponent_unfold s :
  parse_exponent s =
  match s with
  | [] => Some 0
  | c :: s' =>
      if ((c =? 101) || (c =? 69))%N then
        let '(neg, s'') := split_sign s' in
        let '(d, r) := take_digits s'' in
        match d, r with
        | _ :: _, [] => Some (if neg then Z.opp (digits_val d) else digits_val d)
        | _, _ => None
        end
      else None
  end.
Proof. destruct s; reflexivity. Qed.

(* deciding the constant patterns 43, 45, 46 of the code *)
Ltac case_const c k :=
  let p := fresh "p" in
  destruct (N.eq_dec c k) as [->|?];
  [|destruct c as [|p]; [|bits p]; try reflexivity; try congruence].

Lemma split_sign_other c t : c <> 43%N -> c <> 45%N -> split_sign (c :: t) = (false, c :: t).
Proof.
  intros H1 H2. unfold split_sign.
  destruct c as [|p]; [reflexivity|]. bits p; try reflexivity; congruence.
Qed.

Lemma split_sign_spec s neg s' : split_sign s = (neg, s') ->
  (s = 43%N :: s' /\ neg = false) \/ (s = 45%N :: s' /\ neg = true) \/
  (s = s' /\ neg = false /\ hd 0%N s <> 43%N /\ hd 0%N s <> 45%N).
Proof.
  destruct s as [|c t]; [intros [= <- <-]; right; right; cbn; repeat split; discriminate|].
  destruct (N.eq_dec c 43) as [->|H1]; [intros [= <- <-]; auto|].
  destruct (N.eq_dec c 45) as [->|H2]; [intros [= <- <-]; auto|].
  rewrite split_sign_other by assumption. intros [= <- <-]. right; right. auto.
Qed.

Lemma frac_split_other c t : c <> 46%N -> frac_split (c :: t) = ([], c :: t).
Proof.
  intros H. unfold frac_split.
  destruct c as [|p]; [reflexivity|]. bits p; try reflexivity; congruence.
Qed.

Lemma frac_split_spec r1 fp r2 : frac_split r1 = (fp, r2) ->
  (r1 = 46%N :: fp ++ r2 /\ all_digits fp /\ nondigit_head r2) \/
  (fp = [] /\ r2 = r1 /\ hd 0%N r1 <> 46%N).
Proof.
  destruct r1 as [|c t]; [intros [= <- <-]; right; cbn; repeat split; discriminate|].
  destruct (N.eq_dec c 46) as [->|H1].
  - cbn [frac_split]. intros H. destruct (take_digits_spec _ _ _ H) as (-> & Hd & Hr). left. auto.
  - rewrite frac_split_other by assumption. intros [= <- <-]. right. auto.
Qed.

(* ---- text -> value ---- *)

Definition exp_wf (e : exponent) : Prop := match e with NoExp => True | Exp _ _ ds => digits1 ds end.

Lemma digits1_head ds : digits1 ds -> exists d t, ds = d :: t /\ dec_digit d.
Proof.
  intros [Hne Hd]. destruct ds as [|d t]; [congruence|]. inversion Hd; subst. eauto.
Qed.

Lemma take_digits_all ds : all_digits ds -> take_digits ds = (ds, []).
Proof. intros H. rewrite <- (app_nil_r ds) at 1. apply take_digits_app; [exact H|exact I]. Qed.

Lemma parse_exponent_text e : exp_wf e -> parse_exponent (exp_text e) = Some (exp_val e).
Proof.
  destruct e as [|up sg ds]; [reflexivity|]. cbn [exp_wf exp_text]. intros Hds.
  destruct (digits1_head _ Hds) as (d & t & -> & Hd). destruct Hds as [_ Hall].
  rewrite parse_exponent_unfold.
  assert (E : (((if up then 69 else 101) =? 101) || ((if up then 69 else 101) =? 69))%N = true)
    by (destruct up; reflexivity).
  rewrite E. clear E.
  destruct sg; cbn [sign_text app].
  - rewrite split_sign_other by (unfold dec_digit in Hd; lia).
    rewrite take_digits_all by exact Hall. reflexivity.
  - cbn [split_sign]. rewrite take_digits_all by exact Hall. reflexivity.
  - cbn [split_sign]. rewrite take_digits_all by exact Hall. reflexivity.
Qed.

(* the tail of a float text after the integer digits *)
Definition exp_head (r : str) : Prop := r = [] \/ exists c t, r = c :: t /\ (c = 69%N \/ c = 101%N).

Lemma exp_head_nondigit r : exp_head r -> nondigit_head r.
Proof.
  intros [->|(c & t & -> & Hc)]; [exact I|]. cbn. unfold dec_digit. lia.
Qed.

Lemma exp_text_head e : exp_head (exp_text e).
Proof. destruct e as [|up sg ds]; [left; reflexivity|]. right. cbn [exp_text]. destruct up; eauto. Qed.


Lemma parse_float_core_shape ip frac r2 :
  all_digits ip -> all_digits (frac_digits frac) -> exp_head r2 ->
  parse_float_core (ip ++ frac_text frac ++ r2) =
  match ip ++ frac_digits frac with
  | [] => None
  | ds =>
      match parse_exponent r2 with
      | Some e => Some (f_of_decimal (digits_val ds) (e - Z.of_nat (length (frac_digits frac))))
      | None => None
      end
  end.
Proof.
  intros Hi Hf Hr. unfold parse_float_core.
  pose proof (exp_head_nondigit _ Hr) as Hnd.
  destruct frac as [fp|]; cbn [frac_text frac_digits] in *.
  - rewrite take_digits_app; [|exact Hi|cbn; unfold dec_digit; lia].
    cbn [app frac_split]. rewrite take_digits_app by assumption. reflexivity.
  - cbn [app]. rewrite take_digits_app by assumption.
    assert (E : frac_split r2 = ([], r2)).
    { destruct Hr as [->|(c & t & -> & Hc)]; [reflexivity|]. apply frac_split_other. lia. }
    rewrite E. reflexivity.
Qed.

(* a text that starts with a digit or a dot is none of the special words, nor a boolean *)
Lemma lower_ascii_low c : (c < 65)%N -> lower_ascii c = c.
Proof.
  intros H. unfold lower_ascii. replace (65 <=? c)%N with false by (symmetry; apply N.leb_gt; lia). reflexivity.
Qed.

Lemma special_b_head c s : (c < 65)%N -> special_b (c :: s) = false.
Proof.
  intros H. unfold special_b. cbn [map]. rewrite lower_ascii_low by exact H.
  change (s2l "inf"%string) with [105; 110; 102]%N.
  change (s2l "infinity"%string) with [105; 110; 102; 105; 110; 105; 116; 121]%N.
  change (s2l "nan"%string) with [110; 97; 110]%N.
  rewrite !str_eqb_head_neq by lia. reflexivity.
Qed.

Lemma parse_bool_head c s : (c < 65)%N -> parse_bool (c :: s) = None.
Proof.
  intros H. unfold parse_bool.
  change (s2l "true"%string) with [116; 114; 117; 101]%N.
  change (s2l "false"%string) with [102; 97; 108; 115; 101]%N.
  rewrite !str_eqb_head_neq by lia. reflexivity.
Qed.

Lemma float_head ip frac r2 : all_digits ip -> ip ++ frac_digits frac <> [] ->
  exists c t, ip ++ frac_text frac ++ r2 = c :: t /\ (c < 65)%N.
Proof.
  intros Hi Hne. destruct ip as [|d ip].
  - destruct frac as [fp|]; [|cbn in Hne; congruence]. cbn. eexists _, _. split; [reflexivity|lia].
  - inversion Hi as [|? ? Hd _]; subst. cbn. eexists _, _. split; [reflexivity|]. unfold dec_digit in Hd. lia.
Qed.

Lemma parse_float_shape ip frac r2 :
  all_digits ip -> all_digits (frac_digits frac) -> ip ++ frac_digits frac <> [] -> exp_head r2 ->
  parse_float (ip ++ frac_text frac ++ r2) =
  match parse_exponent r2 with
  | Some e => Some (f_of_decimal (digits_val (ip ++ frac_digits frac)) (e - Z.of_nat (length (frac_digits frac))))
  | None => None
  end.
Proof.
  intros Hi Hf Hne Hr.
  destruct (float_head ip frac r2 Hi Hne) as (c & t & E & Hc).
  rewrite parse_float_nonspecial by (rewrite E; apply special_b_head; exact Hc).
  rewrite parse_float_core_shape by assumption.
  destruct (ip ++ frac_digits frac) eqn:E'; [congruence|reflexivity].
Qed.

Lemma float_wf_exp fl : float_wf fl -> exp_wf (fl_exp fl).
Proof. intros (_ & _ & _ & H). exact H. Qed.

Lemma parse_float_text fl : float_wf fl -> parse_float (float_text fl) = Some (float_value fl).
Proof.
  intros Hwf. pose proof (float_wf_exp _ Hwf) as Hex.
  destruct fl as [ip frac ex]. destruct Hwf as (Hi & Hf & Hne & _).
  unfold float_text, float_value in *. cbn [fl_int fl_frac fl_exp] in *.
  rewrite parse_float_shape by (auto using exp_text_head).
  rewrite parse_exponent_text by exact Hex. reflexivity.
Qed.

(* ---- a float text as partial tokens, and as a token ---- *)

Definition float_char (c : N) : Prop := dec_digit c \/ c = 46%N \/ c = 69%N \/ c = 101%N.

Lemma float_char_word c : float_char c -> word_char c.
Proof. unfold float_char, dec_digit. intros H. apply word_char_alnum. lia. Qed.

Lemma frac_text_chars frac : all_digits (frac_digits frac) -> Forall float_char (frac_text frac).
Proof.
  destruct frac as [fp|]; cbn [frac_digits frac_text]; intros H; [|constructor].
  constructor; [unfold float_char; lia|]. eapply Forall_impl; [|exact H]. unfold float_char. tauto.
Qed.

Lemma digits_float_chars s : all_digits s -> Forall float_char s.
Proof. intros H. eapply Forall_impl; [|exact H]. unfold float_char. tauto. Qed.

Lemma no_x_second w : Forall (fun c => c <> 120%N) w -> nth 1 w 0%N <> 120%N.
Proof.
  intros H. destruct w as [|a [|b w]]; cbn [nth]; try discriminate.
  inversion H as [|? ? _ H']; subst. inversion H' as [|? ? Hb _]; subst. exact Hb.
Qed.

Lemma float_chars_no_x w : Forall float_char w -> Forall (fun c => c <> 120%N) w.
Proof. intros H. eapply Forall_impl; [|exact H]. unfold float_char, dec_digit. intros c Hc. lia. Qed.

(* the text up to and including the exponent letter *)
Lemma sci_coeff_chars fl : float_wf fl -> Forall float_char (sci_coeff fl).
Proof.
  intros (Hi & Hf & _ & _). unfold sci_coeff.
  apply Forall_app. split; [apply digits_float_chars; exact Hi|].
  apply Forall_app. split; [apply frac_text_chars; exact Hf|].
  destruct (fl_exp fl) as [|up sg ds]; [constructor|].
  constructor; [|constructor]. unfold float_char. destruct up; lia.
Qed.

Lemma float_wf_nonempty fl : float_wf fl -> fl_int fl ++ frac_text (fl_frac fl) <> [].
Proof.
  intros (_ & _ & Hne & _) H. apply Hne. apply app_eq_nil in H. destruct H as [-> H].
  destruct (fl_frac fl); [discriminate|reflexivity].
Qed.

Lemma sci_coeff_word fl : float_wf fl -> word (sci_coeff fl).
Proof.
  intros H. split.
  - unfold sci_coeff. intros E. apply (float_wf_nonempty fl H).
    rewrite app_assoc in E. apply app_eq_nil in E. tauto.
  - eapply Forall_impl; [|apply sci_coeff_chars; exact H]. apply float_char_word.
Qed.

(* a word with a non-digit character in it is not a decimal integer; without an x it is no integer at all *)
Lemma not_int_of_nondigit w c : Forall (fun c => c <> 120%N) w -> In c w -> ~ dec_digit c ->
  parse_dec_or_hex w = None.
Proof.
  intros Hx Hin Hc. rewrite parse_dec_or_hex_no_x by (apply no_x_second; exact Hx).
  apply parse_dec_nondigits. intros [_ Hd]. apply Hc. eapply Forall_forall; [exact Hd|exact Hin].
Qed.

Definition sign_char (neg : bool) : N := if neg then 45%N else 43%N.
Definition sign_ptoken (neg : bool) : ptoken := if neg then PMinus else PPlus.

Lemma lex_normal_sign acc neg : lex_normal acc (sign_char neg) = (LNormal, sign_ptoken neg :: acc).
Proof.
  destruct neg; unfold lex_normal; cbn; destruct acc as [|[] acc]; reflexivity.
Qed.

(* coefficient, sign, exponent digits: three partial tokens *)
Lemma lex_run_sci coeff neg ds acc : word coeff -> digits1 ds ->
  lex_run LNormal acc (coeff ++ sign_char neg :: ds) =
  Ok (LNormal, PLiteral ds :: sign_ptoken neg :: push_partial acc (PLiteral coeff)).
Proof.
  intros [Hne Hw] Hds. rewrite lex_run_app, lex_run_word by assumption. cbn [bind fst snd].
  cbn [lex_run lex_step]. rewrite lex_normal_sign. cbn [bind fst snd].
  destruct (digits1_word _ Hds) as [Hne' Hw']. rewrite lex_run_word by assumption.
  destruct neg; reflexivity.
Qed.

Lemma literal_join coeff neg ds v :
  parse_dec_or_hex coeff = None -> parse_float coeff = None -> parse_bool coeff = None ->
  parse_float (coeff ++ sign_char neg :: ds) = Some v ->
  literal_to_token coeff (Some (sign_ptoken neg)) (Some (PLiteral ds)) = (TFloat v, 3%nat).
Proof.
  intros H1 H2 H3 H4. unfold literal_to_token. rewrite H1, H2, H3.
  destruct neg; cbn [sign_ptoken sign_char] in *; rewrite H4; reflexivity.
Qed.

(* the pieces of a float literal with a signed exponent *)
Lemma signed_exp_inv fl : signed_exp fl ->
  exists up (neg : bool) ds, fl_exp fl = Exp up (if neg then SMinus else SPlus) ds.
Proof.
  unfold signed_exp. destruct (fl_exp fl) as [|up [] ds]; try contradiction; intros _.
  - exists up, false, ds. reflexivity.
  - exists up, true, ds. reflexivity.
Qed.

Lemma float_text_signed fl up (neg : bool) ds : fl_exp fl = Exp up (if neg then SMinus else SPlus) ds ->
  float_text fl = sci_coeff fl ++ sign_char neg :: ds.
Proof.
  intros E. unfold float_text, sci_coeff. rewrite E. cbn [exp_text].
  rewrite <- !app_assoc. f_equal. f_equal. destruct neg; reflexivity.
Qed.

(* the coefficient alone (ending in e) is not a number *)
Lemma sci_coeff_not_number fl up sg ds : float_wf fl -> fl_exp fl = Exp up sg ds ->
  parse_dec_or_hex (sci_coeff fl) = None /\ parse_float (sci_coeff fl) = None /\ parse_bool (sci_coeff fl) = None.
Proof.
  intros Hwf E. pose proof (sci_coeff_chars fl Hwf) as Hch.
  destruct Hwf as (Hi & Hf & Hne & _).
  repeat split.
  - apply (not_int_of_nondigit _ (if up then 69%N else 101%N)).
    + apply float_chars_no_x. exact Hch.
    + unfold sci_coeff. rewrite E. rewrite !in_app_iff. right. right. left. reflexivity.
    + unfold dec_digit. destruct up; lia.
  - unfold sci_coeff. rewrite E.
    rewrite parse_float_shape; auto.
    + rewrite parse_exponent_unfold.
      assert (E' : (((if up then 69 else 101) =? 101) || ((if up then 69 else 101) =? 69))%N = true)
        by (destruct up; reflexivity).
      rewrite E'. reflexivity.
    + right. destruct up; eauto.
  - destruct (float_head (fl_int fl) (fl_frac fl) [if up then 69%N else 101%N] Hi Hne) as (c & t & Ec & Hc).
    unfold sci_coeff. rewrite E, Ec. apply parse_bool_head. exact Hc.
Qed.

Lemma float_text_chars fl : float_wf fl -> ~ signed_exp fl -> Forall float_char (float_text fl).
Proof.
  intros (Hi & Hf & _ & Hex) Hns. unfold float_text.
  apply Forall_app. split; [apply digits_float_chars; exact Hi|].
  apply Forall_app. split; [apply frac_text_chars; exact Hf|].
  unfold signed_exp in Hns. destruct (fl_exp fl) as [|up sg ds]; [constructor|].
  destruct sg; try (exfalso; apply Hns; exact I).
  cbn [exp_text sign_text app]. constructor; [unfold float_char; destruct up; lia|].
  apply digits_float_chars. apply Hex.
Qed.

Lemma float_text_nonempty fl : float_wf fl -> float_text fl <> [].
Proof.
  intros H E. apply (float_wf_nonempty fl H). unfold float_text in E.
  rewrite app_assoc in E. apply app_eq_nil in E. tauto.
Qed.

Lemma float_text_has_nondigit fl : has_dot_or_exp fl -> exists c, In c (float_text fl) /\ ~ dec_digit c.
Proof.
  unfold has_dot_or_exp, float_text. intros [H|H].
  - destruct (fl_frac fl) as [fp|]; [|congruence]. exists 46%N. split; [|unfold dec_digit; lia].
    rewrite !in_app_iff. right. left. left. reflexivity.
  - destruct (fl_exp fl) as [|up sg ds]; [congruence|]. exists (if up then 69%N else 101%N).
    split; [|unfold dec_digit; destruct up; lia].
    rewrite !in_app_iff. right. right. left. reflexivity.
Qed.

Lemma ptt_sci coeff neg ds v :
  literal_to_token coeff (Some (sign_ptoken neg)) (Some (PLiteral ds)) = (TFloat v, 3%nat) ->
  forall rest, partial_tokens_to_tokens (PLiteral coeff :: sign_ptoken neg :: PLiteral ds :: rest) =
               bind (partial_tokens_to_tokens rest) (fun r => Ok (TFloat v :: r)).
Proof.
  intros H rest. rewrite ptt_cons. cbn [hd_error tl pstep]. rewrite H. reflexivity.
Qed.

(* C06_float *)
Lemma float_alone fl : float_wf fl -> has_dot_or_exp fl ->
  parse_float (float_text fl) = Some (float_value fl) /\
  tokenize (float_text fl) = Ok [TFloat (float_value fl)].
Proof.
  intros Hwf Hde. pose proof (parse_float_text fl Hwf) as Hpf. split; [exact Hpf|].
  destruct (fl_exp fl) as [|up sg ds] eqn:Eex.
  1: assert (Hns : ~ signed_exp fl) by (unfold signed_exp; rewrite Eex; tauto).
  2: destruct sg.
  2: assert (Hns : ~ signed_exp fl) by (unfold signed_exp; rewrite Eex; tauto).
  1,2: (pose proof (float_text_chars fl Hwf Hns) as Hch;
        rewrite tokenize_word by
          (split; [apply float_text_nonempty; exact Hwf|eapply Forall_impl; [|exact Hch]; apply float_char_word]);
        unfold word_token, literal_to_token;
        destruct (float_text_has_nondigit fl Hde) as (c & Hin & Hc);
        rewrite (not_int_of_nondigit _ c) by (auto using float_chars_no_x);
        rewrite Hpf; reflexivity).
  - (* e+ *)
    rewrite (float_text_signed fl up false ds Eex) in *.
    destruct (sci_coeff_not_number fl up SPlus ds Hwf Eex) as (N1 & N2 & N3).
    assert (Hds : digits1 ds) by (destruct Hwf as (_ & _ & _ & Hex); rewrite Eex in Hex; exact Hex).
    unfold tokenize, str_to_partial_tokens.
    rewrite (lex_run_ok_end _ _ _ _ _ (lex_run_sci _ false ds [] (sci_coeff_word fl Hwf) Hds)).
    cbn [lex_end push_partial rev app bind].
    rewrite (ptt_sci _ false ds _ (literal_join _ false ds _ N1 N2 N3 Hpf)). reflexivity.
  - (* e- *)
    rewrite (float_text_signed fl up true ds Eex) in *.
    destruct (sci_coeff_not_number fl up SMinus ds Hwf Eex) as (N1 & N2 & N3).
    assert (Hds : digits1 ds) by (destruct Hwf as (_ & _ & _ & Hex); rewrite Eex in Hex; exact Hex).
    unfold tokenize, str_to_partial_tokens.
    rewrite (lex_run_ok_end _ _ _ _ _ (lex_run_sci _ true ds [] (sci_coeff_word fl Hwf) Hds)).
    cbn [lex_end push_partial rev app bind].
    rewrite (ptt_sci _ true ds _ (literal_join _ true ds _ N1 N2 N3 Hpf)). reflexivity.
Qed.

(* ---- value -> text: whatever parse_float accepts is a special word or a float text ---- *)

Lemma parse_exponent_spec r e : parse_exponent r = Some e ->
  exists ex, r = exp_text ex /\ exp_wf ex /\ e = exp_val ex.
Proof.
  rewrite parse_exponent_unfold. destruct r as [|c s'].
  - intros [= <-]. exists NoExp. repeat split.
  - destruct ((c =? 101) || (c =? 69))%N eqn:Ec; [|discriminate].
    destruct (split_sign s') as [neg s''] eqn:Es. destruct (take_digits s'') as [d r] eqn:Et.
    destruct d as [|d0 d]; [discriminate|]. destruct r; [|discriminate]. intros [= <-].
    destruct (take_digits_spec _ _ _ Et) as (-> & Hd & _). rewrite app_nil_r in *.
    assert (Hup : exists up : bool, c = if up then 69%N else 101%N).
    { apply orb_prop in Ec. destruct Ec as [Ec|Ec]; apply N.eqb_eq in Ec; subst c; [exists false|exists true]; reflexivity. }
    destruct Hup as [up ->].
    assert (Hd1 : digits1 (d0 :: d)) by (split; [discriminate|exact Hd]).
    destruct (split_sign_spec _ _ _ Es) as [[-> ->]|[[-> ->]|(-> & -> & _)]].
    + exists (Exp up SPlus (d0 :: d)). split; [reflexivity|split; [exact Hd1|reflexivity]].
    + exists (Exp up SMinus (d0 :: d)). split; [reflexivity|split; [exact Hd1|reflexivity]].
    + exists (Exp up SNone (d0 :: d)). split; [reflexivity|split; [exact Hd1|reflexivity]].
Qed.

Lemma parse_float_core_spec s f : parse_float_core s = Some f ->
  exists fl, float_wf fl /\ s = float_text fl /\ f = float_value fl.
Proof.
  unfold parse_float_core.
  destruct (take_digits s) as [ip r1] eqn:E1. destruct (frac_split r1) as [fp r2] eqn:E2.
  destruct (ip ++ fp) as [|x l] eqn:E3; [discriminate|].
  destruct (parse_exponent r2) as [e|] eqn:E4; [|discriminate]. intros [= <-].
  destruct (take_digits_spec _ _ _ E1) as (-> & Hi & _).
  destruct (parse_exponent_spec _ _ E4) as (ex & Er2 & Hex & Ee). subst r2 e.
  destruct (frac_split_spec _ _ _ E2) as [(Er1 & Hf & _)|(Efp & Er1 & _)]; [subst r1|subst fp r1].
  - exists (FloatLit ip (Some fp) ex). unfold float_wf, float_text, float_value. cbn [fl_int fl_frac fl_exp frac_digits frac_text].
    rewrite E3. repeat split; try assumption; try discriminate.
    all: try (destruct ex; exact Hex); try (rewrite <- app_assoc; reflexivity).
  - exists (FloatLit ip None ex). unfold float_wf, float_text, float_value. cbn [fl_int fl_frac fl_exp frac_digits frac_text].
    rewrite E3. repeat split; try assumption; try discriminate.
    all: try (destruct ex; exact Hex); try constructor.
Qed.

Lemma parse_float_some s f : parse_float s = Some f ->
  special_float_word s \/ exists fl, float_wf fl /\ s = float_text fl /\ f = float_value fl.
Proof.
  rewrite parse_float_unfold. cbv zeta. unfold special_float_word.
  destruct (str_eqb (map lower_ascii s) (s2l "inf"%string)) eqn:E1;
    [apply str_eqb_eq in E1; auto|].
  destruct (str_eqb (map lower_ascii s) (s2l "infinity"%string)) eqn:E2;
    [apply str_eqb_eq in E2; auto|].
  destruct (str_eqb (map lower_ascii s) (s2l "nan"%string)) eqn:E3;
    [apply str_eqb_eq in E3; auto|].
  cbn [orb]. intros H. right. apply parse_float_core_spec. exact H.
Qed.

(* in the vocabulary of the property: special word, float form, or a digit string *)
Lemma parse_float_some_form s f : parse_float s = Some f ->
  special_float_word s \/ float_form s \/ digits1 s.
Proof.
  intros H. destruct (parse_float_some s f H) as [Hs|(fl & Hwf & -> & _)]; [auto|]. right.
  destruct (fl_frac fl) as [fp|] eqn:Ef.
  - left. exists fl. split; [exact Hwf|split; [left; congruence|reflexivity]].
  - destruct (fl_exp fl) as [|up sg ds] eqn:Ee.
    + right. unfold float_text. rewrite Ef, Ee. cbn [frac_text exp_text]. rewrite !app_nil_r.
      destruct Hwf as (Hi & _ & Hne & _). rewrite Ef in Hne. cbn [frac_digits] in Hne. rewrite app_nil_r in Hne.
      split; assumption.
    + left. exists fl. split; [exact Hwf|split; [right; congruence|reflexivity]].
Qed.

(* a pure digit string beyond the i64 range is NOT an Int token: it falls to the float parser *)
Lemma dec_overflow w : digits1 w -> i64_max < digits_val w ->
  tokenize w = Ok [TFloat (f_of_decimal (digits_val w) 0)].
Proof.
  intros Hd Hgt. rewrite tokenize_word by (apply digits1_word; exact Hd).
  unfold word_token, literal_to_token. destruct Hd as [Hne Hd].
  rewrite parse_dec_or_hex_no_x by (apply digits_second_not_x; exact Hd).
  rewrite parse_dec_overflow by assumption.
  pose proof (parse_float_text (FloatLit w None NoExp)) as Hpf.
  unfold float_wf, float_text, float_value in Hpf. cbn [fl_int fl_frac fl_exp frac_digits frac_text exp_text exp_val length] in Hpf.
  rewrite !app_nil_r in Hpf. rewrite Hpf; [reflexivity|].
  repeat split; try assumption. constructor.
Qed.

(* ========================================================================================== *)
(** * 4. Booleans and identifiers *)

Lemma bool_alone :
  tokenize (s2l "true"%string) = Ok [TBoolean true] /\ tokenize (s2l "false"%string) = Ok [TBoolean false].
Proof. split; vm_compute; reflexivity. Qed.

Lemma parse_bool_some w b : parse_bool w = Some b -> bool_word w.
Proof.
  unfold parse_bool, bool_word.
  destruct (str_eqb w (s2l "true"%string)) eqn:E1; [apply str_eqb_eq in E1; auto|].
  destruct (str_eqb w (s2l "false"%string)) eqn:E2; [apply str_eqb_eq in E2; auto|]. discriminate.
Qed.

Lemma hex_val_some c d : hex_val c = Some d -> hex_digit c.
Proof.
  unfold hex_val, hex_digit, is_digit.
  destruct ((48 <=? c) && (c <=? 57))%N eqn:E1; [apply andb_prop in E1; rewrite !N.leb_le in E1; lia|].
  destruct ((97 <=? c) && (c <=? 102))%N eqn:E2; [apply andb_prop in E2; rewrite !N.leb_le in E2; lia|].
  destruct ((65 <=? c) && (c <=? 70))%N eqn:E3; [apply andb_prop in E3; rewrite !N.leb_le in E3; lia|].
  discriminate.
Qed.

Lemma hex_digits_some s : forall a v, hex_digits a s = Some v -> Forall hex_digit s.
Proof.
  induction s as [|c s IH]; intros a v H; [constructor|].
  cbn [hex_digits] in H. destruct (hex_val c) as [d|] eqn:E; [|discriminate].
  constructor; [eapply hex_val_some; exact E|eapply IH; exact H].
Qed.

Lemma parse_dec_some w z : parse_dec w = Some z -> digits1 w.
Proof.
  unfold parse_dec. destruct w as [|c w]; [discriminate|].
  destruct (dec_digits 0 (c :: w)) as [v|] eqn:E; [|discriminate]. intros _.
  split; [discriminate|]. eapply dec_digits_some. exact E.
Qed.

Lemma parse_dec_or_hex_no_0 w : hd 0%N w <> 48%N -> parse_dec_or_hex w = parse_dec w.
Proof.
  intros H. unfold parse_dec_or_hex. destruct w as [|a w]; [reflexivity|]. cbn [hd] in H.
  destruct a as [|p]; [reflexivity|]. bits p; try reflexivity; congruence.
Qed.

Lemma parse_dec_or_hex_some w z : parse_dec_or_hex w = Some z -> int_form w.
Proof.
  intros H. unfold int_form.
  destruct (N.eq_dec (hd 0%N w) 48) as [E0|E0]; [destruct (N.eq_dec (nth 1 w 0%N) 120) as [Ex|Ex]|].
  - destruct w as [|a [|b h]]; cbn [hd nth] in *; try discriminate. subst a b. right.
    cbn [parse_dec_or_hex] in H. unfold parse_hex in H.
    destruct h as [|c h]; [discriminate|].
    destruct (hex_digits 0 (c :: h)) as [v|] eqn:E; [|discriminate].
    exists (c :: h). repeat split; [discriminate|]. eapply hex_digits_some. exact E.
  - rewrite parse_dec_or_hex_no_x in H by exact Ex. left. eapply parse_dec_some. exact H.
  - rewrite parse_dec_or_hex_no_0 in H by exact E0. left. eapply parse_dec_some. exact H.
Qed.

(* a literal that is no number and no boolean is an identifier, unless the next two partial tokens
   complete it to a scientific literal *)
Lemma literal_ident w second third :
  parse_dec_or_hex w = None -> parse_float w = None -> parse_bool w = None ->
  (forall neg t, second = Some (sign_ptoken neg) -> third = Some (PLiteral t) ->
                 parse_float (w ++ sign_char neg :: t) = None) ->
  literal_to_token w second third = (TIdentifier w, 1%nat).
Proof.
  intros H1 H2 H3 H4. unfold literal_to_token. rewrite H1, H2, H3.
  destruct second as [[tk2|lit2| | | | | | | | | | | | | ]|]; try reflexivity;
    destruct third as [[tk3|lit3| | | | | | | | | | | | | ]|]; try reflexivity.
  - pose proof (H4 false lit3 eq_refl eq_refl) as E. cbn [sign_char] in E. rewrite E. reflexivity.
  - pose proof (H4 true lit3 eq_refl eq_refl) as E. cbn [sign_char] in E. rewrite E. reflexivity.
Qed.

Lemma ident_outside_known w :
  word w -> parse_dec_or_hex w = None -> parse_float w = None -> parse_bool w = None ->
  tokenize w = Ok [TIdentifier w].
Proof.
  intros Hw H1 H2 H3. rewrite tokenize_word by exact Hw. unfold word_token.
  rewrite literal_ident; auto. intros neg t H. discriminate H.
Qed.

Lemma not_forms_not_parsed w :
  ~ int_form w -> ~ float_form w -> ~ bool_word w -> ~ special_float_word w ->
  parse_dec_or_hex w = None /\ parse_float w = None /\ parse_bool w = None.
Proof.
  intros Hi Hf Hb Hs. repeat split.
  - destruct (parse_dec_or_hex w) as [z|] eqn:E; [|reflexivity]. exfalso. apply Hi. eapply parse_dec_or_hex_some. exact E.
  - destruct (parse_float w) as [f|] eqn:E; [|reflexivity]. exfalso.
    destruct (parse_float_some_form w f E) as [H|[H|H]]; [apply Hs; exact H|apply Hf; exact H|].
    apply Hi. left. exact H.
  - destruct (parse_bool w) as [b|] eqn:E; [|reflexivity]. exfalso. apply Hb. eapply parse_bool_some. exact E.
Qed.

Lemma ident_syntactic w :
  word w -> ~ int_form w -> ~ float_form w -> ~ bool_word w -> ~ special_float_word w ->
  tokenize w = Ok [TIdentifier w].
Proof.
  intros Hw Hi Hf Hb Hs. destruct (not_forms_not_parsed w Hi Hf Hb Hs) as (H1 & H2 & H3).
  apply ident_outside_known; assumption.
Qed.

(* ---- the known finding: inf / infinity / nan in any letter case are Float tokens ---- *)

Lemma float_form_head w : float_form w -> exists c t, w = c :: t /\ (c < 65)%N.
Proof.
  intros (fl & (Hi & _ & Hne & _) & _ & ->). unfold float_text. apply float_head; assumption.
Qed.

Lemma int_form_head w : int_form w -> exists c t, w = c :: t /\ (c < 65)%N.
Proof.
  intros [[Hne Hd]|(h & -> & _)].
  - destruct w as [|c t]; [congruence|]. inversion Hd as [|? ? Hc _]; subst. unfold dec_digit in Hc.
    eexists _, _. split; [reflexivity|lia].
  - eexists _, _. split; [reflexivity|lia].
Qed.

Lemma letter_word_not_numeric c t : (65 <= c)%N -> ~ int_form (c :: t) /\ ~ float_form (c :: t).
Proof.
  intros Hc. split; intros H.
  - destruct (int_form_head _ H) as (c' & t' & [= <- <-] & Hlt). lia.
  - destruct (float_form_head _ H) as (c' & t' & [= <- <-] & Hlt). lia.
Qed.

Lemma special_words_are_floats w : special_float_word w -> exists f, parse_float w = Some f.
Proof.
  unfold special_float_word. intros H. rewrite parse_float_unfold. cbv zeta.
  destruct H as [H|[H|H]]; rewrite H.
  - exists (f_inf false). reflexivity.
  - exists (f_inf false). reflexivity.
  - exists f_nan. reflexivity.
Qed.

Lemma refuted_special_words :
  exists w f, word w /\ ~ int_form w /\ ~ float_form w /\ ~ bool_word w /\ special_float_word w /\
              tokenize w = Ok [TFloat f].
Proof.
  exists (s2l "inf"%string), (f_inf false).
  assert (Hw : word (s2l "inf"%string)).
  { split; [discriminate|]. repeat constructor; apply word_char_alnum; cbn; lia. }
  destruct (letter_word_not_numeric 105 (s2l "nf"%string)) as [Hi Hf]; [lia|].
  split; [exact Hw|]. split; [exact Hi|]. split; [exact Hf|].
  split; [intros [H|H]; discriminate H|]. split; [left; reflexivity|].
  vm_compute. reflexivity.
Qed.

(* ========================================================================================== *)
(** * 5. The same facts with the position in the input expressed by the lexer's continuation
      (`forall s, lex LNormal [] (pre ++ s) = lex st acc s`: after pre the lexer is in state st with acc) *)

Definition reaches (pre : str) (st : lstate) (acc : list ptoken) : Prop :=
  forall s, lex LNormal [] (pre ++ s) = lex st acc s.

Lemma run_reaches pre st acc : lex_run LNormal [] pre = Ok (st, acc) -> reaches pre st acc.
Proof. intros H s. apply lex_app_ok. exact H. Qed.

Lemma string_in_k pre post t acc :
  (forall s, lex LNormal [] (pre ++ s) = lex LNormal acc s) ->
  str_to_partial_tokens (pre ++ quote t ++ post) = lex LNormal (PToken (TString t) :: acc) post.
Proof.
  intros H. unfold str_to_partial_tokens. rewrite H.
  apply (lex_app_ok _ _ _ _ _ _ (lex_run_quote t acc)).
Qed.

Lemma bad_escape_k pre text acc c post :
  (forall s, lex LNormal [] (pre ++ s) = lex (LString text) acc s) -> c <> 34%N -> c <> 92%N ->
  tokenize (pre ++ 92%N :: c :: post) = Err (EIllegalEscapeSequence [92%N; c]).
Proof.
  intros H H1 H2. unfold tokenize, str_to_partial_tokens. rewrite H.
  rewrite lex_cons. cbn [lex_step]. ceval. cbn [bind fst snd].
  rewrite lex_cons. cbn [lex_step]. unfold QUOTE, BACKSLASH.
  apply N.eqb_neq in H1, H2. rewrite H1, H2. reflexivity.
Qed.

Lemma bad_escape_eof_k pre text acc :
  (forall s, lex LNormal [] (pre ++ s) = lex (LString text) acc s) ->
  tokenize (pre ++ [92%N]) = Err (EIllegalEscapeSequence [92%N]).
Proof. intros H. unfold tokenize, str_to_partial_tokens. rewrite H. reflexivity. Qed.

Lemma unmatched_quote_k pre text acc :
  (forall s, lex LNormal [] (pre ++ s) = lex (LString text) acc s) ->
  tokenize pre = Err EUnmatchedDoubleQuote.
Proof.
  intros H. unfold tokenize, str_to_partial_tokens. rewrite <- (app_nil_r pre), H. reflexivity.
Qed.

(* after an opening quote and any escaped text the lexer IS inside a string *)
Lemma inside_string_k pre acc t :
  (forall s, lex LNormal [] (pre ++ s) = lex LNormal acc s) ->
  forall s, lex LNormal [] ((pre ++ 34%N :: escape t) ++ s) = lex (LString (rev t)) acc s.
Proof.
  intros H s. rewrite <- app_assoc, H. cbn [app]. rewrite lex_cons. cbn [lex_step].
  rewrite lex_normal_quote. cbn [bind fst snd].
  rewrite (lex_app_ok _ _ _ _ _ _ (lex_run_escape t [] acc)), app_nil_r. reflexivity.
Qed.

Lemma bad_escape_direct t c post : c <> 34%N -> c <> 92%N ->
  tokenize (34%N :: escape t ++ 92%N :: c :: post) = Err (EIllegalEscapeSequence [92%N; c]).
Proof.
  intros H1 H2.
  apply (bad_escape_k ([] ++ 34%N :: escape t) (rev t) [] c post); [|exact H1|exact H2].
  apply inside_string_k. intros s. reflexivity.
Qed.

Lemma unmatched_quote_direct t : tokenize (34%N :: escape t) = Err EUnmatchedDoubleQuote.
Proof.
  apply (unmatched_quote_k ([] ++ 34%N :: escape t) (rev t) []).
  apply inside_string_k. intros s. reflexivity.
Qed.

(* ---- the string literal between two token sequences ---- *)

(* the accumulator below a non-literal top is never looked at *)
Lemma push_partial_base acc base p : top_lit base = false ->
  push_partial (acc ++ base) p = push_partial acc p ++ base.
Proof.
  intros Hb. destruct acc as [|x acc]; cbn [app].
  - destruct base as [|[] base], p; try reflexivity; discriminate.
  - destruct x, p; reflexivity.
Qed.

Definition on_base (base : list ptoken) (p : lstate * list ptoken) : lstate * list ptoken :=
  (fst p, snd p ++ base).

Lemma lex_normal_base acc base c : top_lit base = false ->
  lex_normal (acc ++ base) c = on_base base (lex_normal acc c).
Proof.
  intros Hb. unfold lex_normal, on_base. destruct (c =? QUOTE)%N; [reflexivity|].
  destruct (char_to_partial_token c); cbn [fst snd]; rewrite ?push_partial_base by exact Hb; reflexivity.
Qed.

Lemma lex_step_base st acc base c : top_lit base = false ->
  lex_step st (acc ++ base) c =
  match lex_step st acc c with Ok p => Ok (on_base base p) | Err e => Err e | Panic n => Panic n end.
Proof.
  intros Hb. destruct st; cbn [lex_step].
  - rewrite lex_normal_base by exact Hb. reflexivity.
  - destruct (c =? SLASH)%N; [reflexivity|]. destruct (c =? STAR)%N; [reflexivity|].
    rewrite push_partial_base, lex_normal_base by exact Hb. reflexivity.
  - destruct (c =? QUOTE)%N; [reflexivity|]. destruct (c =? BACKSLASH)%N; reflexivity.
  - destruct (c =? QUOTE)%N; [reflexivity|]. destruct (c =? BACKSLASH)%N; reflexivity.
  - destruct (c =? NEWLINE)%N; reflexivity.
  - destruct (star && (c =? SLASH)%N); reflexivity.
Qed.

Lemma lex_base s : forall st acc base, top_lit base = false ->
  lex st (acc ++ base) s = bind (lex st acc s) (fun ps => Ok (rev base ++ ps)).
Proof.
  induction s as [|c s IH]; intros st acc base Hb.
  - rewrite !lex_nil. destruct st; cbn [lex_end bind]; try reflexivity.
    + rewrite rev_app_distr. reflexivity.
    + rewrite push_partial_base by exact Hb. rewrite rev_app_distr. reflexivity.
    + rewrite rev_app_distr. reflexivity.
  - rewrite !lex_cons, lex_step_base by exact Hb.
    destruct (lex_step st acc c) as [[st' acc']|e|n]; cbn [bind on_base fst snd]; [|reflexivity|reflexivity].
    apply IH. exact Hb.
Qed.

(* a finished token in the partial-token list separates what is before from what is after *)
Lemma pstep_before_token first second third ts k t :
  pstep first second third = PS_emit ts k ->
  (second = None -> forall x, pstep first (Some (PToken t)) x = PS_emit ts k) /\
  (third = None -> pstep first second (Some (PToken t)) = PS_emit ts k).
Proof.
  intros H. split.
  - intros -> x. destruct first; cbn [pstep pstep_simple pstep_double is_PEq] in *; try exact H; try discriminate H.
  - intros ->. destruct first; cbn [pstep pstep_simple pstep_double is_PEq] in *; try exact H.
Qed.

Lemma ptt_split_at_token ps1 : forall ts1 t ps2, partial_tokens_to_tokens ps1 = Ok ts1 ->
  partial_tokens_to_tokens (ps1 ++ PToken t :: ps2) =
  bind (partial_tokens_to_tokens ps2) (fun ts2 => Ok (ts1 ++ t :: ts2)).
Proof.
  induction ps1 as [ps1 IH] using list_len_ind. intros ts1 t ps2 H.
  destruct ps1 as [|x rest].
  - injection H as <-. reflexivity.
  - rewrite ptt_cons in H. cbn [app]. rewrite ptt_cons.
    destruct (pstep x (hd_error rest) (hd_error (tl rest))) as [ts k|e] eqn:E; [|discriminate H].
    pose proof (pstep_drop_ok _ _ _ _ E) as Hk.
    destruct (pstep_before_token _ _ _ _ _ t E) as [P1 P2].
    assert (E' : pstep x (hd_error (rest ++ PToken t :: ps2)) (hd_error (tl (rest ++ PToken t :: ps2))) = PS_emit ts k).
    { destruct rest as [|y [|z rest']]; cbn [app hd_error tl] in *; auto. }
    rewrite E'.
    destruct (partial_tokens_to_tokens (skipn k rest)) as [tsr|e|n] eqn:Er; try discriminate H.
    cbn [bind] in H. injection H as <-.
    assert (Es : skipn k (rest ++ PToken t :: ps2) = skipn k rest ++ PToken t :: ps2).
    { rewrite skipn_app. replace (k - length rest)%nat with 0%nat by lia. reflexivity. }
    rewrite Es, (IH (skipn k rest)) with (ts1 := tsr); [| |exact Er].
    + destruct (partial_tokens_to_tokens ps2); cbn [bind]; try reflexivity. rewrite <- app_assoc. reflexivity.
    + cbn [length]. pose proof (skipn_length_le k rest). lia.
Qed.

(* C06_string_in, on tokens: the tokens before, the String token, the tokens after *)
Lemma string_between pre post t acc ts1 :
  (forall s, lex LNormal [] (pre ++ s) = lex LNormal acc s) -> tokenize pre = Ok ts1 ->
  tokenize (pre ++ quote t ++ post) = bind (tokenize post) (fun ts2 => Ok (ts1 ++ TString t :: ts2)).
Proof.
  intros Hk Hpre. unfold tokenize in *. rewrite (string_in_k pre post t acc Hk).
  unfold str_to_partial_tokens in *.
  rewrite <- (app_nil_r pre), Hk, lex_nil in Hpre. cbn [lex_end bind] in Hpre.
  change (PToken (TString t) :: acc) with ([] ++ PToken (TString t) :: acc).
  rewrite lex_base by reflexivity.
  destruct (lex LNormal [] post) as [ps|e|n]; cbn [bind]; try reflexivity.
  cbn [rev]. rewrite <- app_assoc. cbn [app]. apply ptt_split_at_token. exact Hpre.
Qed.
