(* C05: tuples and chains.  The tree part is the level machinery of Proofs/C02.v (sections 5 and 7);
   this file adds the stack shapes of a level and the evaluation equations of Chain / Tuple / RootNode. *)
From Coq Require Import Floats.SpecFloat.
Require Import Model.Base Model.Syntax Model.F64 Model.Lexer Model.Value Model.Context Model.Builder Model.Eval.
Require Import Spec.OpTable Spec.Grammar Proofs.TableFacts Proofs.C02.

(* ---------------------------------------------------------------------------------------------- *)
(* 1. The tree                                                                                     *)
(* ---------------------------------------------------------------------------------------------- *)

(* one parenthesis level on top of ANY stack `tail`: the tokens of the sequence take the fresh level root to
   level_end, which collapse_all_sequences (at `)` or at the end of the input) closes into the reference
   RootNode of the sequence, leaving the stack below untouched *)
Lemma level_tree (tail : list node) (s : seq) (k : list token) : ok_seq s -> follow_ok k ->
  (exists lr', build_loop (flatten_seq s ++ k) (root_node :: tail) false = build_loop k (level_end tail s) lr')
  /\ collapse_all_sequences (level_end tail s) = Ok (tree_of_seq_top s :: tail).
Proof.
  intros Hok Hk. split.
  - apply level_parse; [apply all_elems_parse|exact Hok|exact Hk].
  - apply collapse_level. exact Hok.
Qed.

(* the root_stack invariant: the four shapes of a level (top at the head), X being the root of the element
   being parsed *)
Inductive level_shape (tail : list node) : list node -> Prop :=
| shape_root X : nop X = ORootNode -> level_shape tail (X :: tail)
| shape_tuple all X : nop X = ORootNode -> level_shape tail (Node OTuple (all ++ [X]) :: root_node :: tail)
| shape_chain its X : nop X = ORootNode -> level_shape tail (Node OChain (its ++ [X]) :: root_node :: tail)
| shape_tuple_chain its all X : nop X = ORootNode -> its <> [] ->
    level_shape tail (Node OTuple (all ++ [X]) :: Node OChain its :: root_node :: tail).

Lemma elem_root_op el : nop (elem_root el) = ORootNode. Proof. reflexivity. Qed.

Lemma item_state_shape tail its (t : tuple) : t <> [] -> level_shape tail (item_state tail its t).
Proof.
  intros Ht. destruct t as [|el [|el2 rest]]; [congruence| |].
  - destruct its as [|i its]; cbn [item_state item_cur item_tail put].
    + apply shape_root. reflexivity.
    + apply shape_chain. reflexivity.
  - cbn [item_state].
    destruct (@exists_last _ (el :: el2 :: rest) ltac:(discriminate)) as (t' & x & E). rewrite E, map_app. cbn [map].
    destruct its as [|i its]; cbn [tuple_below].
    + apply shape_tuple. reflexivity.
    + apply shape_tuple_chain; [reflexivity|discriminate].
Qed.

Lemma chain_end_shape tail : forall ts its (t : tuple), t <> [] -> forallb tuple_ok ts = true ->
  level_shape tail (chain_end tail its t ts).
Proof.
  induction ts as [|t' ts IH]; intros its t Ht Hok; cbn [chain_end].
  - apply item_state_shape. exact Ht.
  - cbn [forallb] in Hok. apply andb_prop in Hok. destruct Hok as [Hok1 Hok2].
    apply IH; [destruct t'; discriminate|exact Hok2].
Qed.

Lemma level_end_shape tail (s : seq) : ok_seq s -> level_shape tail (level_end tail s).
Proof.
  unfold ok_seq. rewrite ok_seq_eq. intros Hok. destruct s as [|t ts]; [discriminate|].
  cbn [nonempty forallb andb level_end] in *. apply andb_prop in Hok. destruct Hok as [Hok1 Hok2].
  apply chain_end_shape; [destruct t; discriminate|exact Hok2].
Qed.

(* `a, b; c, d` in general: a chain of two tuples *)
Lemma tuple_binds_tighter (a b c d : elem) : ok_seq [[a; b]; [c; d]] ->
  tokens_to_operator_tree (flatten_elem a ++ TComma :: flatten_elem b ++ TSemicolon :: flatten_elem c ++ TComma :: flatten_elem d)
  = Ok (Node ORootNode [Node OChain [Node OTuple [elem_root a; elem_root b]; Node OTuple [elem_root c; elem_root d]]]).
Proof.
  intros Hok. transitivity (tokens_to_operator_tree (flatten_seq [[a; b]; [c; d]])); [|exact (seq_parse _ Hok)].
  f_equal. unfold flatten_seq. rewrite flatten_seq_eq. unfold flatten_tuple. cbn [map join flat_map app].
  rewrite !app_nil_r. repeat (rewrite <- app_assoc; cbn [app]). reflexivity.
Qed.

(* the general shape: with at least one `;` the tree is a Chain of the items, an item with at least one `,`
   being a Tuple of its elements -- never a Tuple containing a Chain *)
Lemma chain_of_tuples (t1 t2 : tuple) (rest : list tuple) : ok_seq (t1 :: t2 :: rest) ->
  tokens_to_operator_tree (flatten_seq (t1 :: t2 :: rest)) =
  Ok (Node ORootNode [Node OChain (map item_tree (t1 :: t2 :: rest))])
  /\ forall (e1 e2 : elem) (more : list elem),
       item_tree (e1 :: e2 :: more) = Node OTuple (map elem_root (e1 :: e2 :: more)).
Proof. intros Hok. split; [apply (seq_parse _ Hok)|reflexivity]. Qed.

(* ---------------------------------------------------------------------------------------------- *)
(* 2. The value                                                                                    *)
(* ---------------------------------------------------------------------------------------------- *)

Section WithOracle.
Variable O : std_oracle.

(* Node::eval_with_context_mut: the children in order, then the operator *)
Lemma eval_mut_node o ch c lg :
  eval_mut O (Node o ch) c lg =
  match eval_in_order O ch c lg with
  | (Ok vs, c1, lg1) => op_eval_mut O o vs c1 lg1
  | (Err e, c1, lg1) => (Err e, c1, lg1)
  | (Panic s, c1, lg1) => (Panic s, c1, lg1)
  end.
Proof. reflexivity. Qed.

Lemma eval_in_order_length : forall l c lg vs c1 lg1,
  eval_in_order O l c lg = (Ok vs, c1, lg1) -> length vs = length l.
Proof.
  induction l as [|x l IH]; intros c lg vs c1 lg1 H; cbn [eval_in_order] in H.
  - inversion H. reflexivity.
  - destruct (eval_mut O x c lg) as [[[v|e|p] c2] lg2]; try discriminate.
    destruct (eval_in_order O l c2 lg2) as [[[ws|e|p] c3] lg3] eqn:E; try discriminate.
    inversion H; subst. cbn [length]. f_equal. eapply IH. exact E.
Qed.

(* all earlier elements' effects are applied: the context and log after a prefix are those the rest starts from *)
Lemma eval_in_order_app : forall a b c lg,
  eval_in_order O (a ++ b) c lg =
  match eval_in_order O a c lg with
  | (Ok vs, c1, lg1) =>
      match eval_in_order O b c1 lg1 with
      | (Ok ws, c2, lg2) => (Ok (vs ++ ws), c2, lg2)
      | r => r
      end
  | r => r
  end.
Proof.
  induction a as [|x a IH]; intros b c lg; cbn [app eval_in_order].
  - destruct (eval_in_order O b c lg) as [[[ws|e|p] c2] lg2]; reflexivity.
  - destruct (eval_mut O x c lg) as [[[v|e|p] c1] lg1]; try reflexivity.
    rewrite IH. destruct (eval_in_order O a c1 lg1) as [[[vs|e|p] c2] lg2]; try reflexivity.
    destruct (eval_in_order O b c2 lg2) as [[[ws|e|p] c3] lg3]; reflexivity.
Qed.

Lemma last_opt_last (vs : list value) : vs <> [] -> last_opt vs = Some (last vs VEmpty).
Proof.
  induction vs as [|v vs IH]; [congruence|]. intros _. destruct vs as [|w vs]; [reflexivity|].
  cbn [last_opt last] in *. apply IH. discriminate.
Qed.

(* a Chain evaluates all its elements in order and yields the last one's value *)
Lemma chain_value ch c lg vs c1 lg1 : ch <> [] ->
  eval_in_order O ch c lg = (Ok vs, c1, lg1) ->
  eval_mut O (Node OChain ch) c lg = (Ok (last vs VEmpty), c1, lg1).
Proof.
  intros Hne H. rewrite eval_mut_node, H. cbn [op_eval_mut op_eval].
  rewrite last_opt_last; [reflexivity|].
  intros ->. apply eval_in_order_length in H. destruct ch; [congruence|discriminate].
Qed.

(* a Tuple yields the tuple of all its elements' values *)
Lemma tuple_value ch c lg vs c1 lg1 :
  eval_in_order O ch c lg = (Ok vs, c1, lg1) ->
  eval_mut O (Node OTuple ch) c lg = (Ok (VTuple vs), c1, lg1).
Proof. intros H. rewrite eval_mut_node, H. reflexivity. Qed.

(* the first failing element decides, with the context and log it left; later elements are not evaluated *)
Lemma seq_error o ch c lg e c1 lg1 :
  eval_in_order O ch c lg = (Err e, c1, lg1) -> eval_mut O (Node o ch) c lg = (Err e, c1, lg1).
Proof. intros H. rewrite eval_mut_node, H. reflexivity. Qed.

Lemma eval_in_order_first_error a x b c lg vs c1 lg1 e c2 lg2 :
  eval_in_order O a c lg = (Ok vs, c1, lg1) -> eval_mut O x c1 lg1 = (Err e, c2, lg2) ->
  eval_in_order O (a ++ x :: b) c lg = (Err e, c2, lg2).
Proof. intros Ha Hx. rewrite eval_in_order_app, Ha. cbn [eval_in_order]. rewrite Hx. reflexivity. Qed.

(* an absent element, `()` : the empty value, nothing changes *)
Lemma empty_root_value c lg : eval_mut O (Node ORootNode []) c lg = (Ok VEmpty, c, lg).
Proof. reflexivity. Qed.

(* an element root / a pair of parentheses around one thing is transparent *)
Lemma single_root_value n c lg : eval_mut O (Node ORootNode [n]) c lg = eval_mut O n c lg.
Proof.
  rewrite eval_mut_node. cbn [eval_in_order].
  destruct (eval_mut O n c lg) as [[[v|e|p] c1] lg1]; reflexivity.
Qed.

(* a chain ending in `;` : all elements are evaluated, the value is the empty value *)
Lemma trailing_semicolon_value init c lg vs c1 lg1 :
  eval_in_order O init c lg = (Ok vs, c1, lg1) ->
  eval_mut O (Node OChain (init ++ [Node ORootNode []])) c lg = (Ok VEmpty, c1, lg1).
Proof.
  intros H.
  assert (E : eval_in_order O (init ++ [Node ORootNode []]) c lg = (Ok (vs ++ [VEmpty]), c1, lg1)).
  { rewrite eval_in_order_app, H. reflexivity. }
  rewrite (chain_value (init ++ [Node ORootNode []]) c lg (vs ++ [VEmpty]) c1 lg1);
    [rewrite last_last; reflexivity|destruct init; discriminate|exact E].
Qed.

(* the same at the level of the grammar: the reference tree of `t1 ; ... ; tn ;` *)
Lemma trailing_semicolon_seq (s : seq) c lg vs c1 lg1 : s <> [] ->
  eval_in_order O (map item_tree s) c lg = (Ok vs, c1, lg1) ->
  eval_mut O (tree_of_seq_top (s ++ [[None]])) c lg = (Ok VEmpty, c1, lg1).
Proof.
  intros Hne H. unfold tree_of_seq_top.
  assert (E : seq_children_with tree_of (s ++ [[None]]) = [Node OChain (map item_tree s ++ [Node ORootNode []])]).
  { destruct s as [|t [|t2 s]]; [congruence|reflexivity|].
    cbn [app seq_children_with]. fold item_tree. cbn [map]. rewrite map_app. reflexivity. }
  rewrite E, single_root_value. apply (trailing_semicolon_value _ c lg vs). exact H.
Qed.

(* the value of a whole sequence with at least one `;` is the value of its Chain *)
Lemma chain_seq_value (t1 t2 : tuple) (rest : list tuple) c lg :
  eval_mut O (tree_of_seq_top (t1 :: t2 :: rest)) c lg =
  eval_mut O (Node OChain (map item_tree (t1 :: t2 :: rest))) c lg.
Proof. unfold tree_of_seq_top. cbn [seq_children_with]. apply single_root_value. Qed.

End WithOracle.

(* restatements used by Props/C05.v *)
Lemma first_error_decides (O : std_oracle) (o : operator) (a : list node) (x : node) (b : list node)
    (c : ctx) (lg : log) (vs : list value) (c1 : ctx) (lg1 : log) (e : error) (c2 : ctx) (lg2 : log) :
  eval_in_order O a c lg = (Ok vs, c1, lg1) -> eval_mut O x c1 lg1 = (Err e, c2, lg2) ->
  eval_mut O (Node o (a ++ x :: b)) c lg = (Err e, c2, lg2).
Proof. intros Ha Hx. apply seq_error. eapply eval_in_order_first_error; eassumption. Qed.

Lemma absent_is_empty (O : std_oracle) (c : ctx) (lg : log) :
  elem_root None = Node ORootNode [] /\ tree_of PUnit = Node ORootNode [] /\
  eval_mut O (Node ORootNode []) c lg = (Ok VEmpty, c, lg).
Proof. repeat split. Qed.
