(* C10: every documented builtin against the reference table of Spec/BuiltinSpec.v.
   Organisation: classes; tuple shapes; one block per builtin family; the order of doubles and the
   monotonicity of `i64 as f64` (needed for min/max on mixed lists); min/max; names; the table-wide
   theorems; the statements quoted by Props/C10.v (lemmas p_...). *)
From Coq Require Import Strings.String Floats.SpecFloat ZArith Lia Zpower.
Require Import Model.Base Model.Syntax Model.F64 Model.Lexer Model.Value Model.Context Model.Builtins Model.Eval.
Require Import Spec.OpTable Spec.BuiltinSpec Proofs.Common Proofs.C03.
Require Gen.BuiltinNames.
Local Open Scope Z_scope.

Ltac b2p :=
  repeat match goal with
         | H : (_ <? _) = true |- _ => apply Z.ltb_lt in H
         | H : (_ <? _) = false |- _ => apply Z.ltb_ge in H
         | H : (_ =? _) = true |- _ => apply Z.eqb_eq in H
         | H : (_ =? _) = false |- _ => apply Z.eqb_neq in H
         | H : (_ <=? _) = true |- _ => apply Z.leb_le in H
         | H : (_ <=? _) = false |- _ => apply Z.leb_gt in H
         end.

(* ================= classes and tuple shapes ================= *)
Lemma coarse_bclass r : coarse (bclass r) = class_of r.
Proof. destruct r as [v|e|s]; [reflexivity| |reflexivity]. destruct e; reflexivity. Qed.

Lemma of_nat_3plus {A} (l : list A) a b c n : (N.of_nat (length (a :: b :: c :: l)) =? n)%N = true -> (3 <= n)%N.
Proof. intros H. apply N.eqb_eq in H. subst n. cbn [length]. lia. Qed.

Lemma as_fixed2 v : as_fixed_len_tuple v 2 =
  match v with
  | VTuple [a; b] => Ok [a; b]
  | VTuple _ => Err (EExpectedFixedLengthTuple 2 v)
  | _ => Err (EExpectedTuple v)
  end.
Proof.
  destruct v as [| | | |l|]; try reflexivity.
  destruct l as [|a [|b [|c l]]]; try reflexivity.
  unfold as_fixed_len_tuple.
  destruct (N.eqb _ 2) eqn:E; [|reflexivity]. apply of_nat_3plus in E. lia.
Qed.

Lemma as_fixed3 v : as_fixed_len_tuple v 3 =
  match v with
  | VTuple [a; b; c] => Ok [a; b; c]
  | VTuple _ => Err (EExpectedFixedLengthTuple 3 v)
  | _ => Err (EExpectedTuple v)
  end.
Proof.
  destruct v as [| | | |l|]; try reflexivity.
  destruct l as [|a [|b [|c [|d l]]]]; try reflexivity.
  unfold as_fixed_len_tuple.
  destruct (N.eqb _ 3) eqn:E; [|reflexivity]. apply N.eqb_eq in E. cbn [length] in E. lia.
Qed.

Lemma as_ranged23 v : as_ranged_len_tuple v 2 3 =
  match v with
  | VTuple [a; b] => Ok [a; b]
  | VTuple [a; b; c] => Ok [a; b; c]
  | VTuple _ => Err (EExpectedRangedLengthTuple 2 3 v)
  | _ => Err (EExpectedTuple v)
  end.
Proof.
  destruct v as [| | | |l|]; try reflexivity.
  destruct l as [|a [|b [|c [|d l]]]]; try reflexivity.
  unfold as_ranged_len_tuple.
  destruct (N.leb 2 _ && N.leb _ 3)%bool eqn:E; [|reflexivity].
  apply andb_prop in E. destruct E as [_ E]. apply N.leb_le in E. cbn [length] in E. lia.
Qed.

Section WithOracle.
Variable O : std_oracle.

Lemma math2_class g v : bclass (simple_math2 g v) = on_num2 g v.
Proof.
  unfold simple_math2. rewrite as_fixed2.
  destruct v as [| | | |l|]; try reflexivity.
  destruct l as [|a [|b [|c l]]]; try reflexivity.
  destruct a, b; reflexivity.
Qed.
End WithOracle.

(* ================= one-line families ================= *)
Ltac vcases :=
  repeat first [ reflexivity
               | match goal with |- context [match ?x with _ => _ end] => is_var x; destruct x end ].

Section WithOracle.
Variable O : std_oracle.

Lemma float_is_class p v : bclass (float_is p v) = float_pred p v.
Proof. destruct v; reflexivity. Qed.

Lemma int1_class g v : bclass (int_function1 g v) = on_int g v.
Proof. destruct v; reflexivity. Qed.

Lemma int2_class g v : bclass (int_function2 g v) = 
  match v with VTuple (VInt a :: VInt b :: nil) => BVal (VInt (g a b)) | _ => BType end.
Proof.
  unfold int_function2. rewrite as_fixed2.
  vcases.
Qed.

Lemma int2_exact g v : on_int2 (exactly g) v (bclass (int_function2 g v)).
Proof.
  rewrite int2_class. unfold on_int2, exactly.
  vcases.
Qed.

Lemma abs_class v : wf v -> bclass (b_abs v) = spec_abs v.
Proof.
  destruct v as [|f|i| | |]; try reflexivity. cbn [wf]. intros W.
  apply in_i64_spec in W. unfold i64_min, i64_max in W.
  cbn [b_abs spec_abs]. unfold checked_abs, checked.
  destruct (i =? i64_min) eqn:E.
  - apply Z.eqb_eq in E. subst i. reflexivity.
  - apply Z.eqb_neq in E. unfold i64_min in E.
    replace (in_i64 (Z.abs i)) with true; [reflexivity|].
    symmetry. apply in_i64_spec. unfold i64_min, i64_max. lia.
Qed.

Lemma typeof_class v : bclass (b_typeof v) = spec_typeof v.
Proof. destruct v; reflexivity. Qed.

Lemma if_class v : bclass (b_if v) = spec_if v.
Proof.
  unfold b_if, spec_if. rewrite as_fixed3.
  vcases.
Qed.

Lemma len_class v : bclass (b_len v) = spec_len v.
Proof. destruct v; reflexivity. Qed.

Lemma prim_is_primitive v : is_primitive v = prim v.
Proof. destruct v; reflexivity. Qed.

Lemma tuple_contains_spec t x : tuple_contains t x = true <-> exists y, In y t /\ veq y x.
Proof.
  unfold tuple_contains. rewrite existsb_exists.
  split; intros [y [Hin Hy]]; exists y; (split; [exact Hin|]); apply value_eqb_spec; exact Hy.
Qed.

Lemma contains_class v : spec_contains v (bclass (b_contains v)).
Proof.
  unfold b_contains. rewrite as_fixed2. unfold spec_contains.
  destruct v as [| | | |l|]; try reflexivity.
  destruct l as [|a [|b [|c l]]]; try reflexivity; try (destruct a; reflexivity).
  - destruct a as [| | | |t|]; try reflexivity.
    cbn [bind idx nth_opt]. change (is_primitive b) with (prim b).
    destruct (prim b); [|reflexivity].
    eexists. split; [reflexivity|]. apply tuple_contains_spec.
Qed.

Lemma contains_any_loop_ok a : forall b found, forallb prim b = true ->
  contains_any_loop a found b = Ok (found || existsb (tuple_contains a) b).
Proof.
  induction b as [|v b IH]; intros found H; cbn [contains_any_loop existsb].
  - rewrite orb_false_r. reflexivity.
  - cbn [forallb] in H. apply andb_prop in H. destruct H as [Hv Hb].
    change (is_primitive v) with (prim v). rewrite Hv. rewrite IH by exact Hb. rewrite orb_assoc. reflexivity.
Qed.

Lemma contains_any_loop_err a : forall b found, forallb prim b = false ->
  exists v, contains_any_loop a found b = Err (ETypeError primitive_types v).
Proof.
  induction b as [|v b IH]; intros found H; cbn [contains_any_loop forallb] in *; [discriminate|].
  change (is_primitive v) with (prim v). destruct (prim v); [apply IH; exact H|]. eexists; reflexivity.
Qed.

Lemma contains_any_class v : spec_contains_any v (bclass (b_contains_any v)).
Proof.
  unfold b_contains_any. rewrite as_fixed2. unfold spec_contains_any.
  destruct v as [| | | |l|]; try reflexivity.
  destruct l as [|a [|b [|c l]]]; try reflexivity; try (destruct a; reflexivity).
  - destruct a as [| | | |t|]; try reflexivity.
    destruct b as [| | | |xs|]; try reflexivity.
    cbn [bind idx nth_opt].
    destruct (forallb prim xs) eqn:E.
    + rewrite contains_any_loop_ok by exact E. cbn [bind bclass orb].
      eexists. split; [reflexivity|]. rewrite existsb_exists. split.
      * intros [x [Hx Hc]]. apply tuple_contains_spec in Hc. destruct Hc as [y [Hy Hv]]. exists x, y. auto.
      * intros [x [y [Hx [Hy Hv]]]]. exists x. split; [exact Hx|]. apply tuple_contains_spec. exists y. auto.
    + destruct (contains_any_loop_err t xs false E) as [w Hw]. rewrite Hw. reflexivity.
  - destruct a; try reflexivity. destruct b; reflexivity.
Qed.

End WithOracle.

(* ================= str::from, case mapping, str::trim ================= *)
Section WithOracle.
Variable O : std_oracle.

Lemma display_eq v : value_display O v = display O v.
Proof.
  induction v as [s|f|i|b|l IHl|] using value_ind'; try reflexivity.
  - destruct b; reflexivity.
  - cbn [value_display display]. change (s2l "(") with [40%N]. cbn [app]. f_equal.
    match goal with |- ?g true l = _ => set (go := g) end.
    assert (Hf : forall l', Forall (fun x => value_display O x = display O x) l' ->
              go false l' = match l' with
                            | [] => [41%N]
                            | _ => s2l ", " ++ join (s2l ", ") (map (display O) l') ++ [41%N]
                            end).
    { induction 1 as [|x xs Hx Hxs IH]; [reflexivity|].
      change (go false (x :: xs)) with ([44%N; 32%N] ++ value_display O x ++ go false xs).
      rewrite IH, Hx. destruct xs as [|y ys]; [reflexivity|].
      change (map (display O) (x :: y :: ys)) with (display O x :: map (display O) (y :: ys)).
      cbn [join map]. change (s2l ", ") with [44%N; 32%N]. rewrite <- !app_assoc. reflexivity. }
    destruct IHl as [|x xs Hx Hxs]; [reflexivity|].
    change (go true (x :: xs)) with ([] ++ value_display O x ++ go false xs).
    rewrite Hf by exact Hxs. rewrite Hx. destruct xs as [|y ys]; [reflexivity|].
    cbn [join map app]. rewrite <- !app_assoc. reflexivity.
Qed.

Lemma str_from_class v : bclass (b_str_from O v) = spec_str_from O v.
Proof.
  unfold b_str_from, spec_str_from, str_from. cbn [bclass]. do 2 f_equal.
  destruct v; try reflexivity.
  - destruct b; reflexivity.
  - apply display_eq.
Qed.

Lemma lower_class v : bclass (b_to_lowercase O v) = on_str (o_to_lowercase O) v.
Proof. destruct v; reflexivity. Qed.
Lemma upper_class v : bclass (b_to_uppercase O v) = on_str (o_to_uppercase O) v.
Proof. destruct v; reflexivity. Qed.
Lemma trim_routing v : bclass (b_trim v) = on_str trim v.
Proof. destruct v; reflexivity. Qed.

End WithOracle.

(* trim *)
Lemma trim_start_spec s : exists pre, s = pre ++ trim_start s /\ Forall ws pre /\
  (forall c r', trim_start s = c :: r' -> ~ ws c).
Proof.
  induction s as [|c s IH].
  - exists []. repeat split; [constructor|]. intros c r' H. discriminate.
  - cbn [trim_start]. destruct (is_ws c) eqn:E.
    + destruct IH as [pre [H1 [H2 H3]]]. exists (c :: pre). repeat split.
      * cbn [app]. f_equal. exact H1.
      * constructor; [exact E|exact H2].
      * exact H3.
    + exists []. repeat split; [constructor|]. intros c0 r' H. inversion H; subst. unfold ws. rewrite E. discriminate.
Qed.

Lemma trimmed_trim s : trimmed s (trim s).
Proof.
  unfold trim.
  destruct (trim_start_spec s) as [pre [H1 [H2 H3]]].
  destruct (trim_start_spec (rev (trim_start s))) as [post [G1 [G2 G3]]].
  set (m := trim_start (rev (trim_start s))) in *.
  exists pre, (rev post). repeat split.
  - rewrite H1 at 1. f_equal. rewrite <- (rev_involutive (trim_start s)). rewrite G1. rewrite rev_app_distr. reflexivity.
  - exact H2.
  - apply Forall_rev. exact G2.
  - intros c r' Hr. 
    (* rev m = c :: r'  =>  m = rev r' ++ [c] *)
    assert (Hm : m = rev r' ++ [c]).
    { rewrite <- (rev_involutive m), Hr. reflexivity. }
    (* trim_start s = rev (post ++ m) = rev m ++ rev post = c :: r' ++ rev post *)
    assert (Ht : trim_start s = c :: (r' ++ rev post)).
    { rewrite <- (rev_involutive (trim_start s)), G1, rev_app_distr, Hr. reflexivity. }
    exact (H3 _ _ Ht).
  - intros c r' Hr.
    assert (Hm : m = c :: rev r').
    { rewrite <- (rev_involutive m), Hr, rev_app_distr. reflexivity. }
    exact (G3 _ _ Hm).
Qed.

Lemma trim_start_ws pre x : Forall ws pre -> trim_start (pre ++ x) = trim_start x.
Proof.
  induction 1 as [|c pre Hc Hpre IH]; [reflexivity|]. cbn [app trim_start]. unfold ws in Hc. rewrite Hc. exact IH.
Qed.
Lemma trim_start_all_ws pre : Forall ws pre -> trim_start pre = [].
Proof. intros H. rewrite <- (app_nil_r pre). rewrite trim_start_ws by exact H. reflexivity. Qed.
Lemma trim_start_stop c x : ~ ws c -> trim_start (c :: x) = c :: x.
Proof. intros H. cbn [trim_start]. unfold ws in H. destruct (is_ws c); [exfalso; apply H; reflexivity|reflexivity]. Qed.

Lemma trimmed_unique s r : trimmed s r -> r = trim s.
Proof.
  intros [pre [post [Hs [Hpre [Hpost [Hhd Hlast]]]]]]. subst s. unfold trim.
  rewrite trim_start_ws by exact Hpre.
  destruct r as [|c r'].
  - cbn [app]. rewrite (trim_start_all_ws post) by exact Hpost. reflexivity.
  - cbn [app]. rewrite trim_start_stop by (apply (Hhd c r'); reflexivity).
    change (c :: r' ++ post) with ((c :: r') ++ post). rewrite rev_app_distr.
    rewrite trim_start_ws by (apply Forall_rev; exact Hpost).
    destruct (exists_last (l := c :: r') ltac:(discriminate)) as [r'' [d Hd]]. rewrite Hd.
    rewrite rev_app_distr. cbn [rev app]. rewrite trim_start_stop by (apply (Hlast d r''); exact Hd).
    change (d :: rev r'') with (rev [d] ++ rev r''). rewrite <- rev_app_distr, rev_involutive. reflexivity.
Qed.

Lemma trim_class v : spec_trim v (bclass (b_trim v)).
Proof.
  destruct v; try reflexivity. cbn. eexists. split; [reflexivity|]. apply trimmed_trim.
Qed.

(* ================= str::substring ================= *)
Lemma utf8_width_pos c : (1 <= utf8_width c)%N.
Proof. unfold utf8_width. destruct (c <? 128)%N, (c <? 2048)%N, (c <? 65536)%N; lia. Qed.

Lemma byte_len_app a b : byte_len (a ++ b) = (byte_len a + byte_len b)%N.
Proof. induction a as [|c a IH]; cbn [app byte_len]; [reflexivity|]. rewrite IH. lia. Qed.

Lemma split_sound s : forall k a b, split_at_byte s k = Some (a, b) -> s = a ++ b /\ byte_len a = k.
Proof.
  induction s as [|c s IH]; intros k a b H; cbn [split_at_byte] in H.
  - destruct (k =? 0)%N eqn:E; [|discriminate]. apply N.eqb_eq in E. inversion H; subst. split; reflexivity.
  - destruct (k =? 0)%N eqn:E.
    + apply N.eqb_eq in E. inversion H; subst. split; reflexivity.
    + destruct (k <? utf8_width c)%N eqn:E1; [discriminate|].
      destruct (split_at_byte s (k - utf8_width c)) as [[a' b']|] eqn:E2; [|discriminate].
      inversion H; subst. destruct (IH _ _ _ E2) as [H1 H2]. apply N.ltb_ge in E1.
      split; [cbn [app]; f_equal; exact H1|]. cbn [byte_len]. lia.
Qed.

Lemma split_complete a b : split_at_byte (a ++ b) (byte_len a) = Some (a, b).
Proof.
  induction a as [|c a IH].
  - cbn [app byte_len]. destruct b; reflexivity.
  - cbn [app byte_len split_at_byte]. pose proof (utf8_width_pos c) as Hw.
    destruct (utf8_width c + byte_len a =? 0)%N eqn:E; [apply N.eqb_eq in E; lia|].
    destruct (utf8_width c + byte_len a <? utf8_width c)%N eqn:E1; [apply N.ltb_lt in E1; lia|].
    replace (utf8_width c + byte_len a - utf8_width c)%N with (byte_len a) by lia.
    rewrite IH. reflexivity.
Qed.

(* the existence of a byte range, in terms of offsets and character boundaries *)
Lemma byte_range_bounds s a b r : byte_range s a b r ->
  0 <= a <= b /\ b <= Z.of_N (byte_len s) /\ is_boundary s a /\ is_boundary s b /\ Z.of_N (byte_len r) = b - a.
Proof.
  intros [pre [post [Hs [Ha Hb]]]]. subst s a b. rewrite !byte_len_app. repeat split; try lia.
  - exists pre, (r ++ post). split; reflexivity.
  - exists (pre ++ r), post. rewrite <- app_assoc. split; [reflexivity|]. rewrite byte_len_app. reflexivity.
Qed.

Lemma byte_range_exists s a b : a <= b -> is_boundary s a -> is_boundary s b -> exists r, byte_range s a b r.
Proof.
  intros Hab [p1 [q1 [H1 Ha]]] [p2 [q2 [H2 Hb]]].
  (* p1 is a prefix of p2 *)
  assert (Hsp : split_at_byte s (byte_len p1) = Some (p1, q1)) by (rewrite H1; apply split_complete).
  assert (Hp2 : exists r, p2 = p1 ++ r).
  { clear Hsp. subst a b. revert p2 s q1 q2 H1 H2 Hab. induction p1 as [|c p1 IH]; intros p2 s q1 q2 H1 H2 Hab.
    - exists p2. reflexivity.
    - destruct p2 as [|d p2].
      + cbn [byte_len] in Hab. pose proof (utf8_width_pos c). lia.
      + subst s. cbn [app] in H2. inversion H2 as [[Hc Ht]]. subst d.
        cbn [byte_len] in Hab. destruct (IH p2 (p1 ++ q1) q1 q2 eq_refl Ht ltac:(lia)) as [r Hr].
        exists r. cbn [app]. f_equal. exact Hr. }
  destruct Hp2 as [r Hr]. exists r. exists p1, q2. subst p2. rewrite <- app_assoc in H2. repeat split; assumption.
Qed.

Lemma byte_range_unique s a b r r' : byte_range s a b r -> byte_range s a b r' -> r = r'.
Proof.
  intros [p [q [Hs [Ha Hb]]]] [p' [q' [Hs' [Ha' Hb']]]].
  assert (E1 : split_at_byte s (byte_len p) = Some (p, r ++ q)) by (rewrite Hs; apply split_complete).
  assert (E2 : split_at_byte s (byte_len p') = Some (p', r' ++ q')) by (rewrite Hs'; apply split_complete).
  assert (Hpp : byte_len p = byte_len p') by lia. rewrite Hpp in E1. rewrite E1 in E2. inversion E2 as [[Hp Hrq]].
  subst p'. rewrite !byte_len_app in Hb, Hb'.
  assert (F1 : split_at_byte (r ++ q) (byte_len r) = Some (r, q)) by apply split_complete.
  assert (F2 : split_at_byte (r' ++ q') (byte_len r') = Some (r', q')) by apply split_complete.
  assert (Hrr : byte_len r = byte_len r') by lia. rewrite Hrr, Hrq in F1. rewrite F1 in F2. inversion F2. reflexivity.
Qed.

(* the core of str::substring on byte offsets *)
Definition sub_core (s : str) (start end_ : N) : outcome value :=
  if (N.ltb end_ start || N.ltb (byte_len s) end_)%bool then Err EOutOfBoundsAccess
  else match split_at_byte s start with
       | Some (_, rest) =>
           match split_at_byte rest (end_ - start) with
           | Some (mid, _) => Ok (VString mid)
           | None => Err EOutOfBoundsAccess
           end
       | None => Err EOutOfBoundsAccess
       end.

Lemma sub_core_spec s start end_ : spec_sub s (Z.of_N start) (Z.of_N end_) (bclass (sub_core s start end_)).
Proof.
  unfold sub_core, spec_sub.
  destruct (N.ltb end_ start || N.ltb (byte_len s) end_)%bool eqn:E.
  - right. split; [|reflexivity]. intros r Hr. apply byte_range_bounds in Hr.
    apply orb_prop in E. destruct E as [E|E]; apply N.ltb_lt in E; lia.
  - apply orb_false_elim in E. destruct E as [E1 E2]. apply N.ltb_ge in E1, E2.
    destruct (split_at_byte s start) as [[p rest]|] eqn:S1.
    + destruct (split_sound _ _ _ _ S1) as [Hs Hp].
      destruct (split_at_byte rest (end_ - start)) as [[mid q]|] eqn:S2.
      * destruct (split_sound _ _ _ _ S2) as [Hr Hm]. left. exists mid. split; [|reflexivity].
        exists p, q. subst s rest. repeat split; [lia|]. rewrite byte_len_app. lia.
      * right. split; [|reflexivity]. intros r [p' [q' [Hs' [Ha Hb]]]].
        assert (F : split_at_byte s (byte_len p') = Some (p', r ++ q')) by (rewrite Hs'; apply split_complete).
        assert (Hpp : byte_len p' = start) by lia. rewrite Hpp, S1 in F. inversion F; subst p' rest.
        rewrite byte_len_app in Hb.
        assert (G : split_at_byte (r ++ q') (byte_len r) = Some (r, q')) by apply split_complete.
        replace (byte_len r) with (end_ - start)%N in G by lia. rewrite S2 in G. discriminate.
    + right. split; [|reflexivity]. intros r [p' [q' [Hs' [Ha Hb]]]].
      assert (F : split_at_byte s (byte_len p') = Some (p', r ++ q')) by (rewrite Hs'; apply split_complete).
      assert (Hpp : byte_len p' = start) by lia. rewrite Hpp, S1 in F. discriminate.
Qed.

Lemma no_range_neg_start s a b : a < 0 -> forall r, ~ byte_range s a b r.
Proof. intros H r Hr. apply byte_range_bounds in Hr. lia. Qed.
Lemma no_range_neg_end s a b : b < 0 -> forall r, ~ byte_range s a b r.
Proof. intros H r Hr. apply byte_range_bounds in Hr. lia. Qed.

Lemma substring_class v : spec_substring v (bclass (b_substring v)).
Proof.
  unfold b_substring. rewrite as_ranged23. unfold spec_substring.
  destruct v as [| | | |l|]; try reflexivity.
  destruct l as [|x [|y [|z [|w l]]]]; try reflexivity; try (destruct x; reflexivity).
  - (* two arguments *)
    destruct x as [s| | | | |]; try reflexivity. destruct y as [| |a| | |]; try reflexivity.
    cbn [bind idx nth_opt as_string as_int].
    destruct (a <? 0) eqn:Ea; cbn [bind].
    + apply Z.ltb_lt in Ea. right. split; [apply no_range_neg_start; exact Ea|reflexivity].
    + apply Z.ltb_ge in Ea. pose proof (sub_core_spec s (Z.to_N a) (byte_len s)) as H.
      rewrite Z2N.id in H by exact Ea. exact H.
  - (* three arguments *)
    destruct x as [s| | | | |]; try reflexivity; try (destruct y; reflexivity).
    destruct y as [| |a| | |]; try reflexivity.
    cbn [bind idx nth_opt as_string as_int].
    destruct (a <? 0) eqn:Ea; cbn [bind].
    + apply Z.ltb_lt in Ea. destruct z; try (right; split; [exact Ea|reflexivity]).
      right. split; [apply no_range_neg_start; exact Ea|reflexivity].
    + apply Z.ltb_ge in Ea. destruct z as [| |b| | |]; try (left; reflexivity).
      cbn [as_int bind]. destruct (b <? 0) eqn:Eb; cbn [bind].
      * apply Z.ltb_lt in Eb. right. split; [apply no_range_neg_end; exact Eb|reflexivity].
      * apply Z.ltb_ge in Eb. pose proof (sub_core_spec s (Z.to_N a) (Z.to_N b)) as H.
        rewrite !Z2N.id in H by assumption. exact H.
  - destruct x; try reflexivity. destruct y; try reflexivity. destruct z; reflexivity.
Qed.

(* ================= shifts ================= *)
Lemma shl_exact a n : 0 <= n <= 63 -> wrapping_shl a n = wrap64 (a * 2 ^ n).
Proof.
  intros H. unfold wrapping_shl. rewrite Z.mod_small by lia. rewrite Z.shiftl_mul_pow2 by lia. reflexivity.
Qed.

Lemma shr_exact a n : 0 <= n <= 63 -> wrapping_shr a n = a / 2 ^ n.
Proof.
  intros H. unfold wrapping_shr. rewrite Z.mod_small by lia. apply Z.shiftr_div_pow2. lia.
Qed.

Lemma range_test n : (0 <=? n) && (n <=? 63) = true <-> 0 <= n <= 63.
Proof. rewrite andb_true_iff, !Z.leb_le. tauto. Qed.

Lemma shl_class v : on_int2 spec_shl v (bclass (int_function2 wrapping_shl v)).
Proof.
  rewrite int2_class. unfold on_int2, spec_shl.
  destruct v as [| | | |l|]; try reflexivity.
  destruct l as [|x [|y [|z l]]]; try reflexivity; try (destruct x; reflexivity).
  - destruct x as [| |a| | |]; try reflexivity. destruct y as [| |n| | |]; try reflexivity.
    destruct ((0 <=? n) && (n <=? 63)) eqn:E.
    + apply range_test in E. rewrite shl_exact by exact E. reflexivity.
    + eexists; reflexivity.
  - destruct x; try reflexivity. destruct y; reflexivity.
Qed.

Lemma shr_class v : on_int2 spec_shr v (bclass (int_function2 wrapping_shr v)).
Proof.
  rewrite int2_class. unfold on_int2, spec_shr.
  destruct v as [| | | |l|]; try reflexivity.
  destruct l as [|x [|y [|z l]]]; try reflexivity; try (destruct x; reflexivity).
  - destruct x as [| |a| | |]; try reflexivity. destruct y as [| |n| | |]; try reflexivity.
    destruct ((0 <=? n) && (n <=? 63)) eqn:E.
    + apply range_test in E. rewrite shr_exact by exact E. reflexivity.
    + eexists; reflexivity.
  - destruct x; try reflexivity. destruct y; reflexivity.
Qed.

Lemma wrap64_wraps z : wraps_to z (wrap64 z).
Proof.
  unfold wraps_to, wrap64, i64_min, i64_max. change (2 ^ 64) with 18446744073709551616.
  pose proof (Z.mod_pos_bound z 18446744073709551616 ltac:(lia)) as Hm.
  pose proof (Z.div_mod z 18446744073709551616 ltac:(lia)) as Hd.
  destruct (z mod 18446744073709551616 <=? 9223372036854775807) eqn:E.
  - apply Z.leb_le in E. split; [lia|]. exists (- (z / 18446744073709551616)). lia.
  - apply Z.leb_gt in E. split; [lia|]. exists (- (z / 18446744073709551616) - 1). lia.
Qed.

Lemma wraps_unique z r r' : wraps_to z r -> wraps_to z r' -> r = r'.
Proof.
  unfold wraps_to, i64_min, i64_max. change (2 ^ 64) with 18446744073709551616.
  intros [H1 [k Hk]] [H2 [k' Hk']]. assert (k = k') by lia. subst. reflexivity.
Qed.

(* a shift result stays a 64-bit integer *)
Lemma shr_in_range a n : in_i64 a = true -> 0 <= n -> in_i64 (a / 2 ^ n) = true.
Proof.
  rewrite !in_i64_spec. unfold i64_min, i64_max. intros Ha Hn.
  assert (Hp : 0 < 2 ^ n) by (apply Z.pow_pos_nonneg; lia).
  split.
  - apply Z.div_le_lower_bound; [exact Hp|]. nia.
  - apply Z.div_le_upper_bound; [exact Hp|]. nia.
Qed.

(* ================= the order of doubles ================= *)
(* ---- the order of SFcompare through a key in Z^3 ---- *)
Definition fkey (x : f64) : Z * Z * Z :=
  match x with
  | S754_nan => (0, 0, 0)
  | S754_zero _ => (0, 0, 0)
  | S754_infinity s => (if s then -2 else 2, 0, 0)
  | S754_finite s m e => if s then (-1, - e, - Z.pos m) else (1, e, Z.pos m)
  end.
Definition lt3 (a b : Z * Z * Z) : Prop :=
  let '(a1, a2, a3) := a in let '(b1, b2, b3) := b in
  a1 < b1 \/ (a1 = b1 /\ (a2 < b2 \/ (a2 = b2 /\ a3 < b3))).

Lemma f_ltb_key x y : f_is_nan x = false -> f_is_nan y = false -> (f_ltb x y = true <-> lt3 (fkey x) (fkey y)).
Proof.
  unfold f_ltb, f_compare.
  destruct x as [sx|sx| |sx mx ex], y as [sy|sy| |sy my ey]; cbn [f_is_nan]; intros Hx Hy; try discriminate;
    unfold lt3, fkey; cbn [SFcompare].
  - split; [discriminate|lia].
  - destruct sy; split; (discriminate || lia || reflexivity).
  - destruct sy; split; (discriminate || lia || reflexivity).
  - destruct sx; split; (discriminate || lia || reflexivity).
  - destruct sx, sy; split; (discriminate || lia || reflexivity).
  - destruct sx, sy; split; (discriminate || lia || reflexivity).
  - destruct sx; split; (discriminate || lia || reflexivity).
  - destruct sx, sy; split; (discriminate || lia || reflexivity).
  - change (Pos.compare_cont Eq mx my) with (Pos.compare mx my).
    destruct sx, sy.
    + destruct (Z.compare_spec ex ey) as [He|He|He]; [destruct (Pos.compare_spec mx my) as [Hm|Hm|Hm]| |];
        cbn [CompOpp]; split; (discriminate || lia || reflexivity).
    + split; [lia|reflexivity].
    + split; [discriminate|lia].
    + destruct (Z.compare_spec ex ey) as [He|He|He]; [destruct (Pos.compare_spec mx my) as [Hm|Hm|Hm]| |];
        split; (discriminate || lia || reflexivity).
Qed.

Lemma f_ltb_nan_l y : f_ltb S754_nan y = false.
Proof. reflexivity. Qed.
Lemma f_ltb_nan_r x : f_ltb x S754_nan = false.
Proof. destruct x; reflexivity. Qed.

Lemma f_ltb_false_key x y : f_is_nan x = false -> f_is_nan y = false -> (f_ltb x y = false <-> ~ lt3 (fkey x) (fkey y)).
Proof.
  intros Hx Hy. rewrite <- (f_ltb_key x y Hx Hy). destruct (f_ltb x y); split; congruence.
Qed.

Lemma f_ltb_irrefl x : f_ltb x x = false.
Proof.
  destruct x as [s|s| |s m e]; try reflexivity; try (destruct s; reflexivity).
  apply f_ltb_false_key; try reflexivity. unfold lt3. destruct (fkey _) as [[a b] c]. lia.
Qed.


(* ================= i64 as f64 is monotone and never NaN ================= *)
(* ---- digits ---- *)
Lemma digits2_bounds p : 2 ^ (Z.pos (digits2_pos p) - 1) <= Z.pos p < 2 ^ Z.pos (digits2_pos p).
Proof.
  induction p as [p IH|p IH|]; cbn [digits2_pos].
  - rewrite Pos2Z.inj_succ. replace (Z.succ (Z.pos (digits2_pos p)) - 1) with (Z.succ (Z.pos (digits2_pos p) - 1)) by lia.
    rewrite !Z.pow_succ_r by lia. lia.
  - rewrite Pos2Z.inj_succ. replace (Z.succ (Z.pos (digits2_pos p)) - 1) with (Z.succ (Z.pos (digits2_pos p) - 1)) by lia.
    rewrite !Z.pow_succ_r by lia. lia.
  - cbn. lia.
Qed.

Lemma digits2_unique p d : 2 ^ (d - 1) <= Z.pos p < 2 ^ d -> Z.pos (digits2_pos p) = d.
Proof.
  intros H. pose proof (digits2_bounds p) as B. set (e := Z.pos (digits2_pos p)) in *.
  assert (0 < e) by (subst e; lia).
  destruct (Z.lt_trichotomy e d) as [Hlt|[Heq|Hgt]]; [|exact Heq|].
  - assert (2 ^ e <= 2 ^ (d - 1)) by (apply Z.pow_le_mono_r; lia). lia.
  - assert (0 <= d \/ d < 0) as [Hd|Hd] by lia.
    + assert (2 ^ d <= 2 ^ (e - 1)) by (apply Z.pow_le_mono_r; lia). lia.
    + rewrite (Z.pow_neg_r 2 d) in H by lia. lia.
Qed.

(* ---- shifting right with round / sticky bits ---- *)
Lemma shr_1_nonneg m r s : 0 <= m ->
  shr_1 (Build_shr_record m r s) = Build_shr_record (m / 2) (Z.odd m) (r || s).
Proof.
  intros H. rewrite <- Z.div2_div. destruct m as [|p|p]; [reflexivity| |lia].
  destruct p; reflexivity.
Qed.

(* the record represents m = q * P + rem with the position of rem relative to P/2 *)
Definition shr_inv (P m : Z) (rec : shr_record) : Prop :=
  exists rem, m = shr_m rec * P + rem /\ 0 <= rem < P /\ 0 <= shr_m rec /\
    shr_r rec = (P <=? 2 * rem) /\ shr_s rec = negb (rem =? 0) && negb (2 * rem =? P).

Lemma shr_inv_step P m rec : 0 < P -> shr_inv P m rec -> shr_inv (2 * P) m (shr_1 rec).
Proof.
  intros HP [rem [Hm [Hrem [Hq [Hr Hs]]]]]. destruct rec as [q r s]. cbn [shr_m shr_r shr_s] in *.
  rewrite shr_1_nonneg by exact Hq.
  pose proof (Z.div_mod q 2 ltac:(lia)) as Hd. pose proof (Z.mod_pos_bound q 2 ltac:(lia)) as Hb.
  exists (rem + (q mod 2) * P). cbn [shr_m shr_r shr_s].
  assert (Hodd : Z.odd q = (q mod 2 =? 1)).
  { rewrite Zmod_odd. destruct (Z.odd q); reflexivity. }
  split; [nia|]. split; [nia|]. split; [apply Z.div_pos; lia|]. split.
  - rewrite Hodd. destruct (q mod 2 =? 1) eqn:E; [apply Z.eqb_eq in E|apply Z.eqb_neq in E]; symmetry;
      [apply Z.leb_le|apply Z.leb_gt]; nia.
  - subst r s.
    assert (Hq2 : q mod 2 = 0 \/ q mod 2 = 1) by lia.
    destruct Hq2 as [E|E]; rewrite E.
    + replace (rem + 0 * P) with rem by lia.
      replace (2 * rem =? 2 * P) with false by (symmetry; apply Z.eqb_neq; lia).
      destruct (P <=? 2 * rem) eqn:E1, (rem =? 0) eqn:E2, (2 * rem =? P) eqn:E3; try reflexivity; b2p; lia.
    + replace (rem + 1 * P =? 0) with false by (symmetry; apply Z.eqb_neq; lia).
      destruct (P <=? 2 * rem) eqn:E1, (rem =? 0) eqn:E2, (2 * rem =? P) eqn:E3, (2 * (rem + 1 * P) =? 2 * P) eqn:E4;
        try reflexivity; b2p; lia.
Qed.

Fixpoint niter {A} (f : A -> A) (n : nat) (x : A) : A :=
  match n with O => x | S n' => f (niter f n' x) end.

Lemma niter_add {A} (f : A -> A) a b y : niter f (a + b) y = niter f a (niter f b y).
Proof. induction a as [|a IHa]; cbn [niter Nat.add]; [reflexivity|]. rewrite IHa. reflexivity. Qed.

Lemma niter_comm {A} (f : A -> A) n y : niter f n (f y) = f (niter f n y).
Proof. induction n as [|n IHn]; cbn [niter]; [reflexivity|]. rewrite IHn. reflexivity. Qed.

Lemma iter_pos_nat {A} (f : A -> A) p x : SpecFloat.iter_pos f p x = niter f (Pos.to_nat p) x.
Proof.
  revert x. induction p as [p IH|p IH|]; intros x; cbn [SpecFloat.iter_pos].
  - rewrite !IH. rewrite Pos2Nat.inj_xI.
    replace (S (2 * Pos.to_nat p))%nat with (Pos.to_nat p + (Pos.to_nat p + 1))%nat by lia.
    rewrite !niter_add. cbn [niter]. reflexivity.
  - rewrite !IH. rewrite Pos2Nat.inj_xO. replace (2 * Pos.to_nat p)%nat with (Pos.to_nat p + Pos.to_nat p)%nat by lia.
    rewrite niter_add. reflexivity.
  - reflexivity.
Qed.

Lemma shr_inv_iter m n : 0 <= m ->
  shr_inv (2 ^ Z.of_nat n) m (niter shr_1 n (Build_shr_record m false false)).
Proof.
  intros Hm. induction n as [|n IH].
  - exists 0. cbn. repeat split; try lia.
  - rewrite Nat2Z.inj_succ, Z.pow_succ_r by lia. cbn [niter]. apply shr_inv_step; [|exact IH].
    apply Z.pow_pos_nonneg; lia.
Qed.

Definition rne (q rem P : Z) : Z :=
  if 2 * rem <? P then q else if 2 * rem =? P then (if Z.even q then q else q + 1) else q + 1.

Lemma shr_inv_round P m rec : 0 < P -> shr_inv P m rec ->
  shr_m rec = m / P /\
  round_nearest_even (shr_m rec) (loc_of_shr_record rec) = rne (m / P) (m mod P) P.
Proof.
  intros HP [rem [Hm [Hrem [Hq [Hr Hs]]]]].
  assert (Hqr : shr_m rec = m / P /\ rem = m mod P).
  { apply (Z.div_mod_unique P (shr_m rec) (m / P) rem (m mod P)); [lia| |].
    - left. apply Z.mod_pos_bound. lia.
    - rewrite <- Z.div_mod by lia. lia. }
  destruct Hqr as [Hq' Hrem']. split; [exact Hq'|].
  destruct rec as [q r s]. cbn [shr_m shr_r shr_s] in *. subst q. rewrite <- Hrem'. clear Hrem'.
  unfold rne, loc_of_shr_record, round_nearest_even. subst r s.
  destruct (P <=? 2 * rem) eqn:E1, (rem =? 0) eqn:E2, (2 * rem =? P) eqn:E3, (2 * rem <? P) eqn:E4; cbn [negb andb];
    try reflexivity; b2p; lia.
Qed.

Lemma rne_range q rem P : q <= rne q rem P <= q + 1.
Proof. unfold rne. destruct (2 * rem <? P), (2 * rem =? P), (Z.even q); lia. Qed.

Lemma fexp_big d : -1021 <= d -> fexp 53 1024 d = d - 53.
Proof. intros H. unfold fexp, emin. lia. Qed.

(* the result for a positive integer with more than 53 bits *)
Definition norm (mx n : Z) : Z * Z := if mx <? 2 ^ 53 then (mx, n) else (2 ^ 52, n + 1).

Lemma binary_round_big sx p d n mx : d = Z.pos (digits2_pos p) -> 53 < d <= 1023 -> n = d - 53 ->
  mx = rne (Z.pos p / 2 ^ n) (Z.pos p mod 2 ^ n) (2 ^ n) ->
  exists m, binary_round 53 1024 sx p 0 = S754_finite sx m (snd (norm mx n)) /\ Z.pos m = fst (norm mx n)
            /\ 2 ^ 52 <= Z.pos p / 2 ^ n < 2 ^ 53.
Proof.
  intros Ed Hd En Emx. pose proof (digits2_bounds p) as B. rewrite <- Ed in B.
  assert (Hn : 0 < n) by lia.
  assert (HP : 0 < 2 ^ n) by (apply Z.pow_pos_nonneg; lia).
  assert (Hq : 2 ^ 52 <= Z.pos p / 2 ^ n < 2 ^ 53).
  { replace d with (n + 53) in B by lia. replace (n + 53 - 1) with (n + 52) in B by lia.
    rewrite !Z.pow_add_r in B by lia. split.
    - apply Z.div_le_lower_bound; [exact HP|]. lia.
    - apply Z.div_lt_upper_bound; [exact HP|]. lia. }
  unfold binary_round. rewrite Z.add_0_r. rewrite <- Ed. rewrite fexp_big by lia.
  unfold shl_align. replace (d - 53 - 0) with n by lia.
  destruct n as [|np|np]; try lia.
  unfold binary_round_aux. unfold shr_fexp at 1. cbn [Zdigits2]. rewrite <- Ed. rewrite Z.add_0_r, fexp_big by lia.
  replace (d - 53 - 0) with (Z.pos np) by lia.
  cbn [shr_record_of_loc shr]. rewrite iter_pos_nat.
  pose proof (shr_inv_iter (Z.pos p) (Pos.to_nat np) ltac:(lia)) as Inv.
  rewrite positive_nat_Z in Inv.
  destruct (shr_inv_round _ _ _ HP Inv) as [Hm Hround].
  set (rec := niter shr_1 (Pos.to_nat np) _) in *.
  rewrite Hround. rewrite <- Emx. rewrite Z.add_0_l.
  pose proof (rne_range (Z.pos p / 2 ^ Z.pos np) (Z.pos p mod 2 ^ Z.pos np) (2 ^ Z.pos np)) as Hmx. rewrite <- Emx in Hmx.
  clear Emx Inv Hm Hround rec B.
  unfold norm. destruct (mx <? 2 ^ 53) eqn:Elt.
  - apply Z.ltb_lt in Elt. destruct mx as [|pm|pm]; try lia.
    assert (Hdig : Z.pos (digits2_pos pm) = 53) by (apply digits2_unique; lia).
    unfold shr_fexp. cbn [Zdigits2]. rewrite Hdig, fexp_big by lia.
    replace (53 + Z.pos np - 53 - Z.pos np) with 0 by lia. cbn [shr shr_record_of_loc shr_m].
    assert (Hle : Z.pos np <= 1024 - 53) by (clear - En Hd; lia).
    rewrite (proj2 (Z.leb_le _ _) Hle).
    exists pm. cbn [fst snd]. repeat split; lia.
  - apply Z.ltb_ge in Elt. assert (Emx : mx = 2 ^ 53) by lia. rewrite Emx.
    change (2 ^ 53) with (Z.pos (2 ^ 53)%positive).
    unfold shr_fexp. cbn [Zdigits2].
    change (Z.pos (digits2_pos (2 ^ 53)%positive)) with 54. rewrite fexp_big by lia.
    replace (54 + Z.pos np - 53 - Z.pos np) with 1 by lia. cbn [shr shr_record_of_loc SpecFloat.iter_pos].
    change (shr_1 {| shr_m := Z.pos (2 ^ 53); shr_r := false; shr_s := false |})
      with {| shr_m := Z.pos (2 ^ 52); shr_r := false; shr_s := false |}.
    cbn [shr_m]. assert (Hle : Z.pos np + 1 <= 1024 - 53) by (clear - En Hd; lia).
    rewrite (proj2 (Z.leb_le _ _) Hle).
    exists (2 ^ 52)%positive. cbn [fst snd]. repeat split; lia.
Qed.

Lemma binary_round_aux_exact sx mz ez : Z.pos (digits2_pos mz) = 53 -> -1074 <= ez <= 971 ->
  binary_round_aux 53 1024 sx (Z.pos mz) ez loc_Exact = S754_finite sx mz ez.
Proof.
  intros Hdig He. unfold binary_round_aux, shr_fexp. cbn [Zdigits2]. rewrite Hdig, fexp_big by lia.
  replace (53 + ez - 53 - ez) with 0 by lia. cbn [shr shr_record_of_loc shr_m loc_of_shr_record round_nearest_even].
  cbn [Zdigits2]. rewrite Hdig, fexp_big by lia.
  replace (53 + ez - 53 - ez) with 0 by lia. cbn [shr shr_m].
  assert (Hle : ez <= 1024 - 53) by lia. rewrite (proj2 (Z.leb_le _ _) Hle). reflexivity.
Qed.

Lemma binary_round_small sx p d : d = Z.pos (digits2_pos p) -> d <= 53 ->
  exists m, binary_round 53 1024 sx p 0 = S754_finite sx m (d - 53) /\ Z.pos m = Z.pos p * 2 ^ (53 - d).
Proof.
  intros Ed Hd. pose proof (digits2_bounds p) as B. rewrite <- Ed in B.
  assert (Hd1 : 1 <= d) by (rewrite Ed; lia).
  unfold binary_round. rewrite Z.add_0_r, <- Ed, fexp_big by lia.
  unfold shl_align. destruct (d - 53 - 0) as [|k|k] eqn:Ek; try lia.
  - assert (E53 : d = 53) by lia. rewrite binary_round_aux_exact by lia.
    exists p. rewrite E53. split; [reflexivity|]. change (2 ^ (53 - 53)) with 1. lia.
  - assert (Hm : Z.pos (shift_pos k p) = Z.pos p * 2 ^ (53 - d)).
    { rewrite shift_pos_correct.
      rewrite Z.pow_pos_fold. replace (53 - d) with (Z.pos k) by lia. lia. }
    assert (Hpow : 2 ^ (53 - d) * 2 ^ (d - 1) = 2 ^ 52 /\ 2 ^ (53 - d) * 2 ^ d = 2 ^ 53).
    { rewrite <- !Z.pow_add_r by lia. split; f_equal; lia. }
    assert (Hpos : 0 < 2 ^ (53 - d)) by (apply Z.pow_pos_nonneg; lia).
    assert (Hdig : Z.pos (digits2_pos (shift_pos k p)) = 53).
    { apply digits2_unique. rewrite Hm. change (53 - 1) with 52. nia. }
    rewrite binary_round_aux_exact by (try exact Hdig; lia).
    exists (shift_pos k p). split; [reflexivity|exact Hm].
Qed.

(* exponent and mantissa of the double nearest to a positive integer *)
Definition zfl (p : positive) : Z * Z :=
  let d := Z.pos (digits2_pos p) in
  if d <=? 53 then (d - 53, Z.pos p * 2 ^ (53 - d))
  else let n := d - 53 in
       let r := norm (rne (Z.pos p / 2 ^ n) (Z.pos p mod 2 ^ n) (2 ^ n)) n in (snd r, fst r).

Lemma binary_round_zfl sx p : Z.pos (digits2_pos p) <= 1023 ->
  exists m, binary_round 53 1024 sx p 0 = S754_finite sx m (fst (zfl p)) /\ Z.pos m = snd (zfl p).
Proof.
  intros Hd. unfold zfl. destruct (Z.pos (digits2_pos p) <=? 53) eqn:E.
  - apply Z.leb_le in E. destruct (binary_round_small sx p _ eq_refl E) as [m [H1 H2]].
    exists m. split; assumption.
  - apply Z.leb_gt in E.
    destruct (binary_round_big sx p _ _ _ eq_refl (conj E Hd) eq_refl eq_refl) as [m [H1 [H2 _]]].
    exists m. split; assumption.
Qed.

Definition lexle (a b : Z * Z) : Prop := fst a < fst b \/ (fst a = fst b /\ snd a <= snd b).

Lemma digits_mono x y : (x <= y)%positive -> Z.pos (digits2_pos x) <= Z.pos (digits2_pos y).
Proof.
  intros H. pose proof (digits2_bounds x) as Bx. pose proof (digits2_bounds y) as By.
  destruct (Z_le_gt_dec (Z.pos (digits2_pos x)) (Z.pos (digits2_pos y))) as [Hle|Hgt]; [exact Hle|exfalso].
  assert (2 ^ Z.pos (digits2_pos y) <= 2 ^ (Z.pos (digits2_pos x) - 1)) by (apply Z.pow_le_mono_r; lia).
  lia.
Qed.

Lemma rne_mono qx rx qy ry P : 0 < P -> 0 <= rx < P -> 0 <= ry < P ->
  qx * P + rx <= qy * P + ry -> rne qx rx P <= rne qy ry P.
Proof.
  intros HP Hrx Hry H.
  assert (Hq : qx <= qy) by nia.
  destruct (Z.eq_dec qx qy) as [->|Hne].
  - assert (rx <= ry) by nia. unfold rne.
    destruct (2 * rx <? P) eqn:E1, (2 * rx =? P) eqn:E2, (2 * ry <? P) eqn:E3, (2 * ry =? P) eqn:E4, (Z.even qy); b2p; lia.
  - pose proof (rne_range qx rx P). pose proof (rne_range qy ry P). lia.
Qed.

Lemma zfl_mono x y : (x <= y)%positive -> lexle (zfl x) (zfl y).
Proof.
  intros Hxy. pose proof (digits_mono x y Hxy) as Hd.
  pose proof (digits2_bounds x) as Bx. pose proof (digits2_bounds y) as By.
  unfold zfl, lexle.
  set (dx := Z.pos (digits2_pos x)) in *. set (dy := Z.pos (digits2_pos y)) in *.
  assert (Hdx : 1 <= dx) by (subst dx; lia).
  destruct (dx <=? 53) eqn:Ex, (dy <=? 53) eqn:Ey; b2p; cbn [fst snd]; try lia.
  - (* both small *)
    destruct (Z.eq_dec dx dy) as [E|E]; [right|left; lia]. split; [lia|]. rewrite E.
    apply Z.mul_le_mono_nonneg_r; [apply Z.pow_nonneg; lia|lia].
  - (* x small, y big *)
    left. unfold norm. destruct (_ <? 2 ^ 53); cbn [snd]; lia.
  - (* both big *)
    set (nx := dx - 53). set (ny := dy - 53).
    assert (HPx : 0 < 2 ^ nx) by (apply Z.pow_pos_nonneg; lia).
    assert (HPy : 0 < 2 ^ ny) by (apply Z.pow_pos_nonneg; lia).
    set (qx := Z.pos x / 2 ^ nx). set (rx := Z.pos x mod 2 ^ nx).
    set (qy := Z.pos y / 2 ^ ny). set (ry := Z.pos y mod 2 ^ ny).
    assert (Hqx : 2 ^ 52 <= qx < 2 ^ 53).
    { replace dx with (nx + 53) in Bx by lia. replace (nx + 53 - 1) with (nx + 52) in Bx by lia.
      rewrite !Z.pow_add_r in Bx by lia. split.
      - apply Z.div_le_lower_bound; [exact HPx|]. lia.
      - apply Z.div_lt_upper_bound; [exact HPx|]. lia. }
    assert (Hqy : 2 ^ 52 <= qy < 2 ^ 53).
    { replace dy with (ny + 53) in By by lia. replace (ny + 53 - 1) with (ny + 52) in By by lia.
      rewrite !Z.pow_add_r in By by lia. split.
      - apply Z.div_le_lower_bound; [exact HPy|]. lia.
      - apply Z.div_lt_upper_bound; [exact HPy|]. lia. }
    pose proof (rne_range qx rx (2 ^ nx)) as Rx. pose proof (rne_range qy ry (2 ^ ny)) as Ry.
    destruct (Z.eq_dec dx dy) as [E|E].
    + (* same number of digits *)
      assert (Enn : nx = ny) by lia.
      assert (Hm : rne qx rx (2 ^ nx) <= rne qy ry (2 ^ ny)).
      { rewrite <- Enn. subst qx rx qy ry. rewrite <- Enn. apply rne_mono; [exact HPx| | |].
        - apply Z.mod_pos_bound; exact HPx.
        - apply Z.mod_pos_bound; exact HPx.
        - rewrite !(Z.mul_comm _ (2 ^ nx)), <- !Z.div_mod by lia. lia. }
      unfold norm. rewrite <- Enn in *.
      destruct (rne qx rx (2 ^ nx) <? 2 ^ 53) eqn:Lx, (rne qy ry (2 ^ nx) <? 2 ^ 53) eqn:Ly; b2p; cbn [fst snd]; lia.
    + unfold norm.
      destruct (rne qx rx (2 ^ nx) <? 2 ^ 53) eqn:Lx, (rne qy ry (2 ^ ny) <? 2 ^ 53) eqn:Ly; b2p; cbn [fst snd]; lia.
Qed.

Lemma i64_digits p : Z.pos p <= 2 ^ 63 -> Z.pos (digits2_pos p) <= 1023.
Proof.
  intros H. pose proof (digits2_bounds p) as B.
  destruct (Z_le_gt_dec (Z.pos (digits2_pos p)) 1023) as [Hle|Hgt]; [exact Hle|exfalso].
  assert (2 ^ 64 <= 2 ^ (Z.pos (digits2_pos p) - 1)) by (apply Z.pow_le_mono_r; lia).
  assert (2 ^ 63 < 2 ^ 64) by (apply Z.pow_lt_mono_r; lia). lia.
Qed.

Lemma f_of_Z_form z : in_i64 z = true ->
  match z with
  | 0 => f_of_Z z = S754_zero false
  | Z.pos p => exists m, f_of_Z z = S754_finite false m (fst (zfl p)) /\ Z.pos m = snd (zfl p)
  | Z.neg p => exists m, f_of_Z z = S754_finite true m (fst (zfl p)) /\ Z.pos m = snd (zfl p)
  end.
Proof.
  intros H. apply in_i64_spec in H. unfold i64_min, i64_max in H.
  assert (P63 : 2 ^ 63 = 9223372036854775808) by reflexivity.
  destruct z as [|p|p]; [reflexivity| |]; unfold f_of_Z, binary_normalize, F64.prec, F64.emax;
    apply binary_round_zfl; apply i64_digits; lia.
Qed.

Lemma f_of_Z_not_nan z : in_i64 z = true -> f_is_nan (f_of_Z z) = false.
Proof.
  intros H. pose proof (f_of_Z_form z H) as F. destruct z as [|p|p].
  - rewrite F. reflexivity.
  - destruct F as [m [-> _]]. reflexivity.
  - destruct F as [m [-> _]]. reflexivity.
Qed.

Lemma f_of_Z_mono x y : in_i64 x = true -> in_i64 y = true -> x <= y -> f_ltb (f_of_Z y) (f_of_Z x) = false.
Proof.
  intros Hx Hy Hxy.
  apply f_ltb_false_key; [apply f_of_Z_not_nan; exact Hy|apply f_of_Z_not_nan; exact Hx|].
  pose proof (f_of_Z_form x Hx) as Fx. pose proof (f_of_Z_form y Hy) as Fy.
  destruct x as [|px|px], y as [|py|py]; try lia;
    repeat match goal with
           | H : exists _, _ |- _ => destruct H as [? [? ?]]
           end;
    repeat match goal with H : f_of_Z _ = _ |- _ => rewrite H; clear H end;
    unfold fkey, lt3; try lia.
  - (* both positive *)
    pose proof (zfl_mono px py ltac:(lia)) as M. unfold lexle in M. lia.
  - (* both negative *)
    pose proof (zfl_mono py px ltac:(lia)) as M. unfold lexle in M. lia.
Qed.

(* ================= min / max ================= *)
(* ---- min / max ---- *)
Definition fl (v : value) : f64 := match v with VInt i => f_of_Z i | VFloat f => f | _ => S754_nan end.
Definition good (v : value) : Prop := is_num v = true /\ wf v /\ is_nan_value v = false.
Definition better (sm : bool) (a b : value) : Prop := if sm then num_lt a b else num_lt b a.

Lemma beats_spec sm a b : is_num a = true -> is_num b = true ->
  exists r, beats sm a b = Ok r /\ (r = true <-> better sm a b).
Proof.
  unfold better.
  destruct a as [|x|x| | |], b as [|y|y| | |]; cbn [is_num]; intros Ha Hb; try discriminate;
    cbn [beats as_number bind num_lt num]; eexists; (split; [reflexivity|]); destruct sm;
    try reflexivity; apply Z.ltb_lt.
Qed.


Lemma good_fl v : good v -> f_is_nan (fl v) = false.
Proof.
  intros [Hn [Hw Hnan]]. destruct v as [|f|i| | |]; try discriminate.
  - destruct f; try reflexivity. discriminate.
  - apply f_of_Z_not_nan. exact Hw.
Qed.

Lemma num_lt_irrefl v : ~ num_lt v v.
Proof.
  destruct v as [|f|i| | |]; cbn [num_lt num]; try tauto; [|lia].
  rewrite f_ltb_irrefl. discriminate.
Qed.

Ltac keys :=
  repeat match goal with
         | H : f_ltb ?x ?y = true |- _ => apply f_ltb_key in H; [|assumption|assumption]
         | H : f_ltb ?x ?y = false |- _ => apply f_ltb_false_key in H; [|assumption|assumption]
         end.

Lemma num_lt_trans y a b : good y -> good a -> good b -> num_lt y a -> num_lt a b -> num_lt y b.
Proof.
  intros Gy Ga Gb.
  pose proof (good_fl _ Gy) as Ny. pose proof (good_fl _ Ga) as Na. pose proof (good_fl _ Gb) as Nb.
  destruct Gy as [Hy [Wy _]], Ga as [Ha [Wa _]], Gb as [Hb [Wb _]].
  destruct y as [|fy|iy| | |]; try discriminate; destruct a as [|fa|ia| | |]; try discriminate;
    destruct b as [|fb|ib| | |]; try discriminate; cbn [num_lt num fl wf] in *; intros H1 H2.
  - (* F F F *) keys. apply f_ltb_key; try assumption. unfold lt3 in *.
    destruct (fkey fy) as [[? ?] ?], (fkey fa) as [[? ?] ?], (fkey fb) as [[? ?] ?]. lia.
  - (* F F I *) keys. apply f_ltb_key; try assumption. unfold lt3 in *.
    destruct (fkey fy) as [[? ?] ?], (fkey fa) as [[? ?] ?], (fkey (f_of_Z ib)) as [[? ?] ?]. lia.
  - (* F I F *) keys. apply f_ltb_key; try assumption. unfold lt3 in *.
    destruct (fkey fy) as [[? ?] ?], (fkey (f_of_Z ia)) as [[? ?] ?], (fkey fb) as [[? ?] ?]. lia.
  - (* F I I *) pose proof (f_of_Z_mono ia ib Wa Wb ltac:(lia)) as M.
    pose proof (f_of_Z_not_nan ia Wa) as Nia. pose proof (f_of_Z_not_nan ib Wb) as Nib.
    keys. apply f_ltb_key; try assumption. unfold lt3 in *.
    destruct (fkey fy) as [[? ?] ?], (fkey (f_of_Z ia)) as [[? ?] ?], (fkey (f_of_Z ib)) as [[? ?] ?]. lia.
  - (* I F F *) keys. apply f_ltb_key; try assumption. unfold lt3 in *.
    destruct (fkey (f_of_Z iy)) as [[? ?] ?], (fkey fa) as [[? ?] ?], (fkey fb) as [[? ?] ?]. lia.
  - (* I F I *) destruct (Z.lt_ge_cases iy ib) as [Hlt|Hge]; [exact Hlt|exfalso].
    pose proof (f_of_Z_mono ib iy Wb Wy Hge) as M.
    keys. unfold lt3 in *.
    destruct (fkey (f_of_Z iy)) as [[? ?] ?], (fkey fa) as [[? ?] ?], (fkey (f_of_Z ib)) as [[? ?] ?]. lia.
  - (* I I F *) pose proof (f_of_Z_mono iy ia Wy Wa ltac:(lia)) as M.
    pose proof (f_of_Z_not_nan ia Wa) as Nia. pose proof (f_of_Z_not_nan iy Wy) as Niy.
    keys. apply f_ltb_key; try assumption. unfold lt3 in *.
    destruct (fkey (f_of_Z iy)) as [[? ?] ?], (fkey (f_of_Z ia)) as [[? ?] ?], (fkey fb) as [[? ?] ?]. lia.
  - lia.
Qed.

Lemma better_trans sm y a b : good y -> good a -> good b -> better sm y a -> better sm a b -> better sm y b.
Proof.
  destruct sm; cbn [better]; intros Gy Ga Gb H1 H2.
  - exact (num_lt_trans y a b Gy Ga Gb H1 H2).
  - exact (num_lt_trans b a y Gb Ga Gy H2 H1).
Qed.

Lemma better_irrefl sm v : ~ better sm v v.
Proof. destruct sm; apply num_lt_irrefl. Qed.

(* the loop, started with a candidate *)
Lemma loop_result sm : forall l b, is_num b = true -> forallb is_num l = true ->
  exists r, extremum_loop sm (Some b) l = Ok (Some r) /\ (r = b \/ In r l).
Proof.
  induction l as [|a l IH]; intros b Hb Hl.
  - exists b. split; [reflexivity|left; reflexivity].
  - cbn [forallb] in Hl. apply andb_prop in Hl. destruct Hl as [Ha Hl].
    cbn [extremum_loop]. destruct (beats_spec sm a b Ha Hb) as [bb [Hbb _]]. rewrite Hbb. cbn [bind].
    destruct bb.
    + destruct (IH a Ha Hl) as [r [Hr Hin]]. exists r. split; [exact Hr|]. right. cbn [In]. destruct Hin as [->|Hin]; [left; reflexivity|right; exact Hin].
    + destruct (IH b Hb Hl) as [r [Hr Hin]]. exists r. split; [exact Hr|]. cbn [In]. destruct Hin as [->|Hin]; [left; reflexivity|right; right; exact Hin].
Qed.

Lemma loop_order sm : forall l b seen r, good b -> Forall good seen -> Forall good l ->
  (forall y, In y seen -> ~ better sm y b) ->
  extremum_loop sm (Some b) l = Ok (Some r) ->
  forall y, In y (seen ++ l) -> ~ better sm y r.
Proof.
  induction l as [|a l IH]; intros b seen r Gb Gs Gl Hinv Hr y Hy.
  - cbn [extremum_loop] in Hr. inversion Hr; subst r. rewrite app_nil_r in Hy. apply Hinv. exact Hy.
  - inversion Gl as [|a' l' Ga Gl']; subst a' l'.
    cbn [extremum_loop] in Hr.
    destruct (beats_spec sm a b (proj1 Ga) (proj1 Gb)) as [bb [Hbb Hiff]]. rewrite Hbb in Hr. cbn [bind] in Hr.
    replace (seen ++ a :: l) with ((seen ++ [a]) ++ l) in Hy by (rewrite <- app_assoc; reflexivity).
    assert (Gs' : Forall good (seen ++ [a])) by (apply Forall_app; split; [exact Gs|constructor; [exact Ga|constructor]]).
    destruct bb.
    + apply (IH a (seen ++ [a]) r Ga Gs' Gl'); [|exact Hr|exact Hy].
      intros z Hz Hbet. apply in_app_or in Hz. destruct Hz as [Hz|[Hz|[]]].
      * apply (Hinv z Hz). apply (better_trans sm z a b); try assumption.
        -- rewrite Forall_forall in Gs. apply Gs. exact Hz.
        -- apply Hiff. reflexivity.
      * subst z. exact (better_irrefl sm a Hbet).
    + apply (IH b (seen ++ [a]) r Gb Gs' Gl'); [|exact Hr|exact Hy].
      intros z Hz Hbet. apply in_app_or in Hz. destruct Hz as [Hz|[Hz|[]]].
      * exact (Hinv z Hz Hbet).
      * subst z. apply Hiff in Hbet. discriminate.
Qed.



Lemma loop_type_error sm : forall l b, forallb is_num l = false -> is_num b = true ->
  exists w, extremum_loop sm (Some b) l = Err (EExpectedNumber w).
Proof.
  induction l as [|a l IH]; intros b Hl Hb; [discriminate|].
  cbn [forallb] in Hl. cbn [extremum_loop].
  destruct (is_num a) eqn:Ha.
  - destruct (beats_spec sm a b Ha Hb) as [bb [Hbb _]]. rewrite Hbb. cbn [bind].
    destruct bb; [apply IH; assumption|apply IH; assumption].
  - exists a. destruct a; try discriminate; destruct b; try discriminate; reflexivity.
Qed.

Lemma good_of l : Forall wf l -> forallb is_num l = true -> existsb is_nan_value l = false -> Forall good l.
Proof.
  induction 1 as [|x l Hx Hl IH]; intros Hn Hnan; constructor.
  - cbn [forallb existsb] in *. apply andb_prop in Hn. apply orb_false_elim in Hnan. unfold good. tauto.
  - cbn [forallb existsb] in *. apply andb_prop in Hn. apply orb_false_elim in Hnan. apply IH; tauto.
Qed.

(* the list form: a non-empty list *)
Lemma extremum_list sm x l : (forallb is_num (x :: l) = true -> Forall wf (x :: l)) ->
  let c := bclass (do best <- extremum_loop sm None (x :: l);
                   match best with Some v => Ok v | None => Err (EWrongFunctionArgumentAmount 1 None 0) end) in
  if forallb is_num (x :: l)
  then exists r, c = BVal r /\ In r (x :: l) /\
       (existsb is_nan_value (x :: l) = false -> In r (x :: l) /\ forall y, In y (x :: l) -> ~ better sm y r)
  else c = BType.
Proof.
  intros W c. subst c. destruct (forallb is_num (x :: l)) eqn:E.
  - specialize (W eq_refl). cbn [forallb] in E. apply andb_prop in E. destruct E as [Hx Hl].
    cbn [extremum_loop]. assert (Ex : as_number x = Ok (fl x)) by (destruct x; try discriminate; reflexivity).
    rewrite Ex. cbn [bind].
    destruct (loop_result sm l x Hx Hl) as [r [Hr Hin]]. rewrite Hr. cbn [bind bclass].
    exists r. split; [reflexivity|]. assert (Hin' : In r (x :: l)) by (cbn [In]; destruct Hin as [->|Hin]; tauto).
    split; [exact Hin'|]. intros Hnan. split; [exact Hin'|].
    assert (G : Forall good (x :: l)).
    { apply good_of; [exact W| |exact Hnan]. cbn [forallb]. rewrite Hx, Hl. reflexivity. }
    inversion G as [|x' l' Gx Gl]; subst x' l'.
    intros y Hy. apply (loop_order sm l x [x] r Gx (Forall_cons _ Gx (Forall_nil _)) Gl); [|exact Hr|exact Hy].
    intros z [Hz|[]]. subst z. apply better_irrefl.
  - clear W. cbn [forallb] in E. cbn [extremum_loop].
    destruct (is_num x) eqn:Hx.
    + cbn [andb] in E. assert (Ex : as_number x = Ok (fl x)) by (destruct x; try discriminate; reflexivity).
      rewrite Ex. cbn [bind]. destruct (loop_type_error sm l x E Hx) as [w Hw]. rewrite Hw. reflexivity.
    + destruct x; try discriminate; reflexivity.
Qed.

Definition ext_of (sm : bool) := if sm then is_min else is_max.

Lemma extremum_class sm v : (has_shape ShNums v = true -> wf v) ->
  spec_extremum (ext_of sm) v (bclass (extremum sm v)).
Proof.
  intros W. unfold spec_extremum, extremum.
  destruct v as [|f|i| |l|]; try reflexivity.
  - (* bare float *)
    cbn [arg_list bind]. pose proof (extremum_list sm (VFloat f) [] (fun _ => Forall_cons (VFloat f) (I : wf (VFloat f)) (Forall_nil _))) as H.
    cbn zeta in H. destruct (forallb is_num [VFloat f]) eqn:E; [|discriminate].
    destruct H as [r [Hc [Hin Hord]]]. exists r. split; [exact Hc|]. split; [exact Hin|].
    intros Hnan. specialize (Hord Hnan). destruct sm; exact Hord.
  - cbn [arg_list bind].
    assert (Wi : forallb is_num [VInt i] = true -> Forall wf [VInt i]).
    { intros _. constructor; [apply W; reflexivity|constructor]. }
    pose proof (extremum_list sm (VInt i) [] Wi) as H.
    cbn zeta in H. destruct (forallb is_num [VInt i]) eqn:E; [|discriminate].
    destruct H as [r [Hc [Hin Hord]]]. exists r. split; [exact Hc|]. split; [exact Hin|].
    intros Hnan. specialize (Hord Hnan). destruct sm; exact Hord.
  - cbn [arg_list bind]. destruct l as [|x l]; [reflexivity|].
    assert (Wl : forallb is_num (x :: l) = true -> Forall wf (x :: l)).
    { intros E. apply wf_tuple. apply W. exact E. }
    pose proof (extremum_list sm x l Wl) as H. cbn zeta in H.
    destruct (forallb is_num (x :: l)) eqn:E; [|exact H].
    destruct H as [r [Hc [Hin Hord]]]. exists r. split; [exact Hc|]. split; [exact Hin|].
    intros Hnan. specialize (Hord Hnan). destruct sm; exact Hord.
Qed.


(* ================= names ================= *)
Definition extremum_ok sm v := extremum_class sm v.

(* ---- names ---- *)
Lemma lookup_builtin_in name : forall t f, lookup_builtin name t = Some f ->
  exists n, name = s2l n /\ In (n, f) t.
Proof.
  induction t as [|[n g] t IH]; intros f H; cbn [lookup_builtin] in H; [discriminate|].
  destruct (str_eqb name (s2l n)) eqn:E.
  - inversion H; subst g. apply str_eqb_eq in E. exists n. split; [exact E|left; reflexivity].
  - destruct (IH f H) as [n' [H1 H2]]. exists n'. split; [exact H1|right; exact H2].
Qed.

Lemma str_eqb_refl s : str_eqb s s = true.
Proof. apply str_eqb_eq. reflexivity. Qed.

Lemma lookup_builtin_some n : forall t, In n (map fst t) -> exists f, lookup_builtin (s2l n) t = Some f.
Proof.
  induction t as [|[n' g] t IH]; intros H; cbn [map In fst lookup_builtin] in *; [contradiction|].
  destruct (str_eqb (s2l n) (s2l n')) eqn:E; [eexists; reflexivity|].
  destruct H as [H|H]; [subst n'; rewrite str_eqb_refl in E; discriminate|]. apply IH. exact H.
Qed.

Definition mem (n : string) (l : list string) : bool := existsb (String.eqb n) l.
Lemma mem_in n l : mem n l = true <-> In n l.
Proof.
  unfold mem. rewrite existsb_exists. split.
  - intros [x [Hx E]]. apply String.eqb_eq in E. subst x. exact Hx.
  - intros H. exists n. split; [exact H|apply String.eqb_refl].
Qed.
Lemma subset_check a b : forallb (fun n => mem n b) a = true -> forall n, In n a -> In n b.
Proof. intros H n Hn. rewrite forallb_forall in H. apply mem_in. apply H. exact Hn. Qed.

Section WithOracle.
Variable O : std_oracle.

Lemma table_names : map fst (builtin_table O) =
  [ "math::ln"; "math::log"; "math::log2"; "math::log10"; "math::exp"; "math::exp2"; "math::pow";
    "math::cos"; "math::acos"; "math::cosh"; "math::acosh"; "math::sin"; "math::asin"; "math::sinh"; "math::asinh";
    "math::tan"; "math::atan"; "math::tanh"; "math::atanh"; "math::atan2"; "math::sqrt"; "math::cbrt"; "math::hypot";
    "floor"; "round"; "ceil"; "math::is_nan"; "math::is_finite"; "math::is_infinite"; "math::is_normal";
    "math::abs"; "typeof"; "min"; "max"; "if"; "contains"; "contains_any"; "len";
    "str::to_lowercase"; "str::to_uppercase"; "str::trim"; "str::from"; "str::substring";
    "bitand"; "bitor"; "bitxor"; "bitnot"; "shl"; "shr" ]%string.
Proof. reflexivity. Qed.

Lemma names_iff name :
  (exists f, builtin_function O name = Some f) <-> In name (map s2l documented_names).
Proof.
  split.
  - intros [f H]. destruct (lookup_builtin_in name _ f H) as [n [-> Hin]].
    apply in_map. apply (in_map fst) in Hin. cbn [fst] in Hin. rewrite table_names in Hin.
    clear H. revert n Hin. apply subset_check. vm_compute. reflexivity.
  - intros H. apply in_map_iff in H. destruct H as [n [<- Hn]].
    apply lookup_builtin_some. rewrite table_names. revert n Hn. apply subset_check. vm_compute. reflexivity.
Qed.

Lemma spec_names : map (fun r => fst (fst r)) (spec_table O) = documented_names.
Proof. reflexivity. Qed.

Lemma absent_names n : In n Gen.BuiltinNames.probed_absent_names -> builtin_function O (s2l n) = None.
Proof.
  intros H.
  assert (A : forallb (fun n => match lookup_builtin (s2l n) (map (fun m => (m, fun v : value => Ok v)) documented_names) with
                               | None => true | Some _ => false end) Gen.BuiltinNames.probed_absent_names = true) by (vm_compute; reflexivity).
  rewrite forallb_forall in A. specialize (A n H).
  destruct (builtin_function O (s2l n)) as [f|] eqn:E; [|reflexivity]. exfalso.
  assert (Hin : In (s2l n) (map s2l documented_names)) by (apply names_iff; exists f; exact E).
  apply in_map_iff in Hin. destruct Hin as [m [Hm Hd]].
  assert (L : exists g, lookup_builtin (s2l n) (map (fun m => (m, fun v : value => Ok v)) documented_names) = Some g).
  { rewrite <- Hm. apply lookup_builtin_some. rewrite map_map. cbn [fst]. rewrite map_id. exact Hd. }
  destruct L as [g Hg]. rewrite Hg in A. discriminate.
Qed.

End WithOracle.

Lemma impl_names n : In n Gen.BuiltinNames.impl_builtin_names <-> In n documented_names.
Proof. split; revert n; apply subset_check; vm_compute; reflexivity. Qed.

(* ================= the whole table ================= *)
(* ---- the reference is consistent with the documented shapes ---- *)
Definition shape_consistent (sh : shape) (R : value -> bcls -> Prop) : Prop :=
  forall v c, R v c ->
    (has_shape sh v = false -> c = BType \/ c = BArity \/ (sh = ShSubstring /\ c = BBounds)) /\
    (has_shape sh v = true -> c <> BType /\ c <> BArity).

Ltac sc_start := intros v c HR; unfold fn in HR; try subst c.
Ltac sc_done := split; intros Hs; try discriminate; first [left; reflexivity | right; left; reflexivity | split; discriminate].

Lemma sc_num {A} (res : A -> value) g : shape_consistent ShNum (fn (on_num res g)).
Proof. sc_start. destruct v; cbn; sc_done. Qed.

Lemma sc_num2 g : shape_consistent ShNum2 (fn (on_num2 g)).
Proof.
  sc_start. destruct v as [| | | |l|]; try (cbn; sc_done).
  destruct l as [|a [|b [|x l]]]; try (cbn; sc_done).
  destruct a, b; cbn; sc_done.
Qed.

Lemma sc_abs : shape_consistent ShNum (fn spec_abs).
Proof. sc_start. destruct v; cbn; try sc_done. destruct (i =? i64_min); sc_done. Qed.

Lemma sc_typeof : shape_consistent ShAny (fn spec_typeof).
Proof. sc_start. cbn. sc_done. Qed.
Lemma sc_str_from O : shape_consistent ShAny (fn (spec_str_from O)).
Proof. sc_start. cbn. sc_done. Qed.

Lemma sc_len : shape_consistent ShStrOrTuple (fn spec_len).
Proof. sc_start. destruct v; cbn; sc_done. Qed.

Lemma sc_if : shape_consistent ShIf (fn spec_if).
Proof.
  sc_start. destruct v as [| | | |l|]; try (cbn; sc_done).
  destruct l as [|a [|b [|x [|y l]]]]; try (cbn; sc_done); destruct a; cbn; sc_done.
Qed.

Lemma sc_str g : shape_consistent ShStr (fn (on_str g)).
Proof. sc_start. destruct v; cbn; sc_done. Qed.

Lemma sc_trim : shape_consistent ShStr spec_trim.
Proof.
  sc_start. destruct v; cbn in *; try (subst c; sc_done).
  destruct HR as [r [-> _]]. sc_done.
Qed.

Lemma sc_int g : shape_consistent ShInt (fn (on_int g)).
Proof. sc_start. destruct v; cbn; sc_done. Qed.

Lemma sc_int2 (g : Z -> Z -> bcls -> Prop) : (forall a b c, g a b c -> exists r, c = BVal r) -> shape_consistent ShInt2 (on_int2 g).
Proof.
  intros Hg. sc_start. unfold on_int2 in HR.
  destruct v as [| | | |l|]; try (subst c; cbn; sc_done).
  destruct l as [|a [|b [|x l]]]; try (subst c; cbn; sc_done).
  - destruct a; subst c; cbn; sc_done.
  - destruct a; try (subst c; cbn; sc_done). destruct b; try (subst c; cbn; sc_done).
    destruct (Hg _ _ _ HR) as [r ->]. cbn. sc_done.
  - destruct a; try (subst c; cbn; sc_done). destruct b; subst c; cbn; sc_done.
Qed.

Lemma sc_exactly g : shape_consistent ShInt2 (on_int2 (exactly g)).
Proof. apply sc_int2. intros a b c H. eexists; exact H. Qed.
Lemma sc_shl : shape_consistent ShInt2 (on_int2 spec_shl).
Proof.
  apply sc_int2. intros a b c H. unfold spec_shl in H.
  destruct ((0 <=? b) && (b <=? 63)); [eexists; exact H|]. destruct H as [r ->]. eexists; reflexivity.
Qed.
Lemma sc_shr : shape_consistent ShInt2 (on_int2 spec_shr).
Proof.
  apply sc_int2. intros a b c H. unfold spec_shr in H.
  destruct ((0 <=? b) && (b <=? 63)); [eexists; exact H|]. destruct H as [r ->]. eexists; reflexivity.
Qed.

Lemma sc_contains : shape_consistent ShContains spec_contains.
Proof.
  sc_start. unfold spec_contains in HR.
  destruct v as [| | | |l|]; try (subst c; cbn; sc_done).
  destruct l as [|a [|b [|x l]]]; try (subst c; cbn; sc_done).
  - destruct a; subst c; cbn; sc_done.
  - destruct a; try (subst c; cbn; sc_done). cbn [has_shape].
    destruct (prim b); [destruct HR as [r [-> _]]|subst c]; sc_done.
  - destruct a; subst c; cbn; sc_done.
Qed.

Lemma sc_contains_any : shape_consistent ShContainsAny spec_contains_any.
Proof.
  sc_start. unfold spec_contains_any in HR.
  destruct v as [| | | |l|]; try (subst c; cbn; sc_done).
  destruct l as [|a [|b [|x l]]]; try (subst c; cbn; sc_done).
  - destruct a; subst c; cbn; sc_done.
  - destruct a; try (subst c; cbn; sc_done). destruct b; try (subst c; cbn; sc_done). cbn [has_shape].
    destruct (forallb prim l0); [destruct HR as [r [-> _]]|subst c]; sc_done.
  - destruct a; try (subst c; cbn; sc_done). destruct b; subst c; cbn; sc_done.
Qed.

Lemma sc_extremum ext : shape_consistent ShNums (spec_extremum ext).
Proof.
  sc_start. unfold spec_extremum in HR.
  destruct v as [|f|i| |l|]; cbn [arg_list] in HR; try (subst c; cbn; sc_done).
  - cbn [forallb is_num andb] in HR. destruct HR as [r [-> _]]. cbn. sc_done.
  - cbn [forallb is_num andb] in HR. destruct HR as [r [-> _]]. cbn. sc_done.
  - destruct l as [|x l]; [subst c; cbn; sc_done|]. cbn [has_shape].
    destruct (forallb is_num (x :: l)); [destruct HR as [r [-> _]]|subst c]; sc_done.
Qed.

Lemma sc_substring : shape_consistent ShSubstring spec_substring.
Proof.
  sc_start. unfold spec_substring in HR.
  assert (Hsub : forall s a b, spec_sub s a b c -> c <> BType /\ c <> BArity).
  { intros s a b [[r [_ ->]]|[_ ->]]; split; discriminate. }
  destruct v as [| | | |l|]; try (subst c; cbn; sc_done).
  destruct l as [|x [|y [|z [|w l]]]]; try (subst c; cbn; sc_done).
  - destruct x; subst c; cbn; sc_done.
  - destruct x; try (subst c; cbn; sc_done). destruct y; try (subst c; cbn; sc_done).
    cbn [has_shape]. split; intros Hs; [discriminate|]. exact (Hsub _ _ _ HR).
  - destruct x; try (subst c; cbn; sc_done); try (destruct y; subst c; cbn; sc_done).
    destruct y; try (subst c; cbn; sc_done).
    destruct z; cbn [has_shape];
      try (split; intros Hs; [|discriminate]; destruct HR as [->|[_ ->]]; [left; reflexivity|right; right; split; reflexivity]).
    split; intros Hs; [discriminate|]. exact (Hsub _ _ _ HR).
  - destruct x; try (subst c; cbn; sc_done). destruct y; try (subst c; cbn; sc_done). destruct z; subst c; cbn; sc_done.
Qed.

Section WithOracle.
Variable O : std_oracle.

Lemma spec_table_consistent :
  Forall (fun r => shape_consistent (snd (fst r)) (snd r)) (spec_table O).
Proof.
  unfold spec_table.
  repeat (constructor; [cbn [fst snd];
    first [ apply sc_num | apply sc_num2 | apply sc_abs | apply sc_typeof | apply sc_str_from | apply sc_len
          | apply sc_if | apply sc_str | apply sc_trim | apply sc_int | apply sc_exactly | apply sc_shl | apply sc_shr
          | apply sc_contains | apply sc_contains_any | apply sc_extremum | apply sc_substring ]|]).
  constructor.
Qed.

Lemma spec_lookup_in name : forall t sh R, spec_lookup name t = Some (sh, R) ->
  exists n, name = s2l n /\ In (n, sh, R) t.
Proof.
  induction t as [|[[n sh'] R'] t IH]; intros sh R H; cbn [spec_lookup] in H; [discriminate|].
  destruct (str_eqb name (s2l n)) eqn:E.
  - inversion H; subst. apply str_eqb_eq in E. exists n. split; [exact E|left; reflexivity].
  - destruct (IH sh R H) as [n' [H1 H2]]. exists n'. split; [exact H1|right; exact H2].
Qed.

Lemma spec_of_consistent name sh R : spec_of O name = Some (sh, R) -> shape_consistent sh R.
Proof.
  intros H. destruct (spec_lookup_in name _ sh R H) as [n [_ Hin]].
  pose proof spec_table_consistent as F. rewrite Forall_forall in F. exact (F _ Hin).
Qed.

(* ---- every builtin against its row ---- *)
Lemma math1_class g v : bclass (simple_math1 g v) = math1 g v.
Proof. destruct v; reflexivity. Qed.

Lemma abs_class' v : (has_shape ShNum v = true -> wf v) -> bclass (b_abs v) = spec_abs v.
Proof.
  intros W. destruct v; try reflexivity. apply abs_class. apply W. reflexivity.
Qed.

Lemma builtin_spec name f : builtin_function O name = Some f ->
  exists sh R, spec_of O name = Some (sh, R) /\
    forall v, (has_shape sh v = true -> wf v) -> R v (bclass (f v)).
Proof.
  intros H. destruct (lookup_builtin_in name _ f H) as [n [-> Hin]]. clear H.
  unfold builtin_table in Hin. cbn [In] in Hin.
  repeat (destruct Hin as [Hin|Hin]; [inversion Hin; subst n f; clear Hin;
    do 2 eexists; (split; [reflexivity|]); intros v W; unfold fn;
    first [ apply math1_class | apply math2_class | apply float_is_class | apply abs_class'; exact W
          | apply typeof_class | apply (extremum_ok true); exact W | apply (extremum_ok false); exact W
          | apply if_class | apply contains_class | apply contains_any_class | apply len_class
          | apply lower_class | apply upper_class | apply trim_class | apply str_from_class
          | apply substring_class | apply int2_exact | apply int1_class | apply shl_class | apply shr_class ] |]).
  contradiction.
Qed.

Lemma builtin_spec_wf name f : builtin_function O name = Some f ->
  exists sh R, spec_of O name = Some (sh, R) /\ forall v, wf v -> R v (bclass (f v)).
Proof.
  intros H. destruct (builtin_spec name f H) as [sh [R [H1 H2]]]. exists sh, R. split; [exact H1|].
  intros v W. apply H2. intros _. exact W.
Qed.

Lemma wrong_shape name f sh R v : builtin_function O name = Some f -> spec_of O name = Some (sh, R) ->
  has_shape sh v = false ->
  bclass (f v) = BType \/ bclass (f v) = BArity \/ (sh = ShSubstring /\ bclass (f v) = BBounds).
Proof.
  intros Hf Hs Hv. destruct (builtin_spec name f Hf) as [sh' [R' [H1 H2]]].
  rewrite Hs in H1. inversion H1; subst sh' R'.
  assert (HR : R v (bclass (f v))) by (apply H2; intros E; rewrite Hv in E; discriminate).
  exact (proj1 (spec_of_consistent name sh R Hs v _ HR) Hv).
Qed.

Lemma right_shape name f sh R v : builtin_function O name = Some f -> spec_of O name = Some (sh, R) ->
  has_shape sh v = true -> wf v -> bclass (f v) <> BType /\ bclass (f v) <> BArity.
Proof.
  intros Hf Hs Hv W. destruct (builtin_spec name f Hf) as [sh' [R' [H1 H2]]].
  rewrite Hs in H1. inversion H1; subst sh' R'.
  assert (HR : R v (bclass (f v))) by (apply H2; intros _; exact W).
  exact (proj2 (spec_of_consistent name sh R Hs v _ HR) Hv).
Qed.

End WithOracle.

(* ================= statements quoted by Props/C10.v ================= *)
Section WithOracle.
Variable O : std_oracle.

Lemma call_eq (name : string) f (v : value) c :
  builtin_function O (s2l name) = Some f -> bclass (f v) = c ->
  option_map (fun f => bclass (f v)) (builtin_function O (s2l name)) = Some c.
Proof. intros H1 H2. rewrite H1. cbn [option_map]. rewrite H2. reflexivity. Qed.

Open Scope string_scope.
Ltac by_call lem := eapply call_eq; [reflexivity|apply lem].

Lemma p_math1 (v : value) :
  let call (name : string) := option_map (fun f => bclass (f v)) (builtin_function O (s2l name)) in
  call "math::ln" = Some (math1 (o_math1 O MLn) v) /\
  call "math::log2" = Some (math1 (o_math1 O MLog2) v) /\
  call "math::log10" = Some (math1 (o_math1 O MLog10) v) /\
  call "math::exp" = Some (math1 (o_math1 O MExp) v) /\
  call "math::exp2" = Some (math1 (o_math1 O MExp2) v) /\
  call "math::cos" = Some (math1 (o_math1 O MCos) v) /\
  call "math::acos" = Some (math1 (o_math1 O MAcos) v) /\
  call "math::cosh" = Some (math1 (o_math1 O MCosh) v) /\
  call "math::acosh" = Some (math1 (o_math1 O MAcosh) v) /\
  call "math::sin" = Some (math1 (o_math1 O MSin) v) /\
  call "math::asin" = Some (math1 (o_math1 O MAsin) v) /\
  call "math::sinh" = Some (math1 (o_math1 O MSinh) v) /\
  call "math::asinh" = Some (math1 (o_math1 O MAsinh) v) /\
  call "math::tan" = Some (math1 (o_math1 O MTan) v) /\
  call "math::atan" = Some (math1 (o_math1 O MAtan) v) /\
  call "math::tanh" = Some (math1 (o_math1 O MTanh) v) /\
  call "math::atanh" = Some (math1 (o_math1 O MAtanh) v) /\
  call "math::cbrt" = Some (math1 (o_math1 O MCbrt) v) /\
  call "math::sqrt" = Some (math1 f_sqrt v).
Proof. intros call. subst call. repeat split; by_call math1_class. Qed.

Lemma p_math2 (v : value) :
  let call (name : string) := option_map (fun f => bclass (f v)) (builtin_function O (s2l name)) in
  call "math::log" = Some (on_num2 (fun x base => o_math2 O MLog x base) v) /\
  call "math::pow" = Some (on_num2 (fun x y => o_math2 O MPow x y) v) /\
  call "math::atan2" = Some (on_num2 (fun y x => o_math2 O MAtan2 y x) v) /\
  call "math::hypot" = Some (on_num2 (fun a b => o_math2 O MHypot a b) v).
Proof. intros call. subst call. repeat split; by_call math2_class. Qed.

Lemma p_rounding (v : value) :
  let call (name : string) := option_map (fun f => bclass (f v)) (builtin_function O (s2l name)) in
  call "floor" = Some (math1 f_floor v) /\
  call "ceil" = Some (math1 f_ceil v) /\
  call "round" = Some (math1 f_round v).
Proof. intros call. subst call. repeat split; by_call math1_class. Qed.

Lemma p_float_predicates (v : value) :
  let call (name : string) := option_map (fun f => bclass (f v)) (builtin_function O (s2l name)) in
  call "math::is_nan" = Some (float_pred f_is_nan v) /\
  call "math::is_finite" = Some (float_pred f_is_finite v) /\
  call "math::is_infinite" = Some (float_pred f_is_infinite v) /\
  call "math::is_normal" = Some (float_pred f_is_normal v).
Proof. intros call. subst call. repeat split; by_call float_is_class. Qed.

Lemma p_abs (v : value) : wf v ->
  option_map (fun f => bclass (f v)) (builtin_function O (s2l "math::abs")) = Some (spec_abs v).
Proof. intros W. eapply call_eq; [reflexivity|apply abs_class; exact W]. Qed.

Lemma p_bitops (v : value) :
  let call (name : string) := option_map (fun f => bclass (f v)) (builtin_function O (s2l name)) in
  let both_ints (g : Z -> Z -> Z) := match v with VTuple [VInt a; VInt b] => BVal (VInt (g a b)) | _ => BType end in
  call "bitand" = Some (both_ints Z.land) /\
  call "bitor" = Some (both_ints Z.lor) /\
  call "bitxor" = Some (both_ints Z.lxor) /\
  call "bitnot" = Some (on_int Z.lnot v).
Proof.
  intros call both. subst call both. repeat split; first [by_call int2_class | by_call int1_class].
Qed.

Lemma p_shifts (a n : Z) :
  let call (name : string) :=
    option_map (fun f => bclass (f (VTuple [VInt a; VInt n]))) (builtin_function O (s2l name)) in
  (0 <= n <= 63 ->
     call "shl" = Some (BVal (VInt (wrap64 (a * 2 ^ n)))) /\ call "shr" = Some (BVal (VInt (a / 2 ^ n)))) /\
  (exists r, call "shl" = Some (BVal (VInt r))) /\ (exists r, call "shr" = Some (BVal (VInt r))).
Proof.
  intros call. subst call. split; [intros Hn; split|split].
  - eapply call_eq; [reflexivity|]. rewrite int2_class, shl_exact by exact Hn. reflexivity.
  - eapply call_eq; [reflexivity|]. rewrite int2_class, shr_exact by exact Hn. reflexivity.
  - eexists. eapply call_eq; [reflexivity|]. rewrite int2_class. reflexivity.
  - eexists. eapply call_eq; [reflexivity|]. rewrite int2_class. reflexivity.
Qed.

Lemma p_shift_rel (v : value) f_shl f_shr :
  builtin_function O (s2l "shl") = Some f_shl -> builtin_function O (s2l "shr") = Some f_shr ->
  on_int2 spec_shl v (bclass (f_shl v)) /\ on_int2 spec_shr v (bclass (f_shr v)).
Proof.
  intros H1 H2. inversion H1; subst f_shl. inversion H2; subst f_shr. split; [apply shl_class|apply shr_class].
Qed.

Lemma p_wrap64 (z : Z) : wraps_to z (wrap64 z) /\ forall r, wraps_to z r -> r = wrap64 z.
Proof. split; [apply wrap64_wraps|]. intros r H. exact (wraps_unique z r _ H (wrap64_wraps z)). Qed.

Lemma p_typeof (v : value) :
  option_map (fun f => bclass (f v)) (builtin_function O (s2l "typeof")) = Some (spec_typeof v).
Proof. by_call typeof_class. Qed.

Lemma p_if (v : value) :
  option_map (fun f => bclass (f v)) (builtin_function O (s2l "if")) = Some (spec_if v).
Proof. by_call if_class. Qed.

Lemma p_len (v : value) :
  option_map (fun f => bclass (f v)) (builtin_function O (s2l "len")) = Some (spec_len v).
Proof. by_call len_class. Qed.

Lemma p_str_from (v : value) :
  option_map (fun f => bclass (f v)) (builtin_function O (s2l "str::from")) = Some (spec_str_from O v).
Proof. by_call str_from_class. Qed.

Lemma p_str_case (v : value) :
  let call (name : string) := option_map (fun f => bclass (f v)) (builtin_function O (s2l name)) in
  call "str::to_lowercase" = Some (on_str (o_to_lowercase O) v) /\
  call "str::to_uppercase" = Some (on_str (o_to_uppercase O) v).
Proof. intros call. subst call. split; [by_call lower_class|by_call upper_class]. Qed.

Lemma p_trim_unique (s r : str) : trimmed s r <-> r = trim s.
Proof. split; [apply trimmed_unique|intros ->; apply trimmed_trim]. Qed.

Lemma p_contains (v : value) f :
  builtin_function O (s2l "contains") = Some f -> spec_contains v (bclass (f v)).
Proof. intros Hf. inversion Hf; subst f. apply contains_class. Qed.

Lemma p_contains_any (v : value) f :
  builtin_function O (s2l "contains_any") = Some f -> spec_contains_any v (bclass (f v)).
Proof. intros Hf. inversion Hf; subst f. apply contains_any_class. Qed.

Lemma p_trim (v : value) f :
  builtin_function O (s2l "str::trim") = Some f -> spec_trim v (bclass (f v)).
Proof. intros Hf. inversion Hf; subst f. apply trim_class. Qed.

Lemma p_substring (v : value) f :
  builtin_function O (s2l "str::substring") = Some f -> spec_substring v (bclass (f v)).
Proof. intros Hf. inversion Hf; subst f. apply substring_class. Qed.

Lemma p_substring_range (s : str) (a b : Z) :
  ((exists r, byte_range s a b r) <->
   0 <= a <= b /\ b <= Z.of_N (byte_len s) /\ is_boundary s a /\ is_boundary s b) /\
  (forall r r', byte_range s a b r -> byte_range s a b r' -> r = r') /\
  (forall r, byte_range s a b r -> Z.of_N (byte_len r) = b - a).
Proof.
  split; [split|split].
  - intros [r Hr]. pose proof (byte_range_bounds s a b r Hr). tauto.
  - intros [H1 [H2 [H3 H4]]]. apply byte_range_exists; [lia|exact H3|exact H4].
  - intros r r'. apply byte_range_unique.
  - intros r Hr. pose proof (byte_range_bounds s a b r Hr). tauto.
Qed.

Lemma bclass_val r v : bclass r = BVal v <-> r = Ok v.
Proof.
  split; [|intros ->; reflexivity]. destruct r as [w|e|p]; cbn [bclass].
  - intros H. inversion H. reflexivity.
  - destruct e; try discriminate; cbn; repeat match goal with |- context [if ?b then _ else _] => destruct b end; discriminate.
  - discriminate.
Qed.

Lemma p_same_unit f_len f_sub :
  builtin_function O (s2l "len") = Some f_len -> builtin_function O (s2l "str::substring") = Some f_sub ->
  (forall s n, f_len (VString s) = Ok (VInt n) -> f_sub (VTuple [VString s; VInt 0; VInt n]) = Ok (VString s)) /\
  (forall s a b r, f_sub (VTuple [VString s; VInt a; VInt b]) = Ok r ->
     exists t, r = VString t /\ f_len r = Ok (VInt (b - a))).
Proof.
  intros H1 H2. inversion H1; subst f_len. inversion H2; subst f_sub. split.
  - intros s n Hn. cbn [b_len] in Hn. inversion Hn; subst n.
    pose proof (substring_class (VTuple [VString s; VInt 0; VInt (Z.of_N (byte_len s))])) as H.
    cbn [spec_substring] in H. destruct H as [[r [Hr Hc]]|[Hno _]].
    + apply bclass_val in Hc. rewrite Hc. do 2 f_equal.
      apply (byte_range_unique s 0 (Z.of_N (byte_len s)) r s Hr).
      exists [], []. rewrite app_nil_r. repeat split.
    + exfalso. apply (Hno s). exists [], []. rewrite app_nil_r. repeat split.
  - intros s a b r Hr.
    pose proof (substring_class (VTuple [VString s; VInt a; VInt b])) as H. rewrite Hr in H.
    cbn [spec_substring bclass] in H. destruct H as [[t [Ht Hc]]|[_ Hc]]; [|discriminate].
    inversion Hc; subst r. exists t. split; [reflexivity|]. cbn [b_len].
    pose proof (byte_range_bounds s a b t Ht) as B. do 2 f_equal. tauto.
Qed.

(* min / max *)
Lemma p_minmax f_min f_max :
  builtin_function O (s2l "min") = Some f_min -> builtin_function O (s2l "max") = Some f_max ->
  forall v, wf v ->
    spec_extremum is_min v (bclass (f_min v)) /\ spec_extremum is_max v (bclass (f_max v)).
Proof.
  intros H1 H2 v W. inversion H1; subst f_min. inversion H2; subst f_max.
  split; [apply (extremum_ok true)|apply (extremum_ok false)]; intros _; exact W.
Qed.

Lemma p_minmax_list f_min f_max (l : list value) :
  builtin_function O (s2l "min") = Some f_min -> builtin_function O (s2l "max") = Some f_max ->
  l <> [] -> Forall wf l -> forallb is_num l = true -> existsb is_nan_value l = false ->
  (exists r, f_min (VTuple l) = Ok r /\ In r l /\ forall y, In y l -> ~ num_lt y r) /\
  (exists r, f_max (VTuple l) = Ok r /\ In r l /\ forall y, In y l -> ~ num_lt r y).
Proof.
  intros H1 H2 Hne W Hn Hnan.
  assert (Wt : wf (VTuple l)) by (apply wf_tuple; exact W).
  destruct (p_minmax f_min f_max H1 H2 (VTuple l) Wt) as [Hmin Hmax].
  unfold spec_extremum in Hmin, Hmax. cbn [arg_list] in Hmin, Hmax.
  destruct l as [|x l]; [contradiction|]. rewrite Hn in Hmin, Hmax.
  destruct Hmin as [r [Hc [Hin Hord]]]. destruct Hmax as [r' [Hc' [Hin' Hord']]].
  apply bclass_val in Hc, Hc'. split.
  - exists r. split; [exact Hc|]. exact (Hord Hnan).
  - exists r'. split; [exact Hc'|]. exact (Hord' Hnan).
Qed.

Lemma p_minmax_single f_min f_max (n : value) :
  builtin_function O (s2l "min") = Some f_min -> builtin_function O (s2l "max") = Some f_max ->
  is_num n = true -> f_min n = Ok n /\ f_max n = Ok n.
Proof.
  intros H1 H2 Hn. inversion H1; subst f_min. inversion H2; subst f_max.
  destruct n; try discriminate; split; reflexivity.
Qed.

Lemma p_minmax_errors f (name : string) :
  name = "min" \/ name = "max" -> builtin_function O (s2l name) = Some f ->
  bclass (f (VTuple [])) = BArity /\
  (forall l, forallb is_num l = false -> bclass (f (VTuple l)) = BType) /\
  (forall v, arg_list v = None -> bclass (f v) = BType).
Proof.
  intros Hname Hf.
  assert (E : exists sm, f = extremum sm).
  { destruct Hname; subst name; inversion Hf; [exists true|exists false]; reflexivity. }
  destruct E as [sm ->]. clear Hf. split; [reflexivity|split].
  - intros l Hl.
    assert (Sh : has_shape ShNums (VTuple l) = true -> wf (VTuple l)).
    { cbn [has_shape]. destruct l; [discriminate|]. rewrite Hl. discriminate. }
    pose proof (extremum_ok sm (VTuple l) Sh) as H. unfold spec_extremum in H. cbn [arg_list] in H.
    destruct l as [|x l]; [discriminate|]. rewrite Hl in H. exact H.
  - intros v Hv. destruct v; try discriminate; reflexivity.
Qed.

(* num_lt is the language's own `<` on numbers *)
Lemma p_num_lt (a b : value) (c : ctx) (lg : log) : is_num a = true -> is_num b = true ->
  (num_lt a b <-> fst (op_eval O OLt [a; b] c lg) = Ok (VBool true)).
Proof.
  intros Ha Hb. destruct a as [|x|x| | |]; try discriminate; destruct b as [|y|y| | |]; try discriminate;
    cbn [op_eval fst compare_op nargs length N.of_nat expect_operator_argument_amount N.eqb Pos.eqb Pos.of_succ_nat Pos.succ bind arg
         nth_opt expect_number_or_string as_number num_lt num].
  - split; [intros ->; reflexivity|intros H; inversion H; reflexivity].
  - split; [intros ->; reflexivity|intros H; inversion H; reflexivity].
  - split; [intros ->; reflexivity|intros H; inversion H; reflexivity].
  - rewrite <- Z.ltb_lt. split; [intros ->; reflexivity|intros H; inversion H; reflexivity].
Qed.

Lemma p_wrong_shape (name : str) f sh R (v : value) :
  builtin_function O name = Some f -> spec_of O name = Some (sh, R) -> has_shape sh v = false ->
  bclass (f v) = BType \/ bclass (f v) = BArity \/ (sh = ShSubstring /\ bclass (f v) = BBounds).
Proof. apply wrong_shape. Qed.

Close Scope string_scope.
End WithOracle.
