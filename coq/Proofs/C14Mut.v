(* C14, mutable half: the explicit-stack loop of OperatorIterMut (Spec/IterMut.v) against the
   structural map of Model/Iter.v (map_desc_ops / rename_with) and the pre-order of Spec/Preorder.v. *)
Require Import Model.Base Model.Syntax Model.Iter.
Require Import Spec.Preorder Spec.IterMut Proofs.Common Proofs.C14.

Local Open Scope nat_scope.

(* ------------------------------------------------------------------------------------------ *)
(* lists                                                                                       *)
(* ------------------------------------------------------------------------------------------ *)

Lemma nth_error_set_nth_same {A} (y : A) l : forall i x,
  nth_error l i = Some x -> nth_error (set_nth i y l) i = Some y.
Proof.
  induction l as [|a l IH]; intros [|i] x H; cbn [nth_error set_nth] in *; try discriminate.
  - reflexivity.
  - exact (IH i x H).
Qed.

Lemma set_nth_set_nth {A} (y z : A) l : forall i, set_nth i z (set_nth i y l) = set_nth i z l.
Proof.
  induction l as [|a l IH]; intros [|i]; cbn [set_nth]; try reflexivity.
  rewrite IH. reflexivity.
Qed.

Lemma set_nth_same {A} l : forall i (x : A), nth_error l i = Some x -> set_nth i x l = l.
Proof.
  induction l as [|a l IH]; intros [|i] x H; cbn [nth_error set_nth] in *; try discriminate.
  - injection H as ->. reflexivity.
  - rewrite (IH i x H). reflexivity.
Qed.

Lemma set_nth_app_length {A} (a : list A) x y b : set_nth (length a) y (a ++ x :: b) = a ++ y :: b.
Proof. induction a as [|h a IH]; cbn [length app set_nth]; [reflexivity|]. rewrite IH. reflexivity. Qed.

Lemma nth_error_app_length {A} (a : list A) x b : nth_error (a ++ x :: b) (length a) = Some x.
Proof. induction a as [|h a IH]; cbn [length app nth_error]; [reflexivity|exact IH]. Qed.

Lemma length_set_nth {A} (y : A) l : forall i, length (set_nth i y l) = length l.
Proof. induction l as [|a l IH]; intros [|i]; cbn [set_nth length]; try reflexivity. rewrite IH. reflexivity. Qed.

(* ------------------------------------------------------------------------------------------ *)
(* positions: replacing the subtree at a position                                              *)
(* ------------------------------------------------------------------------------------------ *)

(* replace_at : Spec/IterMut.v *)

Lemma node_at_app p r : forall t,
  node_at t (p ++ r) = match node_at t p with Some x => node_at x r | None => None end.
Proof.
  induction p as [|i p IH]; intros t; cbn [app node_at]; [reflexivity|].
  destruct (nth_error (nch t) i) as [c|]; [apply IH|reflexivity].
Qed.

Lemma update_op_at_eq f p : forall t,
  update_op_at f t p =
  match node_at t p with
  | Some x => Some (replace_at t p (Node (f (nop x)) (nch x)))
  | None => None
  end.
Proof.
  induction p as [|i p IH]; intros [o ch]; cbn [update_op_at node_at replace_at nch nop]; [reflexivity|].
  destruct (nth_error ch i) as [c|]; [|reflexivity].
  rewrite IH. destruct (node_at c p) as [x|]; reflexivity.
Qed.

Lemma node_at_replace_same y p : forall t x,
  node_at t p = Some x -> node_at (replace_at t p y) p = Some y.
Proof.
  induction p as [|i p IH]; intros t x H; cbn [node_at replace_at] in *; [reflexivity|].
  destruct (nth_error (nch t) i) as [c|] eqn:E; [|discriminate].
  cbn [nch]. rewrite (nth_error_set_nth_same _ _ _ _ E). exact (IH c x H).
Qed.

Lemma replace_replace_prefix y z r q : forall t,
  replace_at (replace_at t (q ++ r) y) q z = replace_at t q z.
Proof.
  induction q as [|i q IH]; intros t; cbn [app replace_at]; [reflexivity|].
  destruct (nth_error (nch t) i) as [c|] eqn:E.
  - cbn [nch nop]. rewrite (nth_error_set_nth_same _ _ _ _ E), IH, set_nth_set_nth. reflexivity.
  - rewrite E. reflexivity.
Qed.

Lemma replace_replace_same y z q t : replace_at (replace_at t q y) q z = replace_at t q z.
Proof. rewrite <- (app_nil_r q) at 1. apply replace_replace_prefix. Qed.

Lemma replace_at_app y r q : forall t x,
  node_at t q = Some x -> replace_at t (q ++ r) y = replace_at t q (replace_at x r y).
Proof.
  induction q as [|i q IH]; intros t x H; cbn [app node_at replace_at] in *.
  - injection H as ->. reflexivity.
  - destruct (nth_error (nch t) i) as [c|]; [|discriminate]. rewrite (IH c x H). reflexivity.
Qed.

Lemma replace_at_self q : forall t x, node_at t q = Some x -> replace_at t q x = t.
Proof.
  induction q as [|i q IH]; intros t x H; cbn [node_at replace_at] in *.
  - injection H as ->. reflexivity.
  - destruct (nth_error (nch t) i) as [c|] eqn:E; [|discriminate].
    rewrite (IH c x H), (set_nth_same _ _ _ E). destruct t; reflexivity.
Qed.

(* the node at q after a replacement strictly below q *)
Lemma node_at_replace_child t q o ch i c y :
  node_at t q = Some (Node o ch) -> nth_error ch i = Some c ->
  node_at (replace_at t (q ++ [i]) y) q = Some (Node o (set_nth i y ch)).
Proof.
  intros Hq Hi. rewrite (replace_at_app _ _ _ _ _ Hq), (node_at_replace_same _ _ _ _ Hq).
  cbn [replace_at nch nop]. rewrite Hi. reflexivity.
Qed.

(* ------------------------------------------------------------------------------------------ *)
(* the reference: positions together with the nodes found there                                *)
(* ------------------------------------------------------------------------------------------ *)

Fixpoint desc_at (n : node) : list (path * node) :=
  match n with
  | Node _ ch =>
      (fix go (i : nat) (l : list node) : list (path * node) :=
         match l with
         | [] => []
         | c :: l' => (([i], c) :: map (fun pn => (i :: fst pn, snd pn)) (desc_at c)) ++ go (S i) l'
         end) O ch
  end.

Fixpoint forest_at (i : nat) (l : list node) : list (path * node) :=
  match l with
  | [] => []
  | c :: l' => (([i], c) :: map (fun pn => (i :: fst pn, snd pn)) (desc_at c)) ++ forest_at (S i) l'
  end.

Fixpoint forest_paths (i : nat) (l : list node) : list path :=
  match l with
  | [] => []
  | c :: l' => ([i] :: map (cons i) (desc_paths c)) ++ forest_paths (S i) l'
  end.

Lemma desc_at_eq n : desc_at n = forest_at O (nch n).
Proof.
  destruct n as [o ch]. cbn [desc_at nch]. generalize O.
  induction ch as [|c l IH]; intros i; [reflexivity|]. cbn [forest_at]. rewrite IH. reflexivity.
Qed.

Lemma desc_paths_eq n : desc_paths n = forest_paths O (nch n).
Proof.
  destruct n as [o ch]. cbn [desc_paths nch]. generalize O.
  induction ch as [|c l IH]; intros i; [reflexivity|]. cbn [forest_paths]. rewrite IH. reflexivity.
Qed.

Lemma desc_at_paths n : map fst (desc_at n) = desc_paths n.
Proof.
  induction n as [o ch IH] using node_ind'. rewrite desc_at_eq, desc_paths_eq. cbn [nch]. generalize O.
  induction IH as [|c l Hc Hl IHl]; intros i; [reflexivity|].
  cbn [forest_at forest_paths map app fst]. rewrite map_app, map_map, IHl. cbn [fst].
  rewrite <- Hc, map_map. reflexivity.
Qed.

Lemma desc_at_nodes n : map snd (desc_at n) = preorder_descendants n.
Proof.
  induction n as [o ch IH] using node_ind'. rewrite desc_at_eq, preorder_descendants_eq. cbn [nch]. generalize O.
  induction IH as [|c l Hc Hl IHl]; intros i; [reflexivity|].
  rewrite forest_pre_cons. cbn [forest_at map app snd]. rewrite map_app, map_map, IHl. cbn [snd].
  rewrite <- preorder_descendants_eq, <- Hc. reflexivity.
Qed.

(* every listed position exists and holds the listed node *)
Lemma desc_at_node_at n : Forall (fun pn => node_at n (fst pn) = Some (snd pn)) (desc_at n).
Proof.
  induction n as [o ch IH] using node_ind'. rewrite desc_at_eq. cbn [nch].
  assert (G : forall done, Forall (fun pn => node_at (Node o (done ++ ch)) (fst pn) = Some (snd pn))
                                  (forest_at (length done) ch)).
  { induction IH as [|c l Hc Hl IHl]; intros done; [constructor|].
    cbn [forest_at]. apply Forall_app. split.
    - constructor.
      + cbn [fst snd node_at nch]. rewrite nth_error_app_length. reflexivity.
      + apply Forall_forall. intros pn Hin. apply in_map_iff in Hin. destruct Hin as [[p d] [<- Hin]].
        cbn [fst snd node_at nch]. rewrite nth_error_app_length.
        rewrite Forall_forall in Hc. exact (Hc (p, d) Hin).
    - specialize (IHl (done ++ [c])). rewrite <- app_assoc, app_length in IHl. cbn [length app] in IHl.
      rewrite Nat.add_1_r in IHl. exact IHl. }
  exact (G []).
Qed.

Lemma desc_paths_node_at n : map (node_at n) (desc_paths n) = map Some (preorder_descendants n).
Proof.
  rewrite <- desc_at_paths, <- desc_at_nodes, !map_map.
  pose proof (desc_at_node_at n) as H. induction H as [|pn l Hpn Hl IHl]; [reflexivity|].
  cbn [map]. rewrite Hpn, IHl. reflexivity.
Qed.

(* ------------------------------------------------------------------------------------------ *)
(* the loop                                                                                    *)
(* ------------------------------------------------------------------------------------------ *)

Definition trace := list (path * operator).

Definition then_trace (tr : trace) (m : outcome (trace * node)) : outcome (trace * node) :=
  do r <- m; Ok (tr ++ fst r, snd r).

Lemma then_trace_nil m : then_trace [] m = m.
Proof. destruct m as [[tr t]| |]; reflexivity. Qed.

Lemma then_trace_then a b m : then_trace a (then_trace b m) = then_trace (a ++ b) m.
Proof. destruct m as [[tr t]| |]; cbn [then_trace bind fst snd]; [rewrite app_assoc|..]; reflexivity. Qed.

Definition tr_of (q : path) (l : list (path * node)) : trace :=
  map (fun pn => (q ++ fst pn, nop (snd pn))) l.

Lemma mut_loop_unfold f fuel t st :
  mut_loop f fuel t st =
  match mut_next t st with
  | None => Ok ([], t)
  | Some (q, st') =>
      match fuel with
      | O => Panic 90
      | S k =>
          match node_at t q, update_op_at f t q with
          | Some d, Some t' => then_trace [(q, nop d)] (mut_loop f k t' st')
          | _, _ => Panic 91
          end
      end
  end.
Proof. destruct fuel; reflexivity. Qed.

(* an exhausted iterator on top of the stack is popped *)
Lemma mut_loop_pop f fuel t p i len R : len <= i ->
  mut_loop f fuel t (Frame p i len :: R) = mut_loop f fuel t R.
Proof.
  intros Hle. rewrite (mut_loop_unfold f fuel t (_ :: R)), (mut_loop_unfold f fuel t R).
  cbn [mut_next frame_next]. destruct (Nat.ltb_spec i len) as [Hlt|_]; [lia|]. reflexivity.
Qed.

(* one yield: child i of the node at p is handed out, overwritten, and its children iterator pushed *)
Lemma mut_loop_step f k t p i len R c : node_at t (p ++ [i]) = Some c -> i < len ->
  mut_loop f (S k) t (Frame p i len :: R) =
  then_trace [(p ++ [i], nop c)]
    (mut_loop f k (replace_at t (p ++ [i]) (Node (f (nop c)) (nch c)))
       (Frame (p ++ [i]) O (length (nch c)) :: Frame p (S i) len :: R)).
Proof.
  intros Hc Hlt. rewrite mut_loop_unfold. cbn [mut_next frame_next].
  destruct (Nat.ltb_spec i len) as [_|Hle]; [|lia].
  rewrite update_op_at_eq, Hc. unfold children_iter_mut. rewrite Hc. reflexivity.
Qed.

(* the loop over the children iterator of a node c sitting at position q (with whatever operator o'
   the consumer has just written there): all of c's proper descendants are handed out in pre-order
   with their original operators, afterwards they are rewritten by f and the rest of the stack is
   processed *)
Definition node_ok (f : operator -> operator) (c : node) : Prop :=
  forall o' t q R k, node_at t q = Some (Node o' (nch c)) ->
  mut_loop f (forest_size (nch c) + k) t (Frame q O (length (nch c)) :: R) =
  then_trace (tr_of q (forest_at O (nch c)))
    (mut_loop f k (replace_at t q (Node o' (map (map_all_ops f) (nch c)))) R).

Lemma tr_of_cons_child q i c l :
  tr_of q ((([i], c) :: map (fun pn => (i :: fst pn, snd pn)) (desc_at c)) ++ l) =
  ((q ++ [i], nop c) :: tr_of (q ++ [i]) (forest_at O (nch c))) ++ tr_of q l.
Proof.
  unfold tr_of. rewrite map_app. cbn [map fst snd]. f_equal. f_equal.
  rewrite <- desc_at_eq, map_map. apply map_ext. intros [p d]. cbn [fst snd].
  rewrite <- app_assoc. reflexivity.
Qed.

Lemma loop_forest f rest : Forall (node_ok f) rest ->
  forall done t q o R k len,
  node_at t q = Some (Node o (done ++ rest)) ->
  len = length done + length rest ->
  mut_loop f (forest_size rest + k) t (Frame q (length done) len :: R) =
  then_trace (tr_of q (forest_at (length done) rest))
    (mut_loop f k (replace_at t q (Node o (done ++ map (map_all_ops f) rest))) R).
Proof.
  intros Hall. induction Hall as [|c rest Hc Hrest IH]; intros done t q o R k len Hq Hlen.
  - cbn [forest_size fold_right forest_at tr_of map Nat.add]. rewrite then_trace_nil.
    rewrite mut_loop_pop by (cbn [length] in Hlen; lia).
    cbn [map]. rewrite (replace_at_self _ _ _ Hq). reflexivity.
  - assert (Hci : node_at t (q ++ [length done]) = Some c).
    { rewrite node_at_app, Hq. cbn [node_at nch]. rewrite nth_error_app_length. reflexivity. }
    change (forest_size (c :: rest)) with (node_size c + forest_size rest).
    rewrite node_size_eq. cbn [Nat.add].
    rewrite (mut_loop_step f _ t q (length done) len R c Hci) by (cbn [length] in Hlen; lia).
    set (c1 := Node (f (nop c)) (nch c)).
    set (t1 := replace_at t (q ++ [length done]) c1).
    assert (Ht1 : node_at t1 (q ++ [length done]) = Some (Node (f (nop c)) (nch c))).
    { exact (node_at_replace_same _ _ _ _ Hci). }
    rewrite <- Nat.add_assoc.
    rewrite (Hc (f (nop c)) t1 (q ++ [length done]) (Frame q (S (length done)) len :: R) _ Ht1).
    set (t2 := replace_at t1 (q ++ [length done]) (Node (f (nop c)) (map (map_all_ops f) (nch c)))).
    assert (Et2 : t2 = replace_at t (q ++ [length done]) (map_all_ops f c)).
    { unfold t2, t1. rewrite replace_replace_same. destruct c as [oc chc]. reflexivity. }
    assert (Ht2 : node_at t2 q = Some (Node o ((done ++ [map_all_ops f c]) ++ rest))).
    { rewrite Et2.
      rewrite (node_at_replace_child t q o (done ++ c :: rest) (length done) c _ Hq (nth_error_app_length _ _ _)).
      rewrite set_nth_app_length, <- app_assoc. reflexivity. }
    assert (Elen : S (length done) = length (done ++ [map_all_ops f c])).
    { rewrite app_length. cbn [length]. lia. }
    rewrite Elen.
    rewrite (IH (done ++ [map_all_ops f c]) t2 q o R k len Ht2)
      by (rewrite <- Elen; cbn [length] in Hlen; lia).
    rewrite <- Elen.
    rewrite !then_trace_then. cbn [forest_at]. rewrite tr_of_cons_child. cbn [app].
    f_equal. f_equal.
    rewrite Et2.
    rewrite <- (replace_replace_prefix (map_all_ops f c)
                  (Node o (done ++ map (map_all_ops f) (c :: rest))) [length done] q t).
    cbn [map]. rewrite <- app_assoc. reflexivity.
Qed.

Lemma node_ok_all f n : node_ok f n.
Proof.
  induction n as [o ch IH] using node_ind'. intros o' t q R k Hq. cbn [nch] in *.
  exact (loop_forest f ch IH [] t q o' R k (length ch) Hq eq_refl).
Qed.

(* the general statement: a tree t, a node at position q of it, the children iterator of that node
   on top of an arbitrary stack R *)
Lemma mut_loop_subtree f t q x R k : node_at t q = Some x ->
  mut_loop f (forest_size (nch x) + k) t (children_iter_mut t q :: R) =
  then_trace (map (fun pn => (q ++ fst pn, nop (snd pn))) (desc_at x))
    (mut_loop f k (replace_at t q (map_desc_ops f x)) R).
Proof.
  intros Hq. unfold children_iter_mut. rewrite Hq. destruct x as [o ch]. cbn [nch].
  rewrite desc_at_eq. exact (node_ok_all f (Node o ch) o t q R k Hq).
Qed.

(* ------------------------------------------------------------------------------------------ *)
(* the whole run                                                                               *)
(* ------------------------------------------------------------------------------------------ *)

Lemma iter_mut_run_spec f n :
  iter_mut_run f n = Ok (map (fun pn => (fst pn, nop (snd pn))) (desc_at n), map_desc_ops f n).
Proof.
  unfold iter_mut_run. rewrite node_size_eq, <- Nat.add_1_r.
  rewrite (mut_loop_subtree f n [] n [] 1 eq_refl).
  cbn [replace_at mut_loop mut_next then_trace bind fst snd app]. rewrite app_nil_r. reflexivity.
Qed.

(* in Spec vocabulary: positions, the operators seen there, the final tree *)
Lemma iter_mut_run_combine f n :
  iter_mut_run f n =
  Ok (combine (desc_paths n) (map nop (preorder_descendants n)), map_desc_ops f n).
Proof.
  rewrite iter_mut_run_spec, <- desc_at_paths, <- desc_at_nodes. f_equal. f_equal.
  induction (desc_at n) as [|[p d] l IH]; [reflexivity|]. cbn [map combine fst snd]. rewrite IH. reflexivity.
Qed.

Lemma desc_paths_length n : length (desc_paths n) = length (preorder_descendants n).
Proof. rewrite <- desc_at_paths, <- desc_at_nodes, !map_length. reflexivity. Qed.

Lemma iter_mut_apply_spec f n : iter_mut_apply f n = Ok (map_desc_ops f n).
Proof. unfold iter_mut_apply. rewrite iter_mut_run_spec. reflexivity. Qed.

Lemma iter_mut_positions_spec n : iter_mut_positions n = Ok (desc_paths n).
Proof.
  unfold iter_mut_positions. rewrite iter_mut_run_spec. cbn [bind fst]. rewrite map_map. cbn [fst].
  rewrite <- desc_at_paths. reflexivity.
Qed.

(* the positions resolve, in the original tree, to what the immutable iterator lists *)
Lemma mut_positions_all n :
  iter_mut_positions n = Ok (desc_paths n) /\
  map (node_at n) (desc_paths n) = map Some (preorder_descendants n) /\
  (forall l, iter_all n = Ok l -> map (node_at n) (desc_paths n) = map Some l) /\
  length (desc_paths n) = pred (node_size n) /\
  is_panic (iter_mut_positions n) = false.
Proof.
  split; [apply iter_mut_positions_spec|]. split; [apply desc_paths_node_at|]. split; [|split].
  - intros l Hl. rewrite iter_all_preorder in Hl. injection Hl as <-. apply desc_paths_node_at.
  - rewrite desc_paths_length. pose proof (preorder_length n) as H. unfold preorder in H.
    cbn [length] in H. lia.
  - rewrite iter_mut_positions_spec. reflexivity.
Qed.

Lemma mut_apply_all f n :
  iter_mut_apply f n = Ok (map_desc_ops f n) /\
  same_shape n (map_desc_ops f n) /\ nop (map_desc_ops f n) = nop n.
Proof.
  split; [apply iter_mut_apply_spec|]. split; [apply same_shape_map_desc_ops|]. destruct n; reflexivity.
Qed.

(* ------------------------------------------------------------------------------------------ *)
(* the identifier iterators                                                                    *)
(* ------------------------------------------------------------------------------------------ *)

Lemma filter_map_map_nop (sel : operator -> option str) l :
  filter_map sel (map nop l) = filter_map (fun x => sel (nop x)) l.
Proof.
  induction l as [|x l IH]; [reflexivity|]. cbn [map filter_map]. rewrite IH. reflexivity.
Qed.

Lemma iter_mut_idents_spec sel g n :
  iter_mut_idents sel g n =
  Ok (filter_map (fun x => sel (nop x)) (preorder_descendants n), rename_with sel g n).
Proof.
  unfold iter_mut_idents. rewrite iter_mut_run_spec. cbn [bind fst snd].
  rewrite map_map. cbn [snd]. rewrite <- filter_map_map_nop, <- desc_at_nodes, map_map. reflexivity.
Qed.

Lemma mut_filter sel g n :
  iter_mut_apply (rewrite_ident sel g) n = Ok (rename_with sel g n) /\
  exists l, iter_with sel n = Ok l /\ iter_mut_idents sel g n = Ok (l, rename_with sel g n).
Proof.
  split; [apply iter_mut_apply_spec|]. eexists. split; [apply iter_with_spec|apply iter_mut_idents_spec].
Qed.

Lemma mut_filter_five g n :
  (exists l, iter_identifiers n = Ok l /\
             iter_mut_idents ident_any g n = Ok (l, rename_with ident_any g n)) /\
  (exists l, iter_variable_identifiers n = Ok l /\
             iter_mut_idents ident_var g n = Ok (l, rename_with ident_var g n)) /\
  (exists l, iter_read_variable_identifiers n = Ok l /\
             iter_mut_idents ident_read g n = Ok (l, rename_with ident_read g n)) /\
  (exists l, iter_write_variable_identifiers n = Ok l /\
             iter_mut_idents ident_write g n = Ok (l, rename_with ident_write g n)) /\
  (exists l, iter_function_identifiers n = Ok l /\
             iter_mut_idents ident_fn g n = Ok (l, rename_with ident_fn g n)).
Proof. repeat split; apply mut_filter. Qed.

(* ------------------------------------------------------------------------------------------ *)
(* desc_paths characterised: exactly the existing non-root positions, strictly increasing      *)
(* ------------------------------------------------------------------------------------------ *)

Lemma forest_paths_head k l p : In p (forest_paths k l) -> exists j p', p = j :: p' /\ k <= j.
Proof.
  revert k. induction l as [|c l IH]; intros k Hin; [destruct Hin|].
  cbn [forest_paths] in Hin. apply in_app_or in Hin. destruct Hin as [[<-|Hin]|Hin].
  - exists k, []. split; [reflexivity|lia].
  - apply in_map_iff in Hin. destruct Hin as [p' [<- _]]. exists k, p'. split; [reflexivity|lia].
  - destruct (IH (S k) Hin) as [j [p' [-> Hle]]]. exists j, p'. split; [reflexivity|lia].
Qed.

Lemma desc_paths_nonempty n p : In p (desc_paths n) -> p <> [].
Proof.
  rewrite desc_paths_eq. intros Hin. destruct (forest_paths_head _ _ _ Hin) as [j [p' [-> _]]]. discriminate.
Qed.

Lemma forest_paths_in k l : forall j c, nth_error l j = Some c ->
  In [k + j] (forest_paths k l) /\ forall p, In p (desc_paths c) -> In ((k + j) :: p) (forest_paths k l).
Proof.
  revert k. induction l as [|x l IH]; intros k [|j] c Hj; cbn [nth_error] in Hj; try discriminate.
  - injection Hj as ->. rewrite Nat.add_0_r. cbn [forest_paths]. split.
    + left. reflexivity.
    + intros p Hp. right. apply in_or_app. left. apply in_map. exact Hp.
  - destruct (IH (S k) j c Hj) as [H1 H2]. replace (k + S j) with (S k + j) by lia.
    cbn [forest_paths]. split.
    + right. apply in_or_app. right. exact H1.
    + intros p Hp. right. apply in_or_app. right. exact (H2 p Hp).
Qed.

Lemma desc_paths_complete n : forall p d, p <> [] -> node_at n p = Some d -> In p (desc_paths n).
Proof.
  induction n as [o ch IH] using node_ind'. intros [|i p] d Hne Hat; [congruence|].
  cbn [node_at nch] in Hat. destruct (nth_error ch i) as [c|] eqn:Ei; [|discriminate].
  rewrite desc_paths_eq. cbn [nch]. destruct (forest_paths_in O ch i c Ei) as [H1 H2]. cbn [Nat.add] in *.
  destruct p as [|j p]; [exact H1|]. apply H2.
  rewrite Forall_forall in IH. apply (IH c (nth_error_In _ _ Ei) (j :: p) d); [discriminate|exact Hat].
Qed.

Lemma desc_paths_in n p : In p (desc_paths n) <-> p <> [] /\ exists d, node_at n p = Some d.
Proof.
  split.
  - intros Hin. split; [exact (desc_paths_nonempty n p Hin)|].
    rewrite <- desc_at_paths in Hin. apply in_map_iff in Hin. destruct Hin as [[p' d] [<- Hin]].
    pose proof (desc_at_node_at n) as H. rewrite Forall_forall in H. exists d. exact (H _ Hin).
  - intros [Hne [d Hd]]. exact (desc_paths_complete n p d Hne Hd).
Qed.

Lemma path_lt_irrefl p : ~ path_lt p p.
Proof. induction p as [|i p IH]; intros H; inversion H; subst; [lia|exact (IH H1)]. Qed.

Lemma path_lt_trans p q r : path_lt p q -> path_lt q r -> path_lt p r.
Proof.
  intros Hpq. revert r. induction Hpq as [i q|i j p q Hij|i p q Hpq IH]; intros r Hqr; inversion Hqr; subst.
  - constructor.
  - constructor.
  - apply path_lt_head. lia.
  - apply path_lt_head. exact Hij.
  - apply path_lt_head. assumption.
  - apply path_lt_tail. apply IH. assumption.
Qed.

(* every earlier element is before every later one *)
Inductive all_lt : list path -> Prop :=
| all_lt_nil : all_lt []
| all_lt_cons p l : Forall (path_lt p) l -> all_lt l -> all_lt (p :: l).

Lemma all_lt_app a b : all_lt a -> all_lt b ->
  (forall p q, In p a -> In q b -> path_lt p q) -> all_lt (a ++ b).
Proof.
  intros Ha Hb Hab. induction Ha as [|p l Hp Hl IH]; [exact Hb|].
  cbn [app]. constructor.
  - apply Forall_app. split; [exact Hp|]. apply Forall_forall. intros q Hq. apply Hab; [left; reflexivity|exact Hq].
  - apply IH. intros p' q Hp' Hq. apply Hab; [right; exact Hp'|exact Hq].
Qed.

Lemma all_lt_map_cons i l : all_lt l -> all_lt (map (cons i) l).
Proof.
  intros H. induction H as [|p l Hp Hl IH]; [constructor|]. cbn [map]. constructor; [|exact IH].
  apply Forall_forall. intros q Hq. apply in_map_iff in Hq. destruct Hq as [q' [<- Hq']].
  apply path_lt_tail. rewrite Forall_forall in Hp. exact (Hp q' Hq').
Qed.

Lemma all_lt_increasing l : all_lt l -> increasing l.
Proof.
  intros H. induction H as [|p l Hp Hl IH]; [constructor|].
  destruct l as [|q l]; constructor; [|exact IH]. inversion Hp; assumption.
Qed.

Lemma desc_paths_all_lt n : all_lt (desc_paths n).
Proof.
  induction n as [o ch IH] using node_ind'. rewrite desc_paths_eq. cbn [nch]. generalize O.
  induction IH as [|c l Hc Hl IHl]; intros k; [constructor|].
  cbn [forest_paths]. apply all_lt_app.
  - constructor; [|exact (all_lt_map_cons k _ Hc)].
    apply Forall_forall. intros q Hq. apply in_map_iff in Hq. destruct Hq as [q' [<- Hq']].
    apply path_lt_tail. destruct q' as [|j q']; [exact (False_ind _ (desc_paths_nonempty c [] Hq' eq_refl))|constructor].
  - apply IHl.
  - intros p q Hp Hq. destruct (forest_paths_head _ _ _ Hq) as [j [q' [-> Hle]]].
    destruct Hp as [<-|Hp].
    + apply path_lt_head. lia.
    + apply in_map_iff in Hp. destruct Hp as [p' [<- _]]. apply path_lt_head. lia.
Qed.

Lemma desc_paths_increasing n : increasing (desc_paths n).
Proof. apply all_lt_increasing, desc_paths_all_lt. Qed.

Lemma desc_paths_char n :
  (forall p, In p (desc_paths n) <-> p <> [] /\ exists d, node_at n p = Some d) /\
  increasing (desc_paths n).
Proof. split; [intros p; apply desc_paths_in|apply desc_paths_increasing]. Qed.

Lemma path_lt_order : (forall p, ~ path_lt p p) /\ (forall p q r, path_lt p q -> path_lt q r -> path_lt p r).
Proof. split; [exact path_lt_irrefl|exact path_lt_trans]. Qed.

(* the loop invariant in Spec vocabulary *)
Lemma map_pair_combine {A B C D} (a : A -> C) (b : B -> D) (l : list (A * B)) :
  map (fun pn => (a (fst pn), b (snd pn))) l = combine (map a (map fst l)) (map b (map snd l)).
Proof. induction l as [|[x y] l IH]; [reflexivity|]. cbn [map combine fst snd]. rewrite IH. reflexivity. Qed.

Lemma mut_loop_stack f t q x R k : node_at t q = Some x ->
  mut_loop f (pred (node_size x) + k) t (children_iter_mut t q :: R) =
  do r <- mut_loop f k (replace_at t q (map_desc_ops f x)) R;
  Ok (combine (map (app q) (desc_paths x)) (map nop (preorder_descendants x)) ++ fst r, snd r).
Proof.
  intros Hq. rewrite node_size_eq. cbn [pred]. rewrite (mut_loop_subtree f t q x R k Hq).
  unfold then_trace. rewrite (map_pair_combine (app q) nop), desc_at_paths, desc_at_nodes. reflexivity.
Qed.
