(* C15: schedule independence of threads without shared mutable state. *)
From Coq Require Import List Arith Lia.
Import ListNotations.
Require Import Spec.Interleave.

Section Proofs.
Variable shared state : Type.
Variable step : shared -> state -> state.

Lemma nth_update_same (l : list state) i f dflt : i < length l ->
  nth i (update state l i f) dflt = f (nth i l dflt).
Proof.
  revert i; induction l as [|x l IH]; intros i H; cbn in *; [lia|].
  destruct i; cbn; [reflexivity|]. apply IH. lia.
Qed.

Lemma nth_update_other (l : list state) i j f dflt : i <> j ->
  nth j (update state l i f) dflt = nth j l dflt.
Proof.
  revert i j; induction l as [|x l IH]; intros i j H; cbn; [reflexivity|].
  destruct i, j; cbn; try reflexivity; try congruence. apply IH. congruence.
Qed.

Lemma length_update (l : list state) i f : length (update state l i f) = length l.
Proof. revert i; induction l as [|x l IH]; intros i; cbn; [reflexivity|]. destruct i; cbn; [reflexivity|]. rewrite IH. reflexivity. Qed.

Lemma run_alone_step d s n : run_alone shared state step d (step d s) n = step d (run_alone shared state step d s n).
Proof. revert s; induction n as [|n IH]; intros s; cbn; [reflexivity|]. rewrite IH. reflexivity. Qed.

(* every thread ends where it would have ended running alone for as many steps as it was scheduled *)
Theorem schedule_independent (d : shared) : forall (schedule : list nat) (threads : list state) (j : nat) (dflt : state),
  j < length threads ->
  nth j (run_schedule shared state step d threads schedule) dflt =
  run_alone shared state step d (nth j threads dflt) (steps_of j schedule).
Proof.
  induction schedule as [|i rest IH]; intros threads j dflt Hj; cbn [run_schedule steps_of count_occ run_alone].
  - reflexivity.
  - rewrite IH by (rewrite length_update; exact Hj).
    unfold steps_of. destruct (Nat.eq_dec i j) as [->|Hne].
    + cbn [run_alone]. rewrite nth_update_same by exact Hj. reflexivity.
    + rewrite nth_update_other by exact Hne. reflexivity.
Qed.

(* two schedules that give thread j the same number of steps leave it in the same state *)
Corollary schedules_agree (d : shared) (s1 s2 : list nat) (threads : list state) (j : nat) (dflt : state) :
  j < length threads -> steps_of j s1 = steps_of j s2 ->
  nth j (run_schedule shared state step d threads s1) dflt = nth j (run_schedule shared state step d threads s2) dflt.
Proof. intros Hj H. rewrite !schedule_independent by exact Hj. rewrite H. reflexivity. Qed.

End Proofs.
