(* IntText -- the integer printer of the model (Model/Value.v int_to_string, the model of Display for i64)
   prints THE decimal notation: it agrees with the independent printer Spec/LexSpec.v `decimal`
   (which Props/C06.v relates to the lexer) on every value with at most 20 digits, and the bound is real.
   No axioms; only lemmas about dec_of_nonneg (model) and dec_fuel (spec). *)
From Coq Require Import Strings.String Floats.SpecFloat ZArith Lia List.
Require Import Model.Base Model.Syntax Model.F64 Gen.Tables Model.Lexer Model.Value.
Require Import Spec.LexSpec Proofs.Common Proofs.LexFacts Proofs.C06 Proofs.C07.
Import ListNotations.
Local Open Scope Z_scope.

(* ========================================================================================== *)
(** * 1. The two digit loops agree when both have enough fuel *)

Lemma pow10_succ (f : nat) : 10 ^ Z.of_nat (S f) = 10 * 10 ^ Z.of_nat f.
Proof. rewrite Nat2Z.inj_succ, Z.pow_succ_r by lia. reflexivity. Qed.

Lemma pow10_pos (f : nat) : 0 < 10 ^ Z.of_nat f.
Proof. apply Z.pow_pos_nonneg; lia. Qed.

Lemma pow2_pos (f : nat) : 0 < 2 ^ Z.of_nat f.
Proof. apply Z.pow_pos_nonneg; lia. Qed.

Lemma dec_of_nonneg_S f z acc :
  dec_of_nonneg (S f) z acc =
  if z <? 10 then Z.to_N (48 + z mod 10) :: acc else dec_of_nonneg f (z / 10) (Z.to_N (48 + z mod 10) :: acc).
Proof. reflexivity. Qed.

Lemma dec_fuel_S f n :
  dec_fuel (S f) n = (if n <? 10 then [] else dec_fuel f (n / 10)) ++ [digit_char (n mod 10)].
Proof. reflexivity. Qed.

(* model loop with fuel S f1 (z has at most S f1 decimal digits) = spec loop with fuel S f2
   (z has at most S f2 binary digits), prepended to the accumulator *)
Lemma dec_loops_agree (f1 : nat) : forall (z : Z) (acc : str) (f2 : nat),
  0 <= z < 10 ^ Z.of_nat (S f1) -> z < 2 ^ Z.of_nat (S f2) ->
  dec_of_nonneg (S f1) z acc = dec_fuel (S f2) z ++ acc.
Proof.
  induction f1 as [|f1 IH]; intros z acc f2 Hz10 Hz2.
  - (* one digit *)
    change (10 ^ Z.of_nat 1) with 10 in Hz10.
    rewrite dec_of_nonneg_S, dec_fuel_S.
    destruct (z <? 10) eqn:E; [reflexivity|]. apply Z.ltb_ge in E. lia.
  - rewrite (dec_of_nonneg_S (S f1)), dec_fuel_S.
    destruct (z <? 10) eqn:E; [reflexivity|]. apply Z.ltb_ge in E.
    destruct f2 as [|f2].
    + change (2 ^ Z.of_nat 1) with 2 in Hz2. lia.
    + rewrite pow10_succ in Hz10. rewrite pow2_succ in Hz2.
      assert (Hq10 : 0 <= z / 10 < 10 ^ Z.of_nat (S f1)).
      { split; [apply Z.div_pos; lia|]. apply Z.div_lt_upper_bound; lia. }
      assert (Hq2 : z / 10 < 2 ^ Z.of_nat (S f2)).
      { apply Z.div_lt_upper_bound; [lia|]. pose proof (pow2_pos (S f2)). lia. }
      rewrite (IH (z / 10) (Z.to_N (48 + z mod 10) :: acc) f2 Hq10 Hq2).
      rewrite <- app_assoc. reflexivity.
Qed.

Lemma dec_of_nonneg_decimal (f1 : nat) (z : Z) : 0 <= z < 10 ^ Z.of_nat (S f1) ->
  dec_of_nonneg (S f1) z [] = decimal z.
Proof.
  intros Hz. unfold decimal.
  rewrite (dec_loops_agree f1 z [] (Z.to_nat (Z.log2 z)) Hz (log2_fuel z (proj1 Hz))).
  apply app_nil_r.
Qed.

Lemma pow10_20 : 10 ^ Z.of_nat 20 = 10 ^ 20.
Proof. reflexivity. Qed.

(* ========================================================================================== *)
(** * 2. int_to_string is decimal, with a minus sign in front for negative values *)

Lemma int_text_nonneg z : 0 <= z < 10 ^ 20 -> int_to_string z = decimal z.
Proof.
  intros Hz. unfold int_to_string.
  destruct (z <? 0) eqn:E; [apply Z.ltb_lt in E; lia|].
  apply dec_of_nonneg_decimal. rewrite pow10_20. exact Hz.
Qed.

Lemma int_text_neg z : - 10 ^ 20 < z < 0 -> int_to_string z = 45%N :: decimal (- z).
Proof.
  intros Hz. unfold int_to_string.
  destruct (z <? 0) eqn:E; [|apply Z.ltb_ge in E; lia].
  f_equal. apply dec_of_nonneg_decimal. rewrite pow10_20. lia.
Qed.

Lemma int_text_zero : int_to_string 0 = [48%N] /\ decimal 0 = [48%N].
Proof. split; reflexivity. Qed.

Lemma i64_max_lt_pow : i64_max < 10 ^ 20.
Proof. reflexivity. Qed.

Lemma i64_min_gt_pow : - 10 ^ 20 < i64_min.
Proof. reflexivity. Qed.

Lemma int_text_nonneg_i64 z : 0 <= z <= i64_max -> int_to_string z = decimal z.
Proof. intros Hz. apply int_text_nonneg. pose proof i64_max_lt_pow. lia. Qed.

Lemma int_text_neg_i64 z : i64_min <= z < 0 -> int_to_string z = 45%N :: decimal (- z).
Proof. intros Hz. apply int_text_neg. pose proof i64_min_gt_pow. lia. Qed.

(* both cases in one equation *)
Lemma int_text_signed z : - 10 ^ 20 < z < 10 ^ 20 ->
  int_to_string z = if z <? 0 then 45%N :: decimal (- z) else decimal z.
Proof.
  intros Hz. destruct (z <? 0) eqn:E.
  - apply Z.ltb_lt in E. apply int_text_neg. lia.
  - apply Z.ltb_ge in E. apply int_text_nonneg. lia.
Qed.

Lemma int_text_i64 z : i64_min <= z <= i64_max ->
  int_to_string z = if z <? 0 then 45%N :: decimal (- z) else decimal z.
Proof.
  intros Hz. apply int_text_signed. pose proof i64_max_lt_pow. pose proof i64_min_gt_pow. lia.
Qed.

(* the bound is real: with 21 digits the 20 digits of fuel run out and the leading digit is lost *)
Lemma int_text_fuel_needed : exists z, 0 <= z /\ int_to_string z <> decimal z.
Proof.
  exists (10 ^ 20). split; [apply Z.pow_nonneg; lia|].
  vm_compute. discriminate.
Qed.

Lemma int_text_fuel_needed_explicit :
  int_to_string (10 ^ 20) = zeros 20 /\ decimal (10 ^ 20) = 49%N :: zeros 20.
Proof. split; vm_compute; reflexivity. Qed.

(* ========================================================================================== *)
(** * 3. The digits denote the value *)

(* decimal has no leading zero (except "0" itself) *)
Lemma dec_fuel_head fuel : forall n, 0 < n < 2 ^ Z.of_nat fuel ->
  exists c t, dec_fuel fuel n = c :: t /\ c <> 48%N.
Proof.
  induction fuel as [|f IH]; intros n Hn.
  - change (2 ^ Z.of_nat 0) with 1 in Hn. lia.
  - rewrite pow2_succ in Hn. rewrite dec_fuel_S.
    destruct (n <? 10) eqn:E.
    + apply Z.ltb_lt in E. cbn [app]. exists (digit_char (n mod 10)), []. split; [reflexivity|].
      rewrite Z.mod_small by lia. unfold digit_char. lia.
    + apply Z.ltb_ge in E.
      assert (Hq : 0 < n / 10 < 2 ^ Z.of_nat f).
      { split; [apply Z.div_str_pos; lia|]. apply Z.div_lt_upper_bound; lia. }
      destruct (IH _ Hq) as (c & t & Ht & Hc). rewrite Ht. cbn [app].
      exists c, (t ++ [digit_char (n mod 10)]). split; [reflexivity|exact Hc].
Qed.

Lemma decimal_head n : 0 < n -> exists c t, decimal n = c :: t /\ c <> 48%N.
Proof.
  intros Hn. unfold decimal. apply dec_fuel_head. split; [exact Hn|]. apply log2_fuel. lia.
Qed.

Lemma decimal_no_leading_zero n : 0 <= n -> forall t, decimal n = 48%N :: t -> t = [].
Proof.
  intros Hn t Ht. destruct (Z.eq_dec n 0) as [->|Hz].
  - change (decimal 0) with [48%N] in Ht. injection Ht as <-. reflexivity.
  - destruct (decimal_head n) as (c & t' & Ht' & Hc); [lia|].
    rewrite Ht' in Ht. injection Ht as -> _. congruence.
Qed.

(* the digit part of the text: the text without its sign *)
Lemma int_text_digits z : - 10 ^ 20 < z < 10 ^ 20 ->
  (if z <? 0 then tl (int_to_string z) else int_to_string z) = decimal (Z.abs z).
Proof.
  intros Hz. rewrite (int_text_signed z Hz). destruct (z <? 0) eqn:E.
  - apply Z.ltb_lt in E. cbn [tl]. rewrite Z.abs_neq by lia. reflexivity.
  - apply Z.ltb_ge in E. rewrite Z.abs_eq by lia. reflexivity.
Qed.

Lemma int_text_value_wide z : - 10 ^ 20 < z < 10 ^ 20 ->
  let ds := if z <? 0 then tl (int_to_string z) else int_to_string z in
  digits_val ds = Z.abs z /\ ds <> [] /\ all_digits ds /\ (forall t, ds = 48%N :: t -> t = []).
Proof.
  intros Hz. cbv zeta. rewrite (int_text_digits z Hz).
  destruct (decimal_spec (Z.abs z) (Z.abs_nonneg z)) as [[Hne Hd] Hv].
  split; [exact Hv|]. split; [exact Hne|]. split; [exact Hd|].
  apply decimal_no_leading_zero. apply Z.abs_nonneg.
Qed.

Lemma int_text_value z : i64_min <= z <= i64_max ->
  let ds := if z <? 0 then tl (int_to_string z) else int_to_string z in
  digits_val ds = Z.abs z /\ ds <> [] /\ all_digits ds /\ (forall t, ds = 48%N :: t -> t = []).
Proof.
  intros Hz. apply int_text_value_wide. pose proof i64_max_lt_pow. pose proof i64_min_gt_pow. lia.
Qed.

(* the sign character is there exactly for the negative values *)
Lemma int_text_sign z : - 10 ^ 20 < z < 10 ^ 20 -> (hd 0%N (int_to_string z) = 45%N <-> z < 0).
Proof.
  intros Hz. rewrite (int_text_signed z Hz). destruct (z <? 0) eqn:E.
  - apply Z.ltb_lt in E. cbn [hd]. split; [intros _; exact E|reflexivity].
  - apply Z.ltb_ge in E. split; [|lia]. intros Hh. exfalso.
    destruct (decimal_spec z E) as [[Hne Hd] _].
    destruct (decimal z) as [|c t]; [congruence|]. cbn [hd] in Hh. subst c.
    inversion Hd as [|? ? Hc _]; subst. unfold dec_digit in Hc. lia.
Qed.

(* ========================================================================================== *)
(** * 4. Injectivity *)

Lemma int_text_injective_wide a b : - 10 ^ 20 < a < 10 ^ 20 -> - 10 ^ 20 < b < 10 ^ 20 ->
  int_to_string a = int_to_string b -> a = b.
Proof.
  intros Ha Hb Heq.
  pose proof (int_text_sign a Ha) as Hsa. pose proof (int_text_sign b Hb) as Hsb.
  rewrite Heq in Hsa.
  assert (Hsign : a < 0 <-> b < 0) by (rewrite <- Hsa, <- Hsb; reflexivity).
  destruct (int_text_value_wide a Ha) as [Hva _]. destruct (int_text_value_wide b Hb) as [Hvb _].
  rewrite Heq in Hva.
  destruct (a <? 0) eqn:Ea; destruct (b <? 0) eqn:Eb;
    try apply Z.ltb_lt in Ea; try apply Z.ltb_ge in Ea; try apply Z.ltb_lt in Eb; try apply Z.ltb_ge in Eb;
    try lia.
Qed.

Lemma int_text_injective a b : i64_min <= a <= i64_max -> i64_min <= b <= i64_max ->
  int_to_string a = int_to_string b -> a = b.
Proof.
  intros Ha Hb. pose proof i64_max_lt_pow. pose proof i64_min_gt_pow.
  apply int_text_injective_wide; lia.
Qed.

(* ========================================================================================== *)
(** * 5. Round trip through the lexer *)

Lemma int_text_roundtrip z : 0 <= z <= i64_max -> tokenize (int_to_string z) = Ok [TInt z].
Proof.
  intros Hz. rewrite (int_text_nonneg_i64 z Hz). exact (dec_alone z 0 Hz).
Qed.

Lemma word_token_decimal n : 0 <= n <= i64_max -> word_token (decimal n) = TInt n.
Proof.
  intros Hn. pose proof (dec_alone n 0 Hn) as Ht. cbn [zeros repeat app] in Ht.
  destruct (decimal_spec n (proj1 Hn)) as [Hd1 _].
  rewrite (tokenize_word _ (digits1_word _ Hd1)) in Ht. injection Ht as Ht. exact Ht.
Qed.

(* "-" directly followed by a digit word is a validly separated lexeme list *)
Lemma minus_digits_valid w : digits1 w -> valid_seps [LOp XMinus; LWord w] [].
Proof.
  intros [Hne Hd]. unfold valid_seps, gap_at. split; [|split; [|split]].
  - intros i. destruct i as [|i]; constructor.
  - intros i l1 l2 H1 H2 Hf. exfalso.
    destruct i as [|[|i]]; cbn [nth_error] in H1, H2; try discriminate.
    injection H1 as <-. injection H2 as <-.
    unfold fuses in Hf. cbn [wordlike takes_eq is_slash andb orb] in Hf.
    rewrite Bool.orb_false_r in Hf. apply N.eqb_eq in Hf. unfold first_char in Hf. cbn [text] in Hf.
    destruct w as [|c t]; [congruence|]. cbn [hd] in Hf. subst c.
    inversion Hd as [|? ? Hc _]; subst. unfold dec_digit in Hc. lia.
  - intros i l1 l2 l3 H1 H2 H3 Hs. exfalso.
    destruct i as [|[|i]]; cbn [nth_error] in H1, H2, H3; try discriminate.
  - intros i H1 Hb. destruct i as [|[|[|i]]]; cbn [nth_error] in H1; discriminate.
Qed.

Lemma int_text_roundtrip_neg z : i64_min < z < 0 -> tokenize (int_to_string z) = Ok [TMinus; TInt (- z)].
Proof.
  intros Hz. rewrite int_text_neg_i64 by lia.
  assert (Hn : 0 <= - z <= i64_max) by (unfold i64_min, i64_max in *; lia).
  destruct (decimal_spec (- z) (proj1 Hn)) as [Hd1 _].
  pose proof (tokenize_join [LOp XMinus; LWord (decimal (- z))] []) as Hj.
  cbn [join hd tl gap_text map concat text app] in Hj.
  change (op_text XMinus) with [45%N] in Hj. cbn [app] in Hj. rewrite app_nil_r in Hj.
  rewrite Hj.
  - cbn [map denote op_token]. rewrite (word_token_decimal _ Hn). reflexivity.
  - constructor; [exact I|constructor; [|constructor]]. cbn [lexeme_wf]. apply digits1_word. exact Hd1.
  - apply minus_digits_valid. exact Hd1.
Qed.

(* i64_min itself: its digits are 2^63, beyond i64, so they are read by the float parser (C06_dec_overflow) *)
Lemma int_text_roundtrip_min :
  tokenize (int_to_string i64_min) = Ok [TMinus; TFloat (f_of_decimal 9223372036854775808 0)].
Proof. vm_compute. reflexivity. Qed.

(* ========================================================================================== *)
(** * 6. str::from and Display for Value *)

Section WithOracle.
Variable O : std_oracle.

Lemma int_text_str_from z : i64_min <= z <= i64_max ->
  str_from O (VInt z) = (if z <? 0 then 45%N :: decimal (- z) else decimal z) /\
  value_display O (VInt z) = (if z <? 0 then 45%N :: decimal (- z) else decimal z).
Proof.
  intros Hz. cbn [str_from value_display]. rewrite (int_text_i64 z Hz). split; reflexivity.
Qed.

End WithOracle.

(* ========================================================================================== *)
(** * 7. Examples *)

Lemma int_text_examples :
  int_to_string 0 = s2l "0"%string /\
  int_to_string 7 = s2l "7"%string /\
  int_to_string (-7) = s2l "-7"%string /\
  int_to_string 9223372036854775807 = s2l "9223372036854775807"%string /\
  int_to_string (-9223372036854775808) = s2l "-9223372036854775808"%string.
Proof. repeat split; vm_compute; reflexivity. Qed.
