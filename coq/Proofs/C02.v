(* C02: the builder (Model/Builder.v) against the grammar of Spec/Grammar.v.

   Architecture (as in notes/c02_c13_core_spike.v, extended to the whole builder):
   - a builder state "expecting an operand" is  plugO rootf C : the spine C lists the open frames
     (operator, operands so far) from the root of the element to the hole;
   - three insertion lemmas by induction on C: insert_fill (atoms, parenthesised groups and prefix
     operators reach the hole), insert_binary (a binary operator or an assignment walks down the frames that
     bind weaker, stops at the completed operand and rotates it);
   - the element being parsed sits in the root_stack either as the top (Bare) or as the last child of the top
     sequence node (InSeq): `put`;
   - per parenthesis level, the separators `,` and `;` move the level through four stack shapes;
   - expr_parse: induction on the expression with spine, stack and continuation universally quantified.

   The generated tables are used only through Proofs/TableFacts.v. *)
From Coq Require Import Floats.SpecFloat.
Require Import Model.Base Model.Syntax Model.Builder.
Require Import Spec.OpTable Spec.Grammar Proofs.TableFacts.

(* keep the table accessors folded: they are rewritten with the *_doc lemmas of TableFacts *)
#[local] Opaque precedence is_left_to_right is_sequence max_argument_amount is_unary is_leaf descends
       is_assignment is_leftsided_value is_rightsided_value.

(* ---------------------------------------------------------------------------------------------- *)
(* 0. Lists                                                                                        *)
(* ---------------------------------------------------------------------------------------------- *)

Lemma on_last_cons {A} site (g : A -> outcome A) a rest : rest <> [] ->
  on_last site g (a :: rest) = (do r <- on_last site g rest; Ok (a :: r)).
Proof. destruct rest; [congruence|reflexivity]. Qed.

Lemma on_last_app {A} site (g : A -> outcome A) l x :
  on_last site g (l ++ [x]) = (do y <- g x; Ok (l ++ [y])).
Proof.
  induction l as [|a l IH].
  - reflexivity.
  - cbn [app]. rewrite on_last_cons by (destruct l; discriminate). rewrite IH. destruct (g x); reflexivity.
Qed.

Lemma split_last_app {A} (l : list A) x : split_last (l ++ [x]) = Some (l, x).
Proof.
  induction l as [|a l IH]; [reflexivity|].
  cbn [app split_last]. rewrite IH. destruct (l ++ [x]) eqn:E; [destruct l; discriminate|reflexivity].
Qed.

Lemma len_app1 {A} (l : list A) x : len (l ++ [x]) = N.of_nat (S (length l)).
Proof. unfold len. rewrite app_length. cbn [length]. f_equal. lia. Qed.

(* ---------------------------------------------------------------------------------------------- *)
(* 1. Frames and spines                                                                            *)
(* ---------------------------------------------------------------------------------------------- *)

Definition frame := (operator * list node)%type.
Definition fkind (f : frame) : op_kind := kind_of (fst f).

(* exactly one operand is missing *)
Definition wff (f : frame) : Prop :=
  doc_arity (fkind f) = Some (N.of_nat (S (length (snd f)))) /\ doc_atom (fkind f) = false.
(* a frame below the element root: an operator *)
Definition inner (f : frame) : Prop := is_root (fst f) = false /\ doc_prec (fkind f) < 200.

Definition plugf (f : frame) (t : node) : node := Node (fst f) (snd f ++ [t]).
(* the spine with the hole filled by t *)
Fixpoint plug (C : list frame) (t : node) : node :=
  match C with [] => t | f :: C' => plugf f (plug C' t) end.
(* the spine f :: C with the hole open *)
Fixpoint plugO (f : frame) (C : list frame) : node :=
  match C with [] => Node (fst f) (snd f) | g :: C' => plugf f (plugO g C') end.
Definition rootf : frame := (ORootNode, []).

Lemma nop_plugO f C : nop (plugO f C) = fst f. Proof. destruct C; reflexivity. Qed.
Lemma nop_plug_cons f C t : nop (plug (f :: C) t) = fst f. Proof. reflexivity. Qed.
Lemma plug_app C D t : plug (C ++ D) t = plug C (plug D t).
Proof. induction C as [|f C IH]; cbn [app plug]; congruence. Qed.
Lemma plugO_plug f C g : plugO f (C ++ [g]) = plug (f :: C) (Node (fst g) (snd g)).
Proof. revert f; induction C as [|h C IH]; intros f; cbn [app plugO plug]; [reflexivity|]. f_equal. apply IH. Qed.
Lemma plug_snoc C f t : plug (rootf :: C ++ [f]) t = plug (rootf :: C) (plugf f t).
Proof. rewrite app_comm_cons, plug_app. reflexivity. Qed.

Lemma wff_rootf : wff rootf. Proof. split; reflexivity. Qed.

Lemma wff_not_leaf f : wff f -> is_leaf (fst f) = false.
Proof. intros [_ H]. rewrite is_leaf_doc. exact H. Qed.
Lemma wff_open f : wff f -> has_enough_children (fst f) (snd f) = false.
Proof.
  intros [H _]. unfold has_enough_children. rewrite max_args_doc. unfold fkind in H. rewrite H.
  unfold len. apply N.eqb_neq. lia.
Qed.
Lemma wff_full f t : wff f -> has_enough_children (fst f) (snd f ++ [t]) = true.
Proof.
  intros [H _]. unfold has_enough_children. rewrite max_args_doc. unfold fkind in H. rewrite H.
  rewrite len_app1. apply N.eqb_refl.
Qed.

(* ---------------------------------------------------------------------------------------------- *)
(* 2. insert_back_prioritized on a spine                                                           *)
(* ---------------------------------------------------------------------------------------------- *)

Lemma ibp_eq so sch n b :
  insert_back_prioritized (Node so sch) n b =
  if descends so (nop n) || b then
    if is_leaf so then Err EAppendedToLeafNode
    else if has_enough_children so sch then
      do ch' <- on_last 10
                  (fun lc => if descends (nop lc) (nop n)
                             then insert_back_prioritized lc n false
                             else rotate so (Nat.ltb 1 (length sch)) n lc) sch;
      Ok (Node so ch')
    else match max_argument_amount (nop n) with
         | Some 2%N => Err (EWrongOperatorArgumentAmount 2 0)
         | _ => Ok (Node so (sch ++ [n]))
         end
  else Err EPrecedenceViolation.
Proof. reflexivity. Qed.

(* nodes that reach the hole from anywhere: precedence 200 (atoms, parenthesised groups) or prefix
   position; a node that wants two operands cannot start an operand *)
Definition fills (x : node) : Prop :=
  (doc_prec (kind_of (nop x)) = 200 \/ doc_prefix (kind_of (nop x)) = true)
  /\ doc_arity (kind_of (nop x)) <> Some 2%N.

Lemma fills_descends g x : inner g -> fills x -> descends (fst g) (nop x) = true.
Proof.
  intros [_ Hp] [[Hx|Hx] _]; rewrite descends_doc.
  - unfold below. rewrite Hx. unfold fkind in Hp.
    replace (doc_prec (kind_of (fst g)) <? 200) with true by (symmetry; apply Z.ltb_lt; exact Hp). reflexivity.
  - rewrite Hx. apply orb_true_r.
Qed.

Lemma fills_not_binary {A} x (a b : A) : fills x ->
  match max_argument_amount (nop x) with Some 2%N => a | _ => b end = b.
Proof.
  intros [_ H]. rewrite max_args_doc. destruct (doc_arity (kind_of (nop x))) as [[|[p|p|]]|]; try reflexivity.
  destruct p; try reflexivity. congruence.
Qed.

Lemma insert_fill : forall C f x b,
  wff f -> Forall wff C -> Forall inner C -> fills x ->
  descends (fst f) (nop x) || b = true ->
  insert_back_prioritized (plugO f C) x b = Ok (plug (f :: C) x).
Proof.
  induction C as [|g C IH]; intros f x b Hf HC HI Hx Hb.
  - pose proof (wff_not_leaf _ Hf) as Hnl. pose proof (wff_open _ Hf) as Hne.
    destruct f as [o l]; cbn [plugO plug plugf fst snd] in *.
    rewrite ibp_eq, Hb, Hnl, Hne. apply fills_not_binary; exact Hx.
  - pose proof (wff_not_leaf _ Hf) as Hnl. pose proof (fun t => wff_full _ t Hf) as Hen.
    destruct f as [o l]. cbn [plugO plug fst snd] in *. unfold plugf at 1; cbn [fst snd].
    rewrite ibp_eq, Hb, Hnl, Hen, on_last_app.
    rewrite nop_plugO.
    assert (Hd : descends (fst g) (nop x) = true) by (apply fills_descends; [exact (Forall_inv HI)|exact Hx]).
    rewrite Hd, IH; [reflexivity| | | | |].
    + exact (Forall_inv HC).
    + exact (Forall_inv_tail HC).
    + exact (Forall_inv_tail HI).
    + exact Hx.
    + rewrite Hd; reflexivity.
Qed.

(* a binary operator or an assignment: no children yet, neither an atom nor a RootNode *)
Definition opnode (n : node) : Prop :=
  nch n = [] /\ is_leaf (nop n) = false /\ is_root (nop n) = false.

Lemma insert_binary : forall C f t n b,
  wff f -> Forall wff C -> Forall inner C -> (is_root (fst f) = true -> snd f = []) ->
  opnode n ->
  descends (fst f) (nop n) || b = true ->
  Forall (fun g => descends (fst g) (nop n) = true) C ->
  descends (nop t) (nop n) = false ->
  insert_back_prioritized (plug (f :: C) t) n b = Ok (plugO f (C ++ [((nop n, [t]) : frame)])).
Proof.
  induction C as [|g C IH]; intros f t n b Hf HC HI Hr Hn Hb HB Ht.
  - pose proof (wff_not_leaf _ Hf) as Hnl. pose proof (fun t => wff_full _ t Hf) as Hen.
    destruct Hn as (Hn1 & Hn2 & Hn3).
    destruct f as [o l]; cbn [plug plugO app fst snd] in *. unfold plugf in *; cbn [fst snd] in *.
    rewrite ibp_eq, Hb, Hnl, Hen, on_last_app, Ht.
    unfold rotate. rewrite Hn2, Hn3, Hn1. cbn [andb app].
    destruct (is_root o) eqn:Er; cbn [andb]; [|reflexivity].
    rewrite (Hr eq_refl). reflexivity.
  - pose proof (wff_not_leaf _ Hf) as Hnl. pose proof (fun t => wff_full _ t Hf) as Hen.
    destruct f as [o l]. cbn [plug plugO app fst snd] in *. unfold plugf at 1 3; cbn [fst snd].
    rewrite ibp_eq, Hb, Hnl, Hen, on_last_app.
    change (nop (plugf g (plug C t))) with (fst g).
    rewrite (Forall_inv HB).
    rewrite IH; [reflexivity| | | | | | | | ].
    + exact (Forall_inv HC).
    + exact (Forall_inv_tail HC).
    + exact (Forall_inv_tail HI).
    + intros E. destruct (Forall_inv HI) as [Hi _]. congruence.
    + exact Hn.
    + rewrite (Forall_inv HB); reflexivity.
    + exact (Forall_inv_tail HB).
    + exact Ht.
Qed.

(* ---------------------------------------------------------------------------------------------- *)
(* 3. One token of build_loop                                                                      *)
(* ---------------------------------------------------------------------------------------------- *)

(* the body of the loop of tokens_to_operator_tree *)
Definition token_step (t : token) (next : option token) (stack : list node) (lr : bool) : outcome (list node) :=
  match t with
  | TLBrace => Ok (root_node :: stack)
  | TRBrace =>
      if (length stack <=? 1)%nat then Err EUnmatchedRBrace
      else
        do st <- collapse_all_sequences stack;
        match st with
        | n :: st' => insert_node n st'
        | [] => Ok []
        end
  | _ =>
      match token_to_operator t next lr with
      | Some o => insert_node (Node o []) stack
      | None => Ok stack
      end
  end.

Lemma build_loop_cons t ts st lr :
  build_loop (t :: ts) st lr =
  (do st1 <- token_step t (hd_error ts) st lr; build_loop ts st1 (is_rightsided_value t)).
Proof. destruct t; reflexivity. Qed.

Lemma build_loop_node t ts st lr o :
  t <> TLBrace -> t <> TRBrace -> token_to_operator t (hd_error ts) lr = Some o ->
  build_loop (t :: ts) st lr = (do st1 <- insert_node (Node o []) st; build_loop ts st1 (ends_operand t)).
Proof.
  intros H1 H2 H. rewrite build_loop_cons, tok_rightsided_agree.
  destruct t; try congruence; cbn [token_step]; rewrite H; reflexivity.
Qed.

Lemma build_loop_lbrace ts st lr : build_loop (TLBrace :: ts) st lr = build_loop ts (root_node :: st) false.
Proof. rewrite build_loop_cons, tok_rightsided_agree. reflexivity. Qed.

Lemma build_loop_rbrace ts st lr n st' :
  (1 < length st)%nat -> collapse_all_sequences st = Ok (n :: st') ->
  build_loop (TRBrace :: ts) st lr = (do st1 <- insert_node n st'; build_loop ts st1 true).
Proof.
  intros Hl Hc. rewrite build_loop_cons, tok_rightsided_agree. cbn [token_step ends_operand].
  replace (length st <=? 1)%nat with false by (symmetry; apply Nat.leb_gt; exact Hl).
  rewrite Hc. reflexivity.
Qed.

(* ---------------------------------------------------------------------------------------------- *)
(* 4. Where the element being parsed sits in the root_stack                                        *)
(* ---------------------------------------------------------------------------------------------- *)

Inductive cur := Bare | InSeq (o : operator) (init : list node).

Definition put (c : cur) (X : node) (tail : list node) : list node :=
  match c with
  | Bare => X :: tail
  | InSeq o init => Node o (init ++ [X]) :: tail
  end.

Definition cur_ok (c : cur) : Prop :=
  match c with Bare => True | InSeq o _ => doc_sequence (kind_of o) = true end.

Lemma insert_node_put c X tail n :
  cur_ok c -> nop X = ORootNode -> doc_sequence (kind_of (nop n)) = false ->
  insert_node n (put c X tail) = (do X' <- insert_back_prioritized X n true; Ok (put c X' tail)).
Proof.
  intros Hc HX Hn. destruct c as [|o init]; cbn [put insert_node].
  - rewrite !is_sequence_doc, Hn, HX. reflexivity.
  - cbn [nop nch]. cbn [cur_ok] in Hc. rewrite !is_sequence_doc, Hn, Hc, split_last_app. reflexivity.
Qed.

Lemma fills_not_seq x : fills x -> doc_sequence (kind_of (nop x)) = false.
Proof. intros [[H|H] _]; destruct (kind_of (nop x)); try reflexivity; discriminate. Qed.

(* a token whose node fills the hole *)
Lemma feed_fill t ts o C c tail lr :
  t <> TLBrace -> t <> TRBrace -> token_to_operator t (hd_error ts) lr = Some o ->
  fills (Node o []) -> cur_ok c -> Forall wff C -> Forall inner C ->
  build_loop (t :: ts) (put c (plugO rootf C) tail) lr =
  build_loop ts (put c (plug (rootf :: C) (Node o [])) tail) (ends_operand t).
Proof.
  intros H1 H2 Ht Hx Hc HC HI.
  rewrite (build_loop_node t ts _ lr o H1 H2 Ht).
  rewrite insert_node_put; [|exact Hc|apply nop_plugO|exact (fills_not_seq _ Hx)].
  rewrite insert_fill; [reflexivity|exact wff_rootf|exact HC|exact HI|exact Hx|apply orb_true_r].
Qed.

(* a token whose node takes the completed operand x as its left operand *)
Lemma feed_binary t ts o C c tail lr x :
  t <> TLBrace -> t <> TRBrace -> token_to_operator t (hd_error ts) lr = Some o ->
  doc_atom (kind_of o) = false -> is_root o = false -> doc_sequence (kind_of o) = false ->
  cur_ok c -> Forall wff C -> Forall inner C ->
  Forall (fun g => descends (fst g) o = true) C ->
  descends (nop x) o = false ->
  build_loop (t :: ts) (put c (plug (rootf :: C) x) tail) lr =
  build_loop ts (put c (plugO rootf (C ++ [((o, [x]) : frame)])) tail) (ends_operand t).
Proof.
  intros H1 H2 Ht Ha Hr Hs Hc HC HI HB Hx.
  rewrite (build_loop_node t ts _ lr o H1 H2 Ht).
  rewrite insert_node_put; [|exact Hc|apply nop_plug_cons|exact Hs].
  rewrite insert_binary; [reflexivity|exact wff_rootf|exact HC|exact HI|reflexivity| | | |].
  - split; [reflexivity|]. split; [rewrite is_leaf_doc; exact Ha|exact Hr].
  - apply orb_true_r.
  - exact HB.
  - exact Hx.
Qed.

(* ---------------------------------------------------------------------------------------------- *)
(* 5. One parenthesis level: elements, `,` and `;`                                                  *)
(* ---------------------------------------------------------------------------------------------- *)

(* what may follow a complete operand without changing how its last identifier is classified *)
Definition follow_ok (k : list token) : Prop :=
  match k with [] => True | t :: _ => assignment_token t = false /\ starts_operand t = false end.

(* "the element e parses": from an empty element root to the element root holding tree_of e *)
Definition EP0 (e : expr) : Prop := forall k c tail, cur_ok c -> follow_ok k ->
  build_loop (flatten e ++ k) (put c root_node tail) false =
  build_loop k (put c (Node ORootNode [tree_of e]) tail) true.

Definition elem_parses (el : elem) : Prop :=
  match el with None => True | Some e => ok [] e = true -> EP0 e end.
Definition elem_ok (el : elem) : bool := match el with None => true | Some e => ok [] e end.
Definition tuple_ok (t : tuple) : bool := nonempty t && forallb elem_ok t.

Definition flatten_elem (el : elem) : list token := match el with None => [] | Some e => flatten e end.
Definition flatten_tuple (t : tuple) : list token := join TComma (map flatten_elem t).

Lemma flatten_seq_eq (s : seq) : flatten_seq_with flatten s = join TSemicolon (map flatten_tuple s).
Proof. reflexivity. Qed.
Lemma ok_seq_eq (s : seq) : ok_seq_with (ok []) s = nonempty s && forallb tuple_ok s.
Proof. reflexivity. Qed.

Lemma elem_parse el k c tail :
  elem_parses el -> elem_ok el = true -> cur_ok c -> follow_ok k ->
  exists lr', build_loop (flatten_elem el ++ k) (put c root_node tail) false =
              build_loop k (put c (elem_root el) tail) lr'.
Proof.
  intros Hp Hok Hc Hk. destruct el as [e|]; cbn [flatten_elem].
  - exists true. apply (Hp Hok); assumption.
  - exists false. reflexivity.
Qed.

(* ---- the separator steps of insert_node ---- *)

Lemma sep_same_tuple ch below :
  insert_node (Node OTuple []) (Node OTuple ch :: below) = Ok (Node OTuple (ch ++ [root_node]) :: below).
Proof. cbn [insert_node nop nch]. rewrite !is_sequence_doc. reflexivity. Qed.

Lemma sep_same_chain ch below :
  insert_node (Node OChain []) (Node OChain ch :: below) = Ok (Node OChain (ch ++ [root_node]) :: below).
Proof. cbn [insert_node nop nch]. rewrite !is_sequence_doc. reflexivity. Qed.

(* the first separator of a level: the level root becomes the first element, an empty RootNode takes its place *)
Lemma sep_first_tuple X tail : nop X = ORootNode ->
  insert_node (Node OTuple []) (X :: tail) = Ok (Node OTuple [X; root_node] :: root_node :: tail).
Proof. intros HX. cbn [insert_node nop nch]. rewrite !is_sequence_doc, HX. reflexivity. Qed.

Lemma sep_first_chain X tail : nop X = ORootNode ->
  insert_node (Node OChain []) (X :: tail) = Ok (Node OChain [X; root_node] :: root_node :: tail).
Proof. intros HX. cbn [insert_node nop nch]. rewrite !is_sequence_doc, HX. reflexivity. Qed.

(* `,` in a chain: the tuple binds tighter, it takes the chain's last element as its first *)
Lemma sep_tuple_in_chain its X below :
  insert_node (Node OTuple []) (Node OChain (its ++ [X]) :: below) =
  Ok (Node OTuple [X; root_node] :: Node OChain its :: below).
Proof.
  cbn [insert_node nop nch]. rewrite !is_sequence_doc, prec_ltb, split_last_app. reflexivity.
Qed.

(* `;` after a tuple: the tuple is complete; it becomes an element of the chain of the level *)
Lemma sep_chain_after_first_tuple all tail :
  insert_node (Node OChain []) (Node OTuple all :: root_node :: tail) =
  Ok (Node OChain [Node OTuple all; root_node] :: root_node :: tail).
Proof. cbn [insert_node nop nch]. rewrite !is_sequence_doc, prec_ltb. reflexivity. Qed.

Lemma sep_chain_after_tuple all its below :
  insert_node (Node OChain []) (Node OTuple all :: Node OChain its :: below) =
  Ok (Node OChain (its ++ [Node OTuple all; root_node]) :: below).
Proof. cbn [insert_node nop nch]. rewrite !is_sequence_doc, prec_ltb. reflexivity. Qed.

Lemma build_loop_comma ts st lr :
  build_loop (TComma :: ts) st lr = (do st1 <- insert_node (Node OTuple []) st; build_loop ts st1 false).
Proof. apply build_loop_node; [discriminate|discriminate|reflexivity]. Qed.
Lemma build_loop_semi ts st lr :
  build_loop (TSemicolon :: ts) st lr = (do st1 <- insert_node (Node OChain []) st; build_loop ts st1 false).
Proof. apply build_loop_node; [discriminate|discriminate|reflexivity]. Qed.

Lemma follow_comma ts : follow_ok (TComma :: ts). Proof. split; reflexivity. Qed.
Lemma follow_semi ts : follow_ok (TSemicolon :: ts). Proof. split; reflexivity. Qed.
Lemma follow_rbrace ts : follow_ok (TRBrace :: ts). Proof. split; reflexivity. Qed.

(* what follows an element inside a level *)
Definition seps (rest : list (list token)) (sep : token) : list token := flat_map (fun q => sep :: q) rest.

Lemma seps_nil sep : seps [] sep = []. Proof. reflexivity. Qed.
Lemma seps_cons a rest sep : seps (a :: rest) sep = sep :: a ++ seps rest sep. Proof. reflexivity. Qed.

Lemma follow_seps_comma rest k : follow_ok k -> follow_ok (seps rest TComma ++ k).
Proof. destruct rest; [trivial|intros _; apply follow_comma]. Qed.
Lemma follow_seps_semi rest k : follow_ok k -> follow_ok (seps rest TSemicolon ++ k).
Proof. destruct rest; [trivial|intros _; apply follow_semi]. Qed.

Section Level.
Variable tail : list node.      (* the stack below this level *)

(* ---- a tuple ---- *)

(* the further elements `, el` of an open Tuple *)
Lemma tuple_rest : forall (rest : list elem) all below k lr,
  Forall elem_parses rest -> forallb elem_ok rest = true -> follow_ok k ->
  exists lr', build_loop (seps (map flatten_elem rest) TComma ++ k) (Node OTuple all :: below) lr =
              build_loop k (Node OTuple (all ++ map elem_root rest) :: below) lr'.
Proof.
  induction rest as [|el rest IH]; intros all below k lr Hp Hok Hk.
  - exists lr. cbn [map]. rewrite seps_nil, app_nil_r. reflexivity.
  - cbn [map forallb] in *. rewrite seps_cons. apply andb_prop in Hok. destruct Hok as [Hok1 Hok2].
    cbn [app]. rewrite <- !app_assoc. rewrite build_loop_comma, sep_same_tuple. cbn [bind].
    destruct (elem_parse el (seps (map flatten_elem rest) TComma ++ k) (InSeq OTuple all) below
                (Forall_inv Hp) Hok1 eq_refl (follow_seps_comma _ _ Hk)) as [lr1 E1].
    cbn [put] in E1. rewrite E1.
    destruct (IH (all ++ [elem_root el]) below k lr1 (Forall_inv_tail Hp) Hok2 Hk) as [lr2 E2].
    exists lr2. rewrite E2, <- app_assoc. reflexivity.
Qed.

(* a chain item starts from an open element root: the level root itself (no `;` yet), or the last child of
   the level's Chain *)
Definition item_cur (its : list node) : cur := match its with [] => Bare | _ => InSeq OChain its end.
Definition item_tail (its : list node) : list node := match its with [] => tail | _ => root_node :: tail end.
Definition open_state (its : list node) : list node := put (item_cur its) root_node (item_tail its).

(* what lies below an open Tuple of the level *)
Definition tuple_below (its : list node) : list node :=
  match its with [] => root_node :: tail | _ => Node OChain its :: root_node :: tail end.

(* the stack after a chain item t has been read, `its` being the items of the level before it *)
Definition item_state (its : list node) (t : tuple) : list node :=
  match t with
  | [el] => put (item_cur its) (elem_root el) (item_tail its)
  | _ => Node OTuple (map elem_root t) :: tuple_below its
  end.

Lemma item_cur_ok its : cur_ok (item_cur its).
Proof. destruct its; cbn; trivial. Qed.

Lemma item_parse its (t : tuple) k :
  Forall elem_parses t -> tuple_ok t = true -> follow_ok k ->
  exists lr', build_loop (flatten_tuple t ++ k) (open_state its) false =
              build_loop k (item_state its t) lr'.
Proof.
  intros Hp Hok Hk. destruct t as [|el rest]; [discriminate|].
  unfold tuple_ok in Hok. cbn [nonempty forallb andb] in Hok. apply andb_prop in Hok. destruct Hok as [Hok1 Hok2].
  unfold flatten_tuple, open_state. cbn [map join]. fold (seps (map flatten_elem rest) TComma).
  rewrite <- app_assoc.
  destruct (elem_parse el (seps (map flatten_elem rest) TComma ++ k) (item_cur its) (item_tail its)
              (Forall_inv Hp) Hok1 (item_cur_ok its) (follow_seps_comma _ _ Hk)) as [lr1 E1].
  rewrite E1. clear E1.
  destruct rest as [|el2 rest].
  - exists lr1. reflexivity.
  - cbn [map forallb] in *. rewrite seps_cons. apply andb_prop in Hok2. destruct Hok2 as [Hok2 Hok3].
    pose proof (Forall_inv_tail Hp) as Hp'.
    cbn [app]. rewrite <- !app_assoc. rewrite build_loop_comma.
    assert (Hcomma : insert_node (Node OTuple []) (put (item_cur its) (elem_root el) (item_tail its)) =
                     Ok (put (InSeq OTuple [elem_root el]) root_node (tuple_below its))).
    { destruct its as [|i its]; cbn [item_cur item_tail put tuple_below].
      - apply sep_first_tuple. reflexivity.
      - apply (sep_tuple_in_chain (i :: its)). }
    rewrite Hcomma. cbn [bind].
    destruct (elem_parse el2 (seps (map flatten_elem rest) TComma ++ k) (InSeq OTuple [elem_root el])
                (tuple_below its) (Forall_inv Hp') Hok2 eq_refl (follow_seps_comma _ _ Hk)) as [lr2 E2].
    rewrite E2. clear E2. cbn [put app].
    destruct (tuple_rest rest [elem_root el; elem_root el2] (tuple_below its) k lr2
                (Forall_inv_tail Hp') Hok3 Hk) as [lr3 E3].
    exists lr3. rewrite E3. reflexivity.
Qed.

(* ---- a chain ---- *)

Lemma item_cur_snoc its x : item_cur (its ++ [x]) = InSeq OChain (its ++ [x]).
Proof. destruct its; reflexivity. Qed.
Lemma item_tail_snoc its x : item_tail (its ++ [x]) = root_node :: tail.
Proof. destruct its; reflexivity. Qed.

(* `;` after an item: the item joins the level's Chain, a new element is opened *)
Lemma semi_item its (t : tuple) : t <> [] ->
  insert_node (Node OChain []) (item_state its t) = Ok (open_state (its ++ [item_tree t])).
Proof.
  intros Ht. unfold open_state. rewrite item_cur_snoc, item_tail_snoc. cbn [put].
  destruct t as [|el [|el2 rest]]; [congruence| |].
  - (* a single element *)
    cbn [item_state item_tree item_tree_with]. fold (elem_root el).
    destruct its as [|i its]; cbn [item_cur item_tail put app].
    + apply sep_first_chain. reflexivity.
    + rewrite sep_same_chain. reflexivity.
  - (* a tuple *)
    cbn [item_state item_tree item_tree_with]. fold elem_root.
    destruct its as [|i its]; cbn [tuple_below].
    + apply sep_chain_after_first_tuple.
    + rewrite sep_chain_after_tuple. rewrite <- app_assoc. reflexivity.
Qed.

(* the stack at the end of the level *)
Fixpoint chain_end (its : list node) (t : tuple) (ts : list tuple) : list node :=
  match ts with
  | [] => item_state its t
  | t' :: ts' => chain_end (its ++ [item_tree t]) t' ts'
  end.

Lemma chain_rest : forall (ts : list tuple) its (t : tuple) k lr,
  Forall (Forall elem_parses) ts -> forallb tuple_ok ts = true -> t <> [] -> follow_ok k ->
  exists lr', build_loop (seps (map flatten_tuple ts) TSemicolon ++ k) (item_state its t) lr =
              build_loop k (chain_end its t ts) lr'.
Proof.
  induction ts as [|t' ts IH]; intros its t k lr Hp Hok Ht Hk.
  - exists lr. cbn [map chain_end]. rewrite seps_nil. reflexivity.
  - cbn [map forallb chain_end] in *. rewrite seps_cons. apply andb_prop in Hok. destruct Hok as [Hok1 Hok2].
    cbn [app]. rewrite <- !app_assoc. rewrite build_loop_semi, (semi_item its t Ht). cbn [bind].
    destruct (item_parse (its ++ [item_tree t]) t' (seps (map flatten_tuple ts) TSemicolon ++ k)
                (Forall_inv Hp) Hok1 (follow_seps_semi _ _ Hk)) as [lr1 E1].
    rewrite E1.
    apply IH; [exact (Forall_inv_tail Hp)|exact Hok2| |exact Hk].
    destruct t'; [discriminate|discriminate].
Qed.

(* the whole level, from `(` (or the start of the input) to just before `)` (or the end) *)
Definition level_end (s : seq) : list node :=
  match s with [] => root_node :: tail | t :: ts => chain_end [] t ts end.

Lemma level_parse (s : seq) k :
  Forall (Forall elem_parses) s -> ok_seq_with (ok []) s = true -> follow_ok k ->
  exists lr', build_loop (flatten_seq_with flatten s ++ k) (root_node :: tail) false =
              build_loop k (level_end s) lr'.
Proof.
  intros Hp Hok Hk. rewrite flatten_seq_eq. rewrite ok_seq_eq in Hok.
  destruct s as [|t ts]; [discriminate|].
  cbn [nonempty forallb andb map join level_end] in *. apply andb_prop in Hok. destruct Hok as [Hok1 Hok2].
  fold (seps (map flatten_tuple ts) TSemicolon). rewrite <- app_assoc.
  destruct (item_parse [] t (seps (map flatten_tuple ts) TSemicolon ++ k)
              (Forall_inv Hp) Hok1 (follow_seps_semi _ _ Hk)) as [lr1 E1].
  change (open_state []) with (root_node :: tail) in E1. rewrite E1.
  apply chain_rest; [exact (Forall_inv_tail Hp)|exact Hok2| |exact Hk].
  destruct t; discriminate.
Qed.

(* ---- closing the level: collapse_all_sequences ---- *)

(* the children of the level's RootNode, `its` being the chain items before the last item t *)
Definition level_children (its : list node) (t : tuple) : list node :=
  match its with
  | [] => match t with
          | [el] => match el with None => [] | Some e => [tree_of e] end
          | _ => [Node OTuple (map elem_root t)]
          end
  | _ => [Node OChain (its ++ [item_tree t])]
  end.

Lemma root_not_too_many ch : (length ch <= 1)%nat -> has_too_many_children ORootNode ch = false.
Proof.
  intros H. unfold has_too_many_children. rewrite max_args_doc. cbn [kind_of doc_arity doc_sequence doc_atom doc_prefix].
  unfold len. apply N.ltb_ge. lia.
Qed.

Lemma collapse_root ch st : (length ch <= 1)%nat ->
  collapse_loop (Node ORootNode ch) st = Ok (Node ORootNode ch :: st).
Proof. intros H. destruct st; cbn [collapse_loop nop nch is_root]; rewrite root_not_too_many by exact H; reflexivity. Qed.

Lemma collapse_seq o ch hi st : doc_sequence (kind_of o) = true -> is_root o = false ->
  collapse_loop (Node o ch) (hi :: st) = collapse_loop (Node (nop hi) (nch hi ++ [Node o ch])) st.
Proof. intros Hs Hr. cbn [collapse_loop nop nch]. rewrite Hr, is_sequence_doc, Hs. reflexivity. Qed.

Lemma collapse_item its (t : tuple) : t <> [] ->
  collapse_all_sequences (item_state its t) = Ok (Node ORootNode (level_children its t) :: tail).
Proof.
  intros Ht. destruct t as [|el [|el2 rest]]; [congruence| |].
  - cbn [item_state]. destruct its as [|i its]; cbn [item_cur item_tail put collapse_all_sequences level_children].
    + unfold elem_root, elem_root_with. apply collapse_root. destruct el; cbn; lia.
    + rewrite collapse_seq by reflexivity. cbn [nop nch root_node app]. apply collapse_root. cbn; lia.
  - cbn [item_state]. destruct its as [|i its]; cbn [tuple_below collapse_all_sequences level_children].
    + rewrite collapse_seq by reflexivity. cbn [nop nch root_node app]. apply collapse_root. cbn; lia.
    + rewrite collapse_seq by reflexivity. cbn [nop nch]. rewrite collapse_seq by reflexivity.
      cbn [nop nch root_node app]. apply collapse_root. cbn; lia.
Qed.

Fixpoint final_children (its : list node) (t : tuple) (ts : list tuple) : list node :=
  match ts with
  | [] => level_children its t
  | t' :: ts' => final_children (its ++ [item_tree t]) t' ts'
  end.

Lemma collapse_chain_end : forall ts its (t : tuple), t <> [] -> forallb tuple_ok ts = true ->
  collapse_all_sequences (chain_end its t ts) = Ok (Node ORootNode (final_children its t ts) :: tail).
Proof.
  induction ts as [|t' ts IH]; intros its t Ht Hok; cbn [chain_end final_children].
  - apply collapse_item. exact Ht.
  - cbn [forallb] in Hok. apply andb_prop in Hok. destruct Hok as [Hok1 Hok2].
    apply IH; [destruct t'; discriminate|exact Hok2].
Qed.

Lemma final_children_chain : forall ts its t, (its <> [] \/ ts <> []) ->
  final_children its t ts = [Node OChain (its ++ map item_tree (t :: ts))].
Proof.
  induction ts as [|t' ts IH]; intros its t H; cbn [final_children].
  - destruct H as [H|H]; [|congruence]. destruct its; [congruence|reflexivity].
  - rewrite IH by (left; destruct its; discriminate). rewrite <- app_assoc. reflexivity.
Qed.

Lemma final_children_spec (t : tuple) ts :
  final_children [] t ts = seq_children_with tree_of (t :: ts).
Proof.
  destruct ts as [|t' ts].
  - reflexivity.
  - rewrite final_children_chain by (right; discriminate). reflexivity.
Qed.

Lemma collapse_level (s : seq) : ok_seq_with (ok []) s = true ->
  collapse_all_sequences (level_end s) = Ok (Node ORootNode (seq_children_with tree_of s) :: tail).
Proof.
  intros Hok. rewrite ok_seq_eq in Hok. destruct s as [|t ts]; [discriminate|].
  cbn [nonempty forallb andb level_end] in *. apply andb_prop in Hok. destruct Hok as [Hok1 Hok2].
  rewrite collapse_chain_end; [rewrite final_children_spec; reflexivity|destruct t; discriminate|exact Hok2].
Qed.

Lemma item_state_length its t : (length tail < length (item_state its t))%nat.
Proof.
  destruct t as [|el [|el2 rest]]; destruct its; cbn [item_state item_cur item_tail tuple_below put length]; lia.
Qed.
Lemma chain_end_length : forall ts its t, (length tail < length (chain_end its t ts))%nat.
Proof. induction ts as [|t' ts IH]; intros; cbn [chain_end]; [apply item_state_length|apply IH]. Qed.
Lemma level_end_length s : (length tail < length (level_end s))%nat.
Proof. destruct s; cbn [level_end length]; [lia|apply chain_end_length]. Qed.

End Level.

(* ---------------------------------------------------------------------------------------------- *)
(* 6. Expressions                                                                                  *)
(* ---------------------------------------------------------------------------------------------- *)

Definition opt_all {A} (P : A -> Prop) (o : option A) : Prop := match o with None => True | Some a => P a end.

(* induction on expressions, through the nested sequence of a parenthesised group *)
Lemma expr_ind' (P : expr -> Prop) :
  (forall l, P (Lit l)) -> (forall x, P (Var x)) ->
  (forall o l r, P l -> P r -> P (Bin o l r)) ->
  (forall u e, P e -> P (Pre u e)) ->
  (forall a x e, P e -> P (Asg a x e)) ->
  (forall f a, P a -> P (Call f a)) ->
  (forall s, Forall (Forall (opt_all P)) s -> P (Paren s)) ->
  forall e, P e.
Proof.
  intros HLit HVar HBin HPre HAsg HCall HParen. fix IH 1. intros [l|x|o l r|u e|a x e|f a|s].
  - apply HLit.
  - apply HVar.
  - apply HBin; apply IH.
  - apply HPre; apply IH.
  - apply HAsg; apply IH.
  - apply HCall; apply IH.
  - apply HParen.
    induction s as [|t s IHs]; constructor; [|exact IHs].
    induction t as [|el t IHt]; constructor; [|exact IHt].
    destruct el as [e|]; [apply IH|exact I].
Qed.

(* the expression theorem: spine C, position in the stack (c, tail) and continuation k are arbitrary.
   lr is last_token_is_rightsided_value: false in operand position, except directly after a function name,
   where it is true -- harmless, because a function argument never starts with a minus. *)
Definition EP (e : expr) : Prop := forall C k c tail lr,
  cur_ok c -> Forall wff C -> Forall inner C -> ok (map fkind C) e = true -> follow_ok k ->
  is_arg e = true \/ lr = false ->
  build_loop (flatten e ++ k) (put c (plugO rootf C) tail) lr =
  build_loop k (put c (plug (rootf :: C) (tree_of e)) tail) true.

Lemma EP_EP0 e : EP e -> ok [] e = true -> EP0 e.
Proof.
  intros H Hok k c tail Hc Hk.
  exact (H [] k c tail false Hc (Forall_nil _) (Forall_nil _) Hok Hk (or_intror eq_refl)).
Qed.

Lemma top_kind_tree e : kind_of (nop (tree_of e)) = top_kind e.
Proof. destruct e as [[| | |]| |[]|[]|[]| |]; reflexivity. Qed.

(* ---- the tokens of the grammar ---- *)

Lemma lit_token_op l next lr : token_to_operator (lit_token l) next lr = Some (OConst (lit_value l)).
Proof. destruct l; reflexivity. Qed.
Lemma lit_token_nb l : lit_token l <> TLBrace /\ lit_token l <> TRBrace /\ ends_operand (lit_token l) = true.
Proof. destruct l; repeat split; discriminate. Qed.

Lemma binop_token_op o next : token_to_operator (tok_of_binop o) next true = Some (op_of_binop o).
Proof. destruct o; reflexivity. Qed.
Lemma binop_token_nb o :
  tok_of_binop o <> TLBrace /\ tok_of_binop o <> TRBrace /\ ends_operand (tok_of_binop o) = false.
Proof. destruct o; repeat split; discriminate. Qed.
Lemma follow_binop o ts : follow_ok (tok_of_binop o :: ts).
Proof. destruct o; split; reflexivity. Qed.

Lemma unop_token_op u next : token_to_operator (tok_of_unop u) next false = Some (op_of_unop u).
Proof. destruct u; reflexivity. Qed.
Lemma unop_token_nb u :
  tok_of_unop u <> TLBrace /\ tok_of_unop u <> TRBrace /\ ends_operand (tok_of_unop u) = false.
Proof. destruct u; repeat split; discriminate. Qed.

Lemma asgop_token_op a next lr : token_to_operator (tok_of_asgop a) next lr = Some (op_of_asgop a).
Proof. destruct a; reflexivity. Qed.
Lemma asgop_token_nb a :
  tok_of_asgop a <> TLBrace /\ tok_of_asgop a <> TRBrace /\ ends_operand (tok_of_asgop a) = false
  /\ assignment_token (tok_of_asgop a) = true.
Proof. destruct a; repeat split; discriminate. Qed.

(* identifier classification by the next token *)
Definition classify (id : str) (next : option token) : operator :=
  match next with
  | Some nx =>
      if assignment_token nx then OVariableIdentifierWrite id
      else if starts_operand nx then OFunctionIdentifier id
      else OVariableIdentifierRead id
  | None => OVariableIdentifierRead id
  end.

Lemma ident_token_op id next lr : token_to_operator (TIdentifier id) next lr = Some (classify id next).
Proof.
  destruct next as [nx|]; cbn [token_to_operator classify]; [|reflexivity].
  rewrite tok_assignment_agree, tok_leftsided_agree. reflexivity.
Qed.

Lemma classify_follow id k : follow_ok k -> classify id (hd_error k) = OVariableIdentifierRead id.
Proof. destruct k as [|t k]; [reflexivity|]. intros [H1 H2]. cbn [hd_error classify]. rewrite H1, H2. reflexivity. Qed.

(* a function argument starts with a token that starts an operand *)
Lemma arg_head a : is_arg a = true ->
  exists t ts, flatten a = t :: ts /\ starts_operand t = true /\ assignment_token t = false.
Proof.
  destruct a as [l|x|o l r|u e|a x e|f a|s]; try discriminate; intros _; cbn [flatten].
  - exists (lit_token l), []. destruct l; repeat split; reflexivity.
  - exists (TIdentifier x), []. repeat split; reflexivity.
  - exists (TIdentifier f), (flatten a). repeat split; reflexivity.
  - exists TLBrace, (flatten_seq_with flatten s ++ [TRBrace]). repeat split; reflexivity.
Qed.

(* ---- the frames the grammar opens ---- *)

Lemma frame_bin o x : wff (op_of_binop o, [x]) /\ inner (op_of_binop o, [x]).
Proof. destruct o; repeat split; reflexivity. Qed.
Lemma frame_pre u : wff (op_of_unop u, []) /\ inner (op_of_unop u, []).
Proof. destruct u; repeat split; reflexivity. Qed.
Lemma frame_asg a x : wff (op_of_asgop a, [x]) /\ inner (op_of_asgop a, [x]).
Proof. destruct a; repeat split; reflexivity. Qed.
Lemma frame_call f : wff (OFunctionIdentifier f, []) /\ inner (OFunctionIdentifier f, []).
Proof. repeat split; reflexivity. Qed.

Lemma Forall_snoc {A} (P : A -> Prop) l x : Forall P l -> P x -> Forall P (l ++ [x]).
Proof. intros H1 H2. apply Forall_app. split; [exact H1|constructor; [exact H2|constructor]]. Qed.

(* all frames bind weaker than the operator o: they let it descend *)
Lemma frames_below (C : list frame) (o : operator) :
  forallb (fun f => below f (kind_of o)) (map fkind C) = true ->
  Forall (fun g => descends (fst g) o = true) C.
Proof.
  induction C as [|g C IH]; cbn [map forallb]; intros H; constructor.
  - apply andb_prop in H. destruct H as [H _]. rewrite descends_doc. unfold fkind in H. rewrite H. reflexivity.
  - apply IH. apply andb_prop in H. tauto.
Qed.

Lemma fills_const v : fills (Node (OConst v) []). Proof. split; [left; reflexivity|discriminate]. Qed.
Lemma fills_read x : fills (Node (OVariableIdentifierRead x) []). Proof. split; [left; reflexivity|discriminate]. Qed.
Lemma fills_write x : fills (Node (OVariableIdentifierWrite x) []). Proof. split; [left; reflexivity|discriminate]. Qed.
Lemma fills_fn f : fills (Node (OFunctionIdentifier f) []). Proof. split; [right; reflexivity|discriminate]. Qed.
Lemma fills_unop u : fills (Node (op_of_unop u) []). Proof. destruct u; (split; [right; reflexivity|discriminate]). Qed.
Lemma fills_root ch : fills (Node ORootNode ch). Proof. split; [left; reflexivity|discriminate]. Qed.

Lemma put_nonempty c X tail : (0 < length (put c X tail))%nat.
Proof. destruct c; cbn; lia. Qed.

Theorem expr_parse : forall e, EP e.
Proof.
  induction e as [l|x|o l r IHl IHr|u e IHe|a x e IHe|f a IHa|s IHs] using expr_ind';
    intros C k c tail lr Hc HC HI Hok Hk Hlr.
  - (* Lit *)
    cbn [flatten tree_of app]. destruct (lit_token_nb l) as (N1 & N2 & N3).
    rewrite (feed_fill _ _ (OConst (lit_value l))); [rewrite N3; reflexivity|exact N1|exact N2|apply lit_token_op|apply fills_const|exact Hc|exact HC|exact HI].
  - (* Var *)
    cbn [flatten tree_of app].
    rewrite (feed_fill _ _ (OVariableIdentifierRead x)); [reflexivity|discriminate|discriminate| |apply fills_read|exact Hc|exact HC|exact HI].
    rewrite ident_token_op, classify_follow by exact Hk. reflexivity.
  - (* Bin *)
    destruct Hlr as [Hlr|Hlr]; [discriminate|subst lr].
    cbn [flatten tree_of ok] in *.
    apply andb_prop in Hok. destruct Hok as [Hok Hr]. apply andb_prop in Hok. destruct Hok as [Hok Hnb].
    apply andb_prop in Hok. destruct Hok as [Hl HF]. apply negb_true_iff in Hnb.
    destruct (binop_token_nb o) as (N1 & N2 & N3). destruct (frame_bin o (tree_of l)) as [W I].
    rewrite <- app_assoc. cbn [app]. rewrite (IHl C _ c tail false Hc HC HI Hl (follow_binop o _) (or_intror eq_refl)).
    rewrite (feed_binary _ _ (op_of_binop o)); [|exact N1|exact N2|apply binop_token_op|destruct o; reflexivity|destruct o; reflexivity|destruct o; reflexivity|exact Hc|exact HC|exact HI| | ].
    + rewrite N3.
      rewrite (IHr (C ++ [((op_of_binop o, [tree_of l]) : frame)]) k c tail false Hc (Forall_snoc _ _ _ HC W) (Forall_snoc _ _ _ HI I)).
      * rewrite plug_snoc. reflexivity.
      * rewrite map_app. exact Hr.
      * exact Hk.
      * right; reflexivity.
    + apply frames_below. exact HF.
    + rewrite descends_doc, top_kind_tree. unfold bkind in Hnb. rewrite Hnb. destruct o; reflexivity.
  - (* Pre *)
    destruct Hlr as [Hlr|Hlr]; [discriminate|subst lr].
    cbn [flatten tree_of ok app] in *.
    destruct (unop_token_nb u) as (N1 & N2 & N3). destruct (frame_pre u) as [W I].
    rewrite (feed_fill _ _ (op_of_unop u)); [|exact N1|exact N2|apply unop_token_op|apply fills_unop|exact Hc|exact HC|exact HI].
    rewrite N3. change (Node (op_of_unop u) []) with (Node (fst (op_of_unop u, @nil node)) (snd (op_of_unop u, @nil node))).
    rewrite <- plugO_plug.
    rewrite (IHe (C ++ [((op_of_unop u, []) : frame)]) k c tail false Hc (Forall_snoc _ _ _ HC W) (Forall_snoc _ _ _ HI I)).
    + rewrite plug_snoc. reflexivity.
    + rewrite map_app. exact Hok.
    + exact Hk.
    + right; reflexivity.
  - (* Asg *)
    cbn [flatten tree_of ok app] in *.
    apply andb_prop in Hok. destruct Hok as [HF He].
    destruct (asgop_token_nb a) as (N1 & N2 & N3 & N4). destruct (frame_asg a (Node (OVariableIdentifierWrite x) [])) as [W I].
    rewrite (feed_fill _ _ (OVariableIdentifierWrite x)); [|discriminate|discriminate| |apply fills_write|exact Hc|exact HC|exact HI].
    2:{ rewrite ident_token_op. cbn [hd_error classify]. rewrite N4. reflexivity. }
    rewrite (feed_binary _ _ (op_of_asgop a)); [|exact N1|exact N2|apply asgop_token_op|destruct a; reflexivity|destruct a; reflexivity|destruct a; reflexivity|exact Hc|exact HC|exact HI| | ].
    + rewrite N3.
      rewrite (IHe (C ++ [((op_of_asgop a, [Node (OVariableIdentifierWrite x) []]) : frame)]) k c tail false Hc (Forall_snoc _ _ _ HC W) (Forall_snoc _ _ _ HI I)).
      * rewrite plug_snoc. reflexivity.
      * rewrite map_app. exact He.
      * exact Hk.
      * right; reflexivity.
    + apply frames_below. exact HF.
    + rewrite descends_doc. destruct a; reflexivity.
  - (* Call *)
    cbn [flatten tree_of ok app] in *.
    apply andb_prop in Hok. destruct Hok as [Harg Ha].
    destruct (frame_call f) as [W I].
    rewrite (feed_fill _ _ (OFunctionIdentifier f)); [|discriminate|discriminate| |apply fills_fn|exact Hc|exact HC|exact HI].
    2:{ rewrite ident_token_op. destruct (arg_head a Harg) as (t & ts & E & S1 & S2).
        rewrite E. cbn [app hd_error classify]. rewrite S2, S1. reflexivity. }
    cbn [ends_operand].
    change (Node (OFunctionIdentifier f) []) with (Node (fst (OFunctionIdentifier f, @nil node)) (snd (OFunctionIdentifier f, @nil node))).
    rewrite <- plugO_plug.
    rewrite (IHa (C ++ [((OFunctionIdentifier f, []) : frame)]) k c tail true Hc (Forall_snoc _ _ _ HC W) (Forall_snoc _ _ _ HI I)).
    + rewrite plug_snoc. reflexivity.
    + rewrite map_app. exact Ha.
    + exact Hk.
    + left; exact Harg.
  - (* Paren *)
    cbn [flatten tree_of ok] in *. cbn [app]. rewrite <- app_assoc. cbn [app].
    rewrite build_loop_lbrace.
    assert (Hp : Forall (Forall elem_parses) s).
    { eapply Forall_impl; [|exact IHs]. intros t Ht. eapply Forall_impl; [|exact Ht].
      intros [e|] He; cbn [elem_parses opt_all] in *; [|exact I]. intros Hoke. apply EP_EP0; assumption. }
    destruct (level_parse (put c (plugO rootf C) tail) s (TRBrace :: k) Hp Hok (follow_rbrace k)) as [lr' E].
    rewrite E. clear E.
    rewrite (build_loop_rbrace k _ lr' _ _
               (Nat.le_lt_trans _ _ _ (put_nonempty c (plugO rootf C) tail) (level_end_length _ s))
               (collapse_level _ s Hok)).
    rewrite insert_node_put; [|exact Hc|apply nop_plugO|reflexivity].
    rewrite insert_fill; [reflexivity|exact wff_rootf|exact HC|exact HI|apply fills_root|apply orb_true_r].
Qed.

(* ---------------------------------------------------------------------------------------------- *)
(* 7. Whole inputs                                                                                 *)
(* ---------------------------------------------------------------------------------------------- *)

Lemma all_elems_parse (s : seq) : Forall (Forall elem_parses) s.
Proof.
  induction s as [|t s IHs]; constructor; [|exact IHs].
  induction t as [|el t IHt]; constructor; [|exact IHt].
  destruct el as [e|]; cbn [elem_parses]; [|exact I]. intros Hok. apply EP_EP0; [apply expr_parse|exact Hok].
Qed.

(* C05_tree: any sequence, at any nesting depth *)
Theorem seq_parse (s : seq) : ok_seq s ->
  tokens_to_operator_tree (flatten_seq s) = Ok (tree_of_seq_top s).
Proof.
  intros Hok. unfold tokens_to_operator_tree, flatten_seq, ok_seq in *.
  destruct (level_parse [] s [] (all_elems_parse s) Hok I) as [lr' E].
  rewrite app_nil_r in E. rewrite E. cbn [build_loop bind].
  rewrite (collapse_level [] s Hok). reflexivity.
Qed.

Lemma ok_top_seq e : ok_top e -> ok_seq [[Some e]].
Proof. unfold ok_top, ok_seq, ok_seq_with. cbn [nonempty forallb andb]. intros ->. reflexivity. Qed.

Lemma flatten_single e : flatten_seq [[Some e]] = flatten e.
Proof. unfold flatten_seq, flatten_seq_with. cbn [map join flat_map]. rewrite !app_nil_r. reflexivity. Qed.

(* C02_parse *)
Theorem expr_parse_top (e : expr) : ok_top e ->
  tokens_to_operator_tree (flatten e) = Ok (Node ORootNode [tree_of e]).
Proof. intros H. rewrite <- flatten_single. apply (seq_parse [[Some e]]). apply ok_top_seq. exact H. Qed.

(* ---------------------------------------------------------------------------------------------- *)
(* 8. The two one-token decisions                                                                  *)
(* ---------------------------------------------------------------------------------------------- *)

(* C02_minus: the token after prev is a minus *)
Lemma minus_decision prev ts st lr :
  build_loop (prev :: TMinus :: ts) st lr =
  (do st1 <- token_step prev (Some TMinus) st lr;
   do st2 <- insert_node (Node (if ends_operand prev then OSub else ONeg) []) st1;
   build_loop ts st2 false).
Proof.
  rewrite build_loop_cons. cbn [hd_error]. destruct (token_step prev (Some TMinus) st lr) as [st1| |]; cbn [bind]; try reflexivity.
  rewrite (build_loop_node TMinus ts st1 (is_rightsided_value prev) (if ends_operand prev then OSub else ONeg));
    [reflexivity|discriminate|discriminate|].
  rewrite tok_rightsided_agree. reflexivity.
Qed.

(* C02_ident *)
Lemma ident_decision id ts st lr :
  build_loop (TIdentifier id :: ts) st lr =
  (do st1 <- insert_node (Node (classify id (hd_error ts)) []) st; build_loop ts st1 true).
Proof. apply build_loop_node; [discriminate|discriminate|apply ident_token_op]. Qed.

(* ---------------------------------------------------------------------------------------------- *)
(* 9. The required parentheses exist for every AST                                                 *)
(* ---------------------------------------------------------------------------------------------- *)

Lemma raw_ind' (P : raw_expr -> Prop) :
  (forall l, P (RLit l)) -> (forall x, P (RVar x)) ->
  (forall o l r, P l -> P r -> P (RBin o l r)) ->
  (forall u e, P e -> P (RPre u e)) ->
  (forall a x e, P e -> P (RAsg a x e)) ->
  (forall f a, P a -> P (RCall f a)) ->
  (forall s, Forall (Forall (opt_all P)) s -> P (RSeq s)) ->
  forall r, P r.
Proof.
  intros HLit HVar HBin HPre HAsg HCall HSeq. fix IH 1. intros [l|x|o l r|u e|a x e|f a|s].
  - apply HLit.
  - apply HVar.
  - apply HBin; apply IH.
  - apply HPre; apply IH.
  - apply HAsg; apply IH.
  - apply HCall; apply IH.
  - apply HSeq.
    induction s as [|t s IHs]; constructor; [|exact IHs].
    induction t as [|el t IHt]; constructor; [|exact IHt].
    destruct el as [e|]; [apply IH|exact I].
Qed.

Lemma ok_PExpr F e : ok F (PExpr e) = ok [] e.
Proof. cbn [PExpr ok]. unfold ok_seq_with. cbn [nonempty forallb andb]. rewrite !andb_true_r. reflexivity. Qed.

Lemma strip_PExpr e : strip (PExpr e) = strip e.
Proof. reflexivity. Qed.

Lemma raw_is_arg_paren_min F r : raw_is_arg r = true -> is_arg (paren_min F r) = true.
Proof. destruct r; try discriminate; reflexivity. Qed.

Lemma root_not_below_bin o : below QRootNode (bkind o) = false.
Proof. destruct o; reflexivity. Qed.

Lemma ok_seq_with_map {A B} (f : A -> B) (p : A -> bool) (q : B -> bool) (s : list (list (option A))) :
  Forall (Forall (opt_all (fun a => p a = true -> q (f a) = true))) s ->
  ok_seq_with p s = true -> ok_seq_with q (map (map (option_map f)) s) = true.
Proof.
  unfold ok_seq_with. intros H Hok. apply andb_prop in Hok. destruct Hok as [Hne Hall].
  apply andb_true_intro. split; [destruct s; [discriminate|reflexivity]|]. clear Hne.
  induction H as [|t s Ht Hs IHs]; [reflexivity|].
  cbn [map forallb] in *. apply andb_prop in Hall. destruct Hall as [Ht1 Hs1].
  apply andb_true_intro. split; [|apply IHs; exact Hs1].
  apply andb_prop in Ht1. destruct Ht1 as [Hne Hel].
  apply andb_true_intro. split; [destruct t; [discriminate|reflexivity]|]. clear Hne.
  induction Ht as [|el t Hel1 Ht IHt]; [reflexivity|].
  cbn [map forallb] in *. apply andb_prop in Hel. destruct Hel as [He Hrest].
  apply andb_true_intro. split; [|apply IHt; exact Hrest].
  destruct el as [a|]; cbn [option_map opt_all] in *; [apply Hel1; exact He|reflexivity].
Qed.

Lemma paren_min_ok : forall r F, raw_wf r = true -> ok F (paren_min F r) = true.
Proof.
  induction r as [l|x|o l r IHl IHr|u e IHe|a x e IHe|f a IHa|s IHs] using raw_ind'; intros F Hwf;
    cbn [paren_min raw_wf] in *.
  - reflexivity.
  - reflexivity.
  - apply andb_prop in Hwf. destruct Hwf as [Hwl Hwr].
    assert (Hb : forall G, forallb (fun f => below f (bkind o)) G = true ->
              ok G (Bin o (if below (top_kind (paren_min G l)) (bkind o) then PExpr (paren_min [] l) else paren_min G l)
                          (paren_min (G ++ [bkind o]) r)) = true).
    { intros G HG. cbn [ok]. rewrite HG, (IHr _ Hwr), andb_true_r.
      destruct (below (top_kind (paren_min G l)) (bkind o)) eqn:Eb.
      - rewrite ok_PExpr, (IHl _ Hwl). cbn [PExpr top_kind]. rewrite root_not_below_bin. reflexivity.
      - rewrite (IHl _ Hwl), Eb. reflexivity. }
    destruct (forallb (fun f => below f (bkind o)) F) eqn:EF.
    + apply Hb. exact EF.
    + rewrite ok_PExpr. apply Hb. reflexivity.
  - cbn [ok]. apply IHe. exact Hwf.
  - destruct (forallb (fun f => below f (akind a)) F) eqn:EF.
    + cbn [ok]. rewrite EF. apply IHe. exact Hwf.
    + rewrite ok_PExpr. cbn [ok forallb andb app]. apply IHe. exact Hwf.
  - cbn [ok]. destruct (raw_is_arg a) eqn:Ea.
    + rewrite raw_is_arg_paren_min by exact Ea. apply IHa. exact Hwf.
    + rewrite ok_PExpr. cbn [PExpr is_arg andb]. apply IHa. exact Hwf.
  - cbn [ok]. apply andb_prop in Hwf. destruct Hwf as [_ Hwf].
    apply (ok_seq_with_map (paren_min []) raw_wf (ok [])); [|exact Hwf].
    eapply Forall_impl; [|exact IHs]. intros t Ht. eapply Forall_impl; [|exact Ht].
    intros [r|] Hr; cbn [opt_all] in *; [apply Hr|exact I].
Qed.

Lemma shape_map {A B} (f : A -> B) (s : list (list (option A))) :
  raw_seq_shape (map (map (option_map f)) s) = raw_seq_shape s.
Proof. destruct s as [|[|[e|] [|e2 t]] [|t2 s]]; reflexivity. Qed.

Lemma strip_paren_seq s : raw_seq_shape s = true ->
  strip (Paren s) = RSeq (map (map (option_map strip)) s).
Proof. destruct s as [|[|[e|] [|e2 t]] [|t2 s]]; try reflexivity. discriminate. Qed.

Lemma seq_map_id {A} (g : A -> A) (s : list (list (option A))) :
  Forall (Forall (opt_all (fun a => g a = a))) s -> map (map (option_map g)) s = s.
Proof.
  induction 1 as [|t s Ht Hs IHs]; [reflexivity|]. cbn [map]. rewrite IHs. f_equal.
  induction Ht as [|el t Hel Ht IHt]; [reflexivity|]. cbn [map]. rewrite IHt. f_equal.
  destruct el as [a|]; cbn [option_map opt_all] in *; [rewrite Hel|]; reflexivity.
Qed.

Lemma seq_map_map {A B D} (f : A -> B) (g : B -> D) (s : list (list (option A))) :
  map (map (option_map g)) (map (map (option_map f)) s) = map (map (option_map (fun a => g (f a)))) s.
Proof.
  rewrite map_map. apply map_ext. intros t. rewrite map_map. apply map_ext. intros [a|]; reflexivity.
Qed.

Lemma ok_seq_with_Forall {A} (p : A -> bool) (P : A -> Prop) (s : list (list (option A))) :
  Forall (Forall (opt_all (fun a => p a = true -> P a))) s -> ok_seq_with p s = true ->
  Forall (Forall (opt_all P)) s.
Proof.
  unfold ok_seq_with. intros H Hok. apply andb_prop in Hok. destruct Hok as [_ Hall].
  induction H as [|t s Ht Hs IHs]; constructor; cbn [forallb] in Hall; apply andb_prop in Hall; destruct Hall as [Ht1 Hs1].
  - apply andb_prop in Ht1. destruct Ht1 as [_ Hel].
    induction Ht as [|el t Hel1 Ht IHt]; constructor; cbn [forallb] in Hel; apply andb_prop in Hel; destruct Hel as [He Hrest].
    + destruct el as [a|]; cbn [opt_all] in *; [apply Hel1; exact He|exact I].
    + apply IHt. exact Hrest.
  - apply IHs. exact Hs1.
Qed.

Lemma paren_min_strip : forall r F, raw_wf r = true -> strip (paren_min F r) = r.
Proof.
  induction r as [l|x|o l r IHl IHr|u e IHe|a x e IHe|f a IHa|s IHs] using raw_ind'; intros F Hwf;
    cbn [paren_min raw_wf] in *.
  - reflexivity.
  - reflexivity.
  - apply andb_prop in Hwf. destruct Hwf as [Hwl Hwr].
    assert (Hb : forall G,
              strip (Bin o (if below (top_kind (paren_min G l)) (bkind o) then PExpr (paren_min [] l) else paren_min G l)
                          (paren_min (G ++ [bkind o]) r)) = RBin o l r).
    { intros G. cbn [strip]. rewrite (IHr _ Hwr).
      destruct (below (top_kind (paren_min G l)) (bkind o)); [rewrite strip_PExpr|]; rewrite (IHl _ Hwl); reflexivity. }
    destruct (forallb (fun f => below f (bkind o)) F); [|rewrite strip_PExpr]; apply Hb.
  - cbn [strip]. rewrite (IHe _ Hwf). reflexivity.
  - destruct (forallb (fun f => below f (akind a)) F); [|rewrite strip_PExpr]; cbn [strip]; rewrite (IHe _ Hwf); reflexivity.
  - cbn [strip]. destruct (raw_is_arg a); [|rewrite strip_PExpr]; rewrite (IHa _ Hwf); reflexivity.
  - apply andb_prop in Hwf. destruct Hwf as [Hshape Hwf].
    rewrite strip_paren_seq by (rewrite shape_map; exact Hshape).
    rewrite seq_map_map. f_equal. apply seq_map_id.
    apply (ok_seq_with_Forall raw_wf); [|exact Hwf].
    eapply Forall_impl; [|exact IHs]. intros t Ht. eapply Forall_impl; [|exact Ht].
    intros [r|] Hr; cbn [opt_all] in *; [apply Hr|exact I].
Qed.

(* C02_required *)
Theorem required_parens (r : raw_expr) : raw_wf r = true ->
  ok_top (paren_min [] r) /\ strip (paren_min [] r) = r /\
  tokens_to_operator_tree (flatten (paren_min [] r)) = Ok (Node ORootNode [tree_of (paren_min [] r)]).
Proof.
  intros Hwf. pose proof (paren_min_ok r [] Hwf) as Hok.
  split; [exact Hok|]. split; [apply paren_min_strip; exact Hwf|]. apply expr_parse_top. exact Hok.
Qed.

Lemma no_seq_wf : forall r, no_seq r = true -> raw_wf r = true.
Proof.
  induction r as [l|x|o l r IHl IHr|u e IHe|a x e IHe|f a IHa|s IHs] using raw_ind'; cbn [no_seq raw_wf]; intros H; auto.
  - apply andb_prop in H. destruct H as [H1 H2]. rewrite (IHl H1), (IHr H2). reflexivity.
  - discriminate.
Qed.

Theorem required_parens_plain (r : raw_expr) : no_seq r = true ->
  ok_top (paren_min [] r) /\ strip (paren_min [] r) = r /\
  tokens_to_operator_tree (flatten (paren_min [] r)) = Ok (Node ORootNode [tree_of (paren_min [] r)]).
Proof. intros H. apply required_parens. apply no_seq_wf. exact H. Qed.

(* ---------------------------------------------------------------------------------------------- *)
(* 10. Redundant parentheses do not change the tree                                                *)
(* ---------------------------------------------------------------------------------------------- *)

(* the tree of a raw AST, without any RootNode except the empty ones of absent elements *)
Definition relem_with {R} (rt : R -> node) (el : option R) : node :=
  match el with None => Node ORootNode [] | Some r => rt r end.
Definition ritem_with {R} (rt : R -> node) (t : list (option R)) : node :=
  match t with [el] => relem_with rt el | _ => Node OTuple (map (relem_with rt) t) end.
Definition rseq_with {R} (rt : R -> node) (s : list (list (option R))) : node :=
  match s with
  | [t] => match t with
           | [el] => relem_with rt el
           | _ => Node OTuple (map (relem_with rt) t)
           end
  | _ => Node OChain (map (ritem_with rt) s)
  end.

Fixpoint rtree (r : raw_expr) : node :=
  match r with
  | RLit l => Node (OConst (lit_value l)) []
  | RVar x => Node (OVariableIdentifierRead x) []
  | RBin o l r1 => Node (op_of_binop o) [rtree l; rtree r1]
  | RPre u e => Node (op_of_unop u) [rtree e]
  | RAsg a x e => Node (op_of_asgop a) [Node (OVariableIdentifierWrite x) []; rtree e]
  | RCall f a => Node (OFunctionIdentifier f) [rtree a]
  | RSeq s => rseq_with rtree s
  end.

Section StripRoots.
Variable s : seq.
Hypothesis IHs : Forall (Forall (opt_all (fun e => strip_roots (tree_of e) = rtree (strip e)))) s.

Lemma strip_roots_elem (el : elem) : opt_all (fun e => strip_roots (tree_of e) = rtree (strip e)) el ->
  strip_roots (elem_root el) = relem_with rtree (option_map strip el).
Proof. destruct el as [e|]; cbn [opt_all elem_root elem_root_with option_map relem_with strip_roots map]; [intros ->|]; reflexivity. Qed.

Lemma strip_roots_elems (t : tuple) : Forall (opt_all (fun e => strip_roots (tree_of e) = rtree (strip e))) t ->
  map strip_roots (map elem_root t) = map (relem_with rtree) (map (option_map strip) t).
Proof.
  induction 1 as [|el t Hel Ht IHt]; [reflexivity|]. cbn [map]. rewrite IHt, strip_roots_elem by exact Hel. reflexivity.
Qed.

Lemma strip_roots_item (t : tuple) : Forall (opt_all (fun e => strip_roots (tree_of e) = rtree (strip e))) t ->
  strip_roots (item_tree t) = ritem_with rtree (map (option_map strip) t).
Proof.
  intros Ht. destruct t as [|el [|el2 t]].
  - reflexivity.
  - cbn [item_tree item_tree_with map ritem_with]. apply strip_roots_elem. exact (Forall_inv Ht).
  - unfold item_tree, item_tree_with. fold elem_root. cbn [strip_roots]. rewrite strip_roots_elems by exact Ht. reflexivity.
Qed.

Lemma strip_roots_items (l : list tuple) :
  Forall (Forall (opt_all (fun e => strip_roots (tree_of e) = rtree (strip e)))) l ->
  map strip_roots (map item_tree l) = map (ritem_with rtree) (map (map (option_map strip)) l).
Proof.
  induction 1 as [|t l Ht Hl IHl]; [reflexivity|]. cbn [map]. rewrite IHl, strip_roots_item by exact Ht. reflexivity.
Qed.

Lemma strip_roots_paren : strip_roots (tree_of (Paren s)) = rtree (strip (Paren s)).
Proof.
  destruct (raw_seq_shape s) eqn:Eshape.
  - rewrite strip_paren_seq by exact Eshape. cbn [tree_of rtree].
    destruct s as [|t [|t2 l]].
    + reflexivity.
    + destruct t as [|el [|el2 t]].
      * reflexivity.
      * destruct el as [e|]; [discriminate|reflexivity].
      * cbn [seq_children_with map rseq_with]. fold elem_root. cbn [strip_roots].
        f_equal. exact (strip_roots_elems _ (Forall_inv IHs)).
    + unfold seq_children_with, rseq_with. fold item_tree. cbn [map]. cbn [strip_roots].
      f_equal. exact (strip_roots_items _ IHs).
  - destruct s as [|[|[e|] [|e2 t]] [|t2 l]]; try discriminate.
    cbn [tree_of seq_children_with strip strip_roots].
    exact (Forall_inv (Forall_inv IHs)).
Qed.
End StripRoots.

Lemma strip_roots_tree : forall e, strip_roots (tree_of e) = rtree (strip e).
Proof.
  induction e as [l|x|o l r IHl IHr|u e IHe|a x e IHe|f a IHa|s IHs] using expr_ind'.
  - reflexivity.
  - reflexivity.
  - cbn [tree_of strip rtree]. rewrite <- IHl, <- IHr. destruct o; reflexivity.
  - cbn [tree_of strip rtree]. rewrite <- IHe. destruct u; reflexivity.
  - cbn [tree_of strip rtree]. rewrite <- IHe. destruct a; reflexivity.
  - cbn [tree_of strip rtree]. rewrite <- IHa. reflexivity.
  - apply strip_roots_paren. exact IHs.
Qed.

(* C02_redundant *)
Theorem redundant_parens (e e' : expr) : ok_top e -> ok_top e' -> strip e = strip e' ->
  exists n n', tokens_to_operator_tree (flatten e) = Ok n /\ tokens_to_operator_tree (flatten e') = Ok n'
               /\ strip_roots n = strip_roots n'.
Proof.
  intros H H' E. exists (Node ORootNode [tree_of e]), (Node ORootNode [tree_of e']).
  split; [apply expr_parse_top; exact H|]. split; [apply expr_parse_top; exact H'|].
  cbn [strip_roots]. rewrite !strip_roots_tree, E. reflexivity.
Qed.

(* restatements used by Props/C02.v *)
Lemma ident_decision_full id ts st lr :
  build_loop (TIdentifier id :: ts) st lr =
  (do st1 <- insert_node
       (Node match ts with
             | nx :: _ =>
                 if assignment_token nx then OVariableIdentifierWrite id
                 else if starts_operand nx then OFunctionIdentifier id
                 else OVariableIdentifierRead id
             | [] => OVariableIdentifierRead id
             end []) st;
   build_loop ts st1 true).
Proof. rewrite ident_decision. destruct ts; reflexivity. Qed.

Lemma minus_first ts :
  build_loop (TMinus :: ts) [root_node] false =
  (do st <- insert_node (Node ONeg []) [root_node]; build_loop ts st false).
Proof. apply build_loop_node; [discriminate|discriminate|reflexivity]. Qed.

Lemma tree_of_ast (e : expr) : ok_top e ->
  exists n, tokens_to_operator_tree (flatten e) = Ok n /\ strip_roots n = rtree (strip e).
Proof.
  intros H. exists (Node ORootNode [tree_of e]). split; [apply expr_parse_top; exact H|].
  cbn [strip_roots]. apply strip_roots_tree.
Qed.
