(* C12: the translated entry points (Gen/Interface.v, regenerated from the source on every run) are
   projections of the two evaluators. *)
From Coq Require Import Strings.String Floats.SpecFloat.
Require Import Model.Base Model.Syntax Model.F64 Model.Lexer Model.Builder Model.Value Model.Context Model.Eval
               Model.Interface Model.InterfaceDefs Gen.Interface Model.InterfaceGen.
Require Import Spec.RefEval Proofs.C11.

Section WithOracle.
Variable O : std_oracle.

Local Opaque build_operator_tree eval_ro eval_mut.

Lemma entry_gen_eq (l : elevel) (m : emode) (t : etype) (s : str) (c : ctx) (lg : log) :
  translation_complete = true ->
  run_entry_gen O l m t s c lg = run_entry O m t s c lg.
Proof.
  intros _.
  destruct l, m, t; unfold run_entry_gen, run_entry, entry_name;
    cbn -[project];
    destruct (build_operator_tree s) as [n|e|p]; try reflexivity;
    try (destruct (eval_mut O n empty_hashmap []) as [[r c'] lg']; destruct r as [v|e|p]; try reflexivity;
         destruct v; reflexivity);
    try (destruct (eval_ro O n c lg) as [r lg']; destruct r as [v|e|p]; try reflexivity; destruct v; reflexivity);
    try (destruct (eval_mut O n c lg) as [[r c'] lg']; destruct r as [v|e|p]; try reflexivity; destruct v; reflexivity).
Qed.

End WithOracle.

Section Corollaries.
Variable O : std_oracle.

Lemma entry_build_err (l : elevel) (m : emode) (t : etype) (s : str) (c : ctx) (lg : log) (x : error) :
  translation_complete = true ->
  build_operator_tree s = Err x -> run_entry_gen O l m t s c lg = (Err x, c, lg).
Proof.
  intros T H. rewrite entry_gen_eq by exact T. unfold run_entry. rewrite H. reflexivity.
Qed.

Lemma entry_level_independent (m : emode) (t : etype) (s : str) (c : ctx) (lg : log) :
  translation_complete = true ->
  run_entry_gen O LvString m t s c lg = run_entry_gen O LvNode m t s c lg.
Proof. intros T. rewrite !entry_gen_eq by exact T. reflexivity. Qed.

Lemma entry_ctxfree (l : elevel) (t : etype) (s : str) (c : ctx) (lg : log) :
  translation_complete = true ->
  run_entry_gen O l MFree t s c lg =
    (fst (fst (run_entry_gen O l MMut t s empty_hashmap [])), c, lg).
Proof.
  intros T. rewrite !entry_gen_eq by exact T. unfold run_entry.
  destruct (build_operator_tree s) as [n|e|p]; try reflexivity.
  destruct (eval_mut O n empty_hashmap []) as [[r c'] lg']. reflexivity.
Qed.

Lemma entry_typed (l : elevel) (m : emode) (t : etype) (s : str) (c : ctx) (lg : log) :
  translation_complete = true ->
  run_entry_gen O l m t s c lg =
    let '(r, c', lg') := run_entry_gen O l m XValue s c lg in (project t r, c', lg').
Proof.
  intros T. rewrite !entry_gen_eq by exact T. unfold run_entry.
  destruct (build_operator_tree s) as [n|e|p]; try reflexivity.
  destruct m.
  - destruct (eval_mut O n empty_hashmap []) as [[r c'] lg']. destruct r; reflexivity.
  - destruct (eval_ro O n c lg) as [r lg']. destruct r; reflexivity.
  - destruct (eval_mut O n c lg) as [[r c'] lg']. destruct r; reflexivity.
Qed.

End Corollaries.

(* Tree-level entry points on ANY tree (also one built by hand through the public constructors, which no
   source string denotes): the 24 `Node::eval*` wrappers are the same projections. *)
Section NodeLevel.
Variable O : std_oracle.

Definition run_node_entry (m : emode) (t : etype) (n : node) (c : ctx) (lg : log) : outcome value * ctx * log :=
  match m with
  | MRo => let '(r, lg') := eval_ro O n c lg in (project t r, c, lg')
  | MMut => let '(r, c', lg') := eval_mut O n c lg in (project t r, c', lg')
  | MFree => let '(r, _, _) := eval_mut O n empty_hashmap [] in (project t r, c, lg)
  end.

Local Opaque eval_ro eval_mut.

Lemma node_entry_gen_eq (m : emode) (t : etype) (n : node) (c : ctx) (lg : log) :
  translation_complete = true ->
  run_node_entry_gen O m t n c lg = run_node_entry m t n c lg.
Proof.
  intros _.
  destruct m, t; unfold run_node_entry_gen, run_node_entry, entry_name;
    cbn -[project];
    try (destruct (eval_mut O n empty_hashmap []) as [[r c'] lg']; destruct r as [v|e|p]; try reflexivity;
         destruct v; reflexivity);
    try (destruct (eval_ro O n c lg) as [r lg']; destruct r as [v|e|p]; try reflexivity; destruct v; reflexivity);
    try (destruct (eval_mut O n c lg) as [[r c'] lg']; destruct r as [v|e|p]; try reflexivity; destruct v; reflexivity).
Qed.

(* the string-level entry point is the tree-level one applied to the built tree *)
Lemma entry_is_node_entry (l : elevel) (m : emode) (t : etype) (s : str) (n : node) (c : ctx) (lg : log) :
  translation_complete = true ->
  build_operator_tree s = Ok n ->
  run_entry_gen O l m t s c lg = run_node_entry m t n c lg.
Proof.
  intros T H. rewrite entry_gen_eq by exact T. unfold run_entry, run_node_entry. rewrite H. reflexivity.
Qed.

End NodeLevel.

(* the projection as an algebra: the untyped view is the identity, a typed view is idempotent, a typed
   success has the requested type, and errors / panics pass through every view unchanged *)
Definition has_etype (t : etype) (v : value) : bool :=
  match t, v with
  | XValue, _ => true
  | XString, VString _ | XInt, VInt _ | XFloat, VFloat _ | XNumber, VFloat _
  | XBoolean, VBool _ | XTuple, VTuple _ | XEmpty, VEmpty => true
  | _, _ => false
  end.

Lemma project_value (r : outcome value) : project XValue r = r.
Proof. destruct r as [v|e|p]; reflexivity. Qed.

Lemma project_idem (t : etype) (r : outcome value) : project t (project t r) = project t r.
Proof. destruct r as [v|e|p]; try reflexivity; destruct t, v; reflexivity. Qed.

Lemma project_ok_typed (t : etype) (r : outcome value) (v : value) :
  project t r = Ok v -> has_etype t v = true.
Proof. destruct r as [w|e|p]; try discriminate; destruct t, w; cbn; intros H; inversion H; reflexivity. Qed.

Lemma project_ok_source (t : etype) (r : outcome value) (v : value) :
  project t r = Ok v ->
  exists w, r = Ok w /\ (v = w \/ (t = XNumber /\ exists i, w = VInt i /\ v = VFloat (f_of_Z i))).
Proof.
  destruct r as [w|e|p]; try discriminate. intros H. exists w. split; [reflexivity|].
  destruct t, w; cbn in H; inversion H; try (left; reflexivity).
  right. split; [reflexivity|]. eexists; split; reflexivity.
Qed.

Lemma project_not_ok (t : etype) (r : outcome value) :
  (forall v, r <> Ok v) -> project t r = r.
Proof. destruct r as [v|e|p]; try reflexivity. intros H. exfalso. exact (H v eq_refl). Qed.

(* a typed view fails only with the evaluator's own error or with the expected-type error carrying the
   evaluator's value *)
Lemma project_err_source (t : etype) (r : outcome value) (x : error) :
  project t r = Err x ->
  r = Err x \/ exists w, r = Ok w /\ has_etype t w = false /\
     x = match t with
         | XValue => x | XString => EExpectedString w | XInt => EExpectedInt w | XFloat => EExpectedFloat w
         | XNumber => EExpectedNumber w | XBoolean => EExpectedBoolean w | XTuple => EExpectedTuple w
         | XEmpty => EExpectedEmpty w
         end.
Proof.
  destruct r as [w|e|p]; try discriminate.
  - intros H. right. exists w. destruct t, w; cbn in H; try discriminate; inversion H; repeat split.
  - cbn. intros H. left. exact H.
Qed.

(* C11 seen through the entry points: on a tree without assignment operators the mutable-context and the
   shared-context entry point of every result type return the same answer, leave the same context and make the
   same user-function calls; the context-free one answers as the shared one on the empty context *)
Section ModesAgree.
Variable O : std_oracle.

Lemma node_modes_agree (t : etype) (n : node) (c : ctx) (lg : log) :
  no_assign n = true ->
  run_node_entry O MMut t n c lg = run_node_entry O MRo t n c lg.
Proof.
  intros H. unfold run_node_entry. rewrite (agree_static O n c lg H).
  destruct (eval_ro O n c lg) as [r lg']. reflexivity.
Qed.

Lemma node_free_is_ro_on_empty (t : etype) (n : node) (c : ctx) (lg : log) :
  no_assign n = true ->
  run_node_entry O MFree t n c lg = (fst (fst (run_node_entry O MRo t n empty_hashmap [])), c, lg).
Proof.
  intros H. unfold run_node_entry. rewrite (agree_static O n empty_hashmap [] H).
  destruct (eval_ro O n empty_hashmap []) as [r lg']. reflexivity.
Qed.

Lemma entry_modes_agree (l l' : elevel) (t : etype) (s : str) (n : node) (c : ctx) (lg : log) :
  translation_complete = true ->
  build_operator_tree s = Ok n -> no_assign n = true ->
  run_entry_gen O l MMut t s c lg = run_entry_gen O l' MRo t s c lg.
Proof.
  intros T B H. rewrite (entry_is_node_entry O l MMut t s n c lg T B), (entry_is_node_entry O l' MRo t s n c lg T B).
  apply node_modes_agree. exact H.
Qed.

End ModesAgree.

(* the same, decided at run time: a tree WITH assignment operators none of which is reached (a failure before it) is
   evaluated alike by both modes; and once the traced mutable run applies an assignment, the shared-context entry
   point of every type answers ContextNotMutable with the calls made up to there, the context untouched, while the
   mutable one is the projection of the mutable run *)
Section ModesDynamic.
Variable O : std_oracle.

Lemma node_modes_agree_dynamic (t : etype) (n : node) (c : ctx) (lg : log) :
  snd (eval_traced O n c lg None) = None ->
  run_node_entry O MMut t n c lg = run_node_entry O MRo t n c lg.
Proof.
  intros H. unfold run_node_entry. rewrite (agree_dynamic O n c lg H).
  destruct (eval_ro O n c lg) as [r lg']. reflexivity.
Qed.

Lemma node_ro_refuses (t : etype) (n : node) (c : ctx) (lg : log) (r : outcome value) (c' : ctx) (lg' l0 : log) :
  eval_traced O n c lg None = (r, c', lg', Some l0) ->
  run_node_entry O MRo t n c lg = (Err EContextNotMutable, c, l0) /\
  run_node_entry O MMut t n c lg = (project t r, c', lg').
Proof.
  intros H. destruct (traced_marked O n c lg r c' lg' l0 H) as [Hm Hr].
  unfold run_node_entry. rewrite Hm, Hr. split; reflexivity.
Qed.

End ModesDynamic.
