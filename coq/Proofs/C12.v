(* C12: the translated entry points (Gen/Interface.v, regenerated from the source on every run) are
   projections of the two evaluators. *)
From Coq Require Import Strings.String Floats.SpecFloat.
Require Import Model.Base Model.Syntax Model.F64 Model.Lexer Model.Builder Model.Value Model.Context Model.Eval
               Model.Interface Model.InterfaceDefs Gen.Interface Model.InterfaceGen.

Section WithOracle.
Variable O : std_oracle.

Local Opaque build_operator_tree eval_ro eval_mut.

Lemma entry_gen_eq (l : elevel) (m : emode) (t : etype) (s : str) (c : ctx) (lg : log) :
  translation_complete = true ->
  run_entry_gen O l m t s c lg = run_entry O m t s c lg.
Proof.
  intros _.
  destruct l, m, t; unfold run_entry_gen, run_entry, entry_name;
    cbn -[project];
    destruct (build_operator_tree s) as [n|e|p]; try reflexivity;
    try (destruct (eval_mut O n empty_hashmap []) as [[r c'] lg']; destruct r as [v|e|p]; try reflexivity;
         destruct v; reflexivity);
    try (destruct (eval_ro O n c lg) as [r lg']; destruct r as [v|e|p]; try reflexivity; destruct v; reflexivity);
    try (destruct (eval_mut O n c lg) as [[r c'] lg']; destruct r as [v|e|p]; try reflexivity; destruct v; reflexivity).
Qed.

End WithOracle.

Section Corollaries.
Variable O : std_oracle.

Lemma entry_build_err (l : elevel) (m : emode) (t : etype) (s : str) (c : ctx) (lg : log) (x : error) :
  translation_complete = true ->
  build_operator_tree s = Err x -> run_entry_gen O l m t s c lg = (Err x, c, lg).
Proof.
  intros T H. rewrite entry_gen_eq by exact T. unfold run_entry. rewrite H. reflexivity.
Qed.

Lemma entry_level_independent (m : emode) (t : etype) (s : str) (c : ctx) (lg : log) :
  translation_complete = true ->
  run_entry_gen O LvString m t s c lg = run_entry_gen O LvNode m t s c lg.
Proof. intros T. rewrite !entry_gen_eq by exact T. reflexivity. Qed.

Lemma entry_ctxfree (l : elevel) (t : etype) (s : str) (c : ctx) (lg : log) :
  translation_complete = true ->
  run_entry_gen O l MFree t s c lg =
    (fst (fst (run_entry_gen O l MMut t s empty_hashmap [])), c, lg).
Proof.
  intros T. rewrite !entry_gen_eq by exact T. unfold run_entry.
  destruct (build_operator_tree s) as [n|e|p]; try reflexivity.
  destruct (eval_mut O n empty_hashmap []) as [[r c'] lg']. reflexivity.
Qed.

Lemma entry_typed (l : elevel) (m : emode) (t : etype) (s : str) (c : ctx) (lg : log) :
  translation_complete = true ->
  run_entry_gen O l m t s c lg =
    let '(r, c', lg') := run_entry_gen O l m XValue s c lg in (project t r, c', lg').
Proof.
  intros T. rewrite !entry_gen_eq by exact T. unfold run_entry.
  destruct (build_operator_tree s) as [n|e|p]; try reflexivity.
  destruct m.
  - destruct (eval_mut O n empty_hashmap []) as [[r c'] lg']. destruct r; reflexivity.
  - destruct (eval_ro O n c lg) as [r lg']. destruct r; reflexivity.
  - destruct (eval_mut O n c lg) as [[r c'] lg']. destruct r; reflexivity.
Qed.

End Corollaries.
