(* C03: the operator dispatcher against the reference table. *)
From Coq Require Import Floats.SpecFloat.
Require Import Model.Base Model.Syntax Model.F64 Model.Lexer Model.Value Model.Context Model.Builtins Model.Eval.
Require Import Spec.OpTable Proofs.Common.

Lemma quot_in_range x y : in_i64 x = true -> in_i64 y = true -> y <> 0 ->
  ~ (x = i64_min /\ y = -1) -> in_i64 (Z.quot x y) = true.
Proof.
  rewrite !in_i64_spec. unfold i64_min, i64_max. intros Hx Hy Hy0 Hmin.
  destruct (Z.eq_dec y (-1)) as [->|Hy1].
  - change (-1) with (Z.opp 1). rewrite Z.quot_opp_r, Z.quot_1_r by lia. lia.
  - destruct (Z.eq_dec y 1) as [->|Hy2]; [rewrite Z.quot_1_r; lia|].
    assert (Habs: Z.abs (Z.quot x y) <= 4611686018427387904).
    { rewrite <- Z.quot_abs by lia. rewrite Z.quot_div_nonneg by lia.
      apply Z.div_le_upper_bound; lia. }
    lia.
Qed.

Lemma rem_in_range x y : in_i64 x = true -> in_i64 y = true -> y <> 0 -> in_i64 (Z.rem x y) = true.
Proof.
  rewrite !in_i64_spec. unfold i64_min, i64_max. intros Hx Hy Hy0.
  pose proof (Z.rem_bound_abs x y Hy0) as H. lia.
Qed.

Lemma str_compare_antisym x y : str_compare y x = CompOpp (str_compare x y).
Proof.
  revert y; induction x as [|c x IH]; intros [|d y]; cbn; try reflexivity.
  rewrite (N.compare_antisym c d). destruct (N.compare c d); cbn; auto.
Qed.

Section WithOracle.
Variable O : std_oracle.

Lemma checked_class z e : is_arith_error e = true ->
  class_of (do r <- checked z e; Ok (VInt r)) = exact z.
Proof. intros He. unfold checked, exact. destruct (in_i64 z); cbn; [reflexivity|]. rewrite He. reflexivity. Qed.

Lemma binop_class (o : binop) (a b : value) (c : ctx) (lg : log) : wf a -> wf b ->
  class_of (fst (op_eval O (op_of_binop o) [a; b] c lg)) = spec_binop O o a b.
Proof.
  intros Wa Wb.
  destruct o; cbn [op_of_binop op_eval fst].
  all: try (unfold arith, compare_op, bool_op; cbn [nargs length N.of_nat expect_operator_argument_amount N.eqb Pos.eqb bind arg nth_opt]).
  - destruct a, b; cbn; try reflexivity. apply checked_class; reflexivity.
  - destruct a, b; cbn; try reflexivity. apply checked_class; reflexivity.
  - destruct a, b; cbn; try reflexivity. apply checked_class; reflexivity.
  - (* Div *)
    destruct a, b; cbn; try reflexivity.
    cbn in Wa, Wb. unfold checked_div, exact. destruct (i0 =? 0) eqn:E0; cbn; [reflexivity|].
    apply Z.eqb_neq in E0.
    destruct ((i =? i64_min) && (i0 =? -1)) eqn:E1; cbn.
    + apply andb_prop in E1. destruct E1 as [Ea Eb]. apply Z.eqb_eq in Ea, Eb. subst. reflexivity.
    + rewrite quot_in_range; auto. intros [Ea Eb]. subst. discriminate.
  - (* Mod *)
    destruct a, b; cbn; try reflexivity.
    cbn in Wa, Wb. unfold checked_rem, exact. destruct (i0 =? 0) eqn:E0; cbn; [reflexivity|].
    apply Z.eqb_neq in E0.
    destruct ((i =? i64_min) && (i0 =? -1)) eqn:E1; cbn; [reflexivity|].
    rewrite rem_in_range; auto.
  - destruct a, b; cbn; reflexivity.
  - reflexivity.
  - reflexivity.
  - destruct a, b; cbn; try reflexivity. unfold str_ltb. rewrite (str_compare_antisym s s0).
    destruct (str_compare s s0); reflexivity.
  - destruct a, b; cbn; try reflexivity.
  - destruct a, b; cbn; try reflexivity. unfold str_ltb. destruct (str_compare s s0); reflexivity.
  - destruct a, b; cbn; try reflexivity. unfold str_ltb. rewrite (str_compare_antisym s s0).
    destruct (str_compare s s0); reflexivity.
  - destruct a, b; reflexivity.
  - destruct a, b; reflexivity.
Qed.

Lemma unop_class (u : unop) (a : value) (c : ctx) (lg : log) :
  class_of (fst (op_eval O (op_of_unop u) [a] c lg)) = spec_unop u a.
Proof.
  destruct u; cbn [op_of_unop op_eval fst];
    cbn [nargs length N.of_nat expect_operator_argument_amount N.eqb Pos.eqb bind arg nth_opt].
  - destruct a; cbn; try reflexivity. apply checked_class; reflexivity.
  - destruct a; reflexivity.
Qed.

(* the log is never touched by an operator other than a function call *)
Lemma binop_log (o : binop) (args : list value) (c : ctx) (lg : log) :
  snd (op_eval O (op_of_binop o) args c lg) = lg.
Proof. destruct o; reflexivity. Qed.

(* a wrong number of operands is an error for every one of the 16 operators *)
Lemma binop_arity (o : binop) (args : list value) (c : ctx) (lg : log) :
  length args <> 2%nat ->
  fst (op_eval O (op_of_binop o) args c lg) = Err (EWrongOperatorArgumentAmount 2 (N.of_nat (length args))).
Proof.
  intros H.
  assert (E: N.eqb (N.of_nat (length args)) 2 = false) by (apply N.eqb_neq; lia).
  destruct o; cbn [op_of_binop op_eval fst]; unfold arith, compare_op, bool_op, expect_operator_argument_amount, nargs;
    rewrite E; reflexivity.
Qed.

Lemma unop_arity (u : unop) (args : list value) (c : ctx) (lg : log) :
  length args <> 1%nat ->
  fst (op_eval O (op_of_unop u) args c lg) = Err (EWrongOperatorArgumentAmount 1 (N.of_nat (length args))).
Proof.
  intros H.
  assert (E: N.eqb (N.of_nat (length args)) 1 = false) by (apply N.eqb_neq; lia).
  destruct u; cbn [op_of_unop op_eval fst]; unfold expect_operator_argument_amount, nargs; rewrite E; reflexivity.
Qed.

(* never a wrapped value: an integer result is the exact mathematical result and fits 64 bits *)
Definition exact_int (o : binop) (x y : Z) : option Z :=
  match o with
  | BAdd => Some (x + y) | BSub => Some (x - y) | BMul => Some (x * y)
  | BDiv => Some (Z.quot x y) | BMod => Some (Z.rem x y)
  | _ => None
  end.

Lemma binop_no_wrap (o : binop) (x y r : Z) (c : ctx) (lg : log) :
  in_i64 x = true -> in_i64 y = true ->
  fst (op_eval O (op_of_binop o) [VInt x; VInt y] c lg) = Ok (VInt r) ->
  exact_int o x y = Some r /\ in_i64 r = true /\ (o = BDiv \/ o = BMod -> y <> 0).
Proof.
  intros Hx Hy H.
  pose proof (binop_class o (VInt x) (VInt y) c lg Hx Hy) as Hc. rewrite H in Hc. cbn [class_of] in Hc.
  destruct o; cbn in Hc; unfold exact in Hc; cbn [exact_int];
    try (match type of Hc with context [in_i64 ?z] => destruct (in_i64 z) eqn:E end; inversion Hc; subst;
         repeat split; auto; intros [?|?]; discriminate);
    try discriminate.
  - destruct (y =? 0) eqn:E0; [discriminate|]. apply Z.eqb_neq in E0.
    destruct (in_i64 (Z.quot x y)) eqn:E; inversion Hc; subst. repeat split; auto.
  - destruct (y =? 0) eqn:E0; [discriminate|]. apply Z.eqb_neq in E0.
    destruct ((x =? i64_min) && (y =? -1)); [discriminate|].
    destruct (in_i64 (Z.rem x y)) eqn:E; inversion Hc; subst. repeat split; auto.
Qed.

(* the model satisfies the acceptance relation of the property *)
Lemma binop_spec_ok (o : binop) (a b : value) (c : ctx) (lg : log) : wf a -> wf b ->
  spec_ok O o a b (class_of (fst (op_eval O (op_of_binop o) [a; b] c lg))).
Proof. intros. left. apply binop_class; assumption. Qed.

End WithOracle.

(* ---- the reference's own vocabulary: value_eqb decides veq, str_ltb decides str_lt ---- *)
Lemma str_ltb_spec x y : str_ltb x y = true <-> str_lt x y.
Proof.
  unfold str_ltb. revert y; induction x as [|c x IH]; intros [|d y]; cbn.
  - split; [discriminate|inversion 1].
  - split; [constructor|reflexivity].
  - split; [discriminate|inversion 1].
  - destruct (N.compare_spec c d) as [->|Hlt|Hgt].
    + rewrite IH. split; [constructor; assumption|]. inversion 1; subst; [lia|assumption].
    + split; [constructor; assumption|reflexivity].
    + split; [discriminate|]. inversion 1; subst; lia.
Qed.

Lemma str_eqb_eq x y : str_eqb x y = true <-> x = y.
Proof.
  revert y; induction x as [|c x IH]; intros [|d y]; cbn; try (split; [discriminate|discriminate]); [tauto|].
  rewrite andb_true_iff, N.eqb_eq, IH. split; [intros [-> ->]; reflexivity|inversion 1; auto].
Qed.

Lemma value_eqb_spec a : forall b, value_eqb a b = true <-> veq a b.
Proof.
  induction a as [s|f|i|b0|l IHl|] using value_ind'; intros b; destruct b; cbn;
    try (split; [discriminate|inversion 1]).
  - rewrite str_eqb_eq. split; [intros ->; constructor|inversion 1; reflexivity].
  - unfold f_eqb. split.
    + destruct (f_compare f f0) as [[| |]|] eqn:E; try discriminate. constructor; assumption.
    + inversion 1; subst. match goal with H : f_compare _ _ = _ |- _ => rewrite H end. reflexivity.
  - rewrite Z.eqb_eq. split; [intros ->; constructor|inversion 1; reflexivity].
  - rewrite Bool.eqb_true_iff. split; [intros ->; constructor|inversion 1; reflexivity].
  - revert l0. induction IHl as [|x xs Hx Hxs IH]; intros [|y ys]; cbn.
    + split; [constructor; constructor|reflexivity].
    + split; [discriminate|]. inversion 1 as [| | | |? ? HF|]; inversion HF.
    + split; [discriminate|]. inversion 1 as [| | | |? ? HF|]; inversion HF.
    + rewrite andb_true_iff, Hx, IH. split.
      * intros [H1 H2]. inversion H2; subst. constructor. constructor; assumption.
      * inversion 1 as [| | | |? ? HF|]; subst. inversion HF; subst. split; [assumption|constructor; assumption].
  - split; [constructor|reflexivity].
Qed.

