(* C13, evaluation half: a tree with an operand-count defect never evaluates to a value.

   Spec/Recognizer.v: has_bad_arity n = some node has a number of children its operator's shape does not
   accept.  Which counts are an error in Model/Eval.v (op_eval / op_eval_mut):
     - leaves (constant, variable read, variable write)        expect 0 -> EWrongOperatorArgumentAmount
     - Neg, Not, function identifier                           expect 1 -> EWrongOperatorArgumentAmount
     - Add .. Or                                               expect 2 -> EWrongOperatorArgumentAmount
     - the nine assignment operators                           op_eval: EContextNotMutable whatever the count;
                                                               op_eval_mut: expect 2
     - Tuple, Chain                                            has_bad_arity accepts every count (a Chain without
                                                               children is an error all the same, not needed here)
     - RootNode                                                has_bad_arity wants at most 1 child, but op_eval
                                                               accepts EVERY count (it returns the first value).
   So for one shape, the RootNode with two or more children, has_bad_arity flags a node that does
   evaluate (root_two_children_evaluates below).  The theorem is therefore stated for trees in which
   every RootNode has at most one child (roots_small), and built trees are proved to be such trees
   (built_roots_small): the builder refuses a second child below a RootNode
   (insert_back_prioritized: has_enough_children / rotate; collapse_all_sequences: has_too_many_children).

   The children of a node are evaluated eagerly, left to right, before the operator is applied, and a
   child that stops (error or panic) stops the node; user functions are arbitrary and play no role. *)
From Coq Require Import Strings.String Floats.SpecFloat.
Require Import Model.Base Model.Syntax Gen.Tables Model.F64 Model.Lexer Model.Builder Model.Value Model.Context
               Model.Builtins Model.Eval Model.Interface.
Require Import Spec.Recognizer Proofs.Common Proofs.BuilderFacts Proofs.C01Build Proofs.C13 Proofs.C08.

#[local] Opaque impl_prec impl_ltr impl_max_args impl_is_unary impl_is_leaf impl_is_sequence
  impl_tok_leftsided impl_tok_rightsided impl_tok_assignment.

(* ------------------------------------------------------------------------------------------ *)
(* 1. Every RootNode has at most one child                                                      *)

Fixpoint roots_small (n : node) : bool :=
  match n with
  | Node o ch => (negb (is_root_op o) || Nat.leb (length ch) 1) && forallb roots_small ch
  end.

Definition rsl (l : list node) : bool := forallb roots_small l.

Lemma rs_unfold o ch :
  roots_small (Node o ch) = (negb (is_root_op o) || Nat.leb (length ch) 1) && rsl ch.
Proof. reflexivity. Qed.
Lemma rsl_app a b : rsl (a ++ b) = rsl a && rsl b. Proof. apply forallb_app. Qed.
Lemma rsl_cons x l : rsl (x :: l) = roots_small x && rsl l. Proof. reflexivity. Qed.
Lemma rsl_one x : rsl [x] = roots_small x. Proof. unfold rsl. cbn [forallb]. apply andb_true_r. Qed.

Lemma rs_children n : roots_small n = true -> rsl (nch n) = true.
Proof.
  destruct n as [o ch]. rewrite rs_unfold. cbn [nch]. intros H. apply andb_prop in H. apply H.
Qed.

Lemma rs_nonroot n : is_root_op (nop n) = false -> rsl (nch n) = true -> roots_small n = true.
Proof. destruct n as [o ch]. cbn [nop nch]. intros Hr Hc. rewrite rs_unfold, Hr, Hc. reflexivity. Qed.

Lemma rs_checked n :
  has_too_many_children (nop n) (nch n) = false -> rsl (nch n) = true -> roots_small n = true.
Proof.
  destruct n as [o ch]. cbn [nop nch]. intros Ht Hc.
  destruct (is_root_op o) eqn:Er; [|apply rs_nonroot; assumption].
  destruct o; try discriminate Er. rewrite too_many_root in Ht. apply Nat.ltb_ge in Ht.
  apply Nat.leb_le in Ht. rewrite rs_unfold, Hc, Ht. reflexivity.
Qed.

Lemma rs_fresh o : roots_small (Node o []) = true.
Proof. rewrite rs_unfold. cbn [length Nat.leb rsl forallb]. rewrite orb_true_r. reflexivity. Qed.

Lemma rs_root_node : roots_small root_node = true.
Proof. reflexivity. Qed.

(* insertion never gives a RootNode a second child *)
Lemma insert_rs self n b r :
  insert_back_prioritized self n b = Ok r ->
  roots_small self = true -> roots_small n = true -> roots_small r = true.
Proof.
  revert self n b r.
  apply (insert_ind (fun self n b r => roots_small self = true -> roots_small n = true -> roots_small r = true)).
  - intros so sch n b _ _ Hen _ Hs Hn. rewrite rs_unfold in Hs. rewrite rs_unfold.
    apply andb_prop in Hs. destruct Hs as [Hh Hc].
    rewrite rsl_app, rsl_one, Hc, Hn. cbn [andb]. rewrite andb_true_r.
    destruct (is_root_op so) eqn:Er; [|reflexivity]. cbn [negb orb] in Hh. cbn [negb orb].
    destruct so; try discriminate Er. rewrite has_enough_shape in Hen. cbn [shape_of shape_max] in Hen.
    apply Nat.eqb_neq in Hen. apply Nat.leb_le in Hh. apply Nat.leb_le. rewrite app_length. cbn [length]. lia.
  - intros so init lc lc' n b _ _ _ _ _ IH Hs Hn. rewrite rs_unfold in Hs. rewrite rs_unfold.
    apply andb_prop in Hs. destruct Hs as [Hh Hc]. rewrite rsl_app, rsl_one in Hc.
    apply andb_prop in Hc. destruct Hc as [Hi Hl].
    rewrite rsl_app, rsl_one, Hi, (IH Hl Hn). rewrite app_length in Hh. rewrite app_length.
    cbn [length] in Hh. cbn [length]. rewrite Hh. reflexivity.
  - intros so init lc n b _ _ _ _ _ Hnr _ Hs Hn. rewrite rs_unfold in Hs. rewrite rs_unfold.
    apply andb_prop in Hs. destruct Hs as [Hh Hc]. rewrite rsl_app, rsl_one in Hc.
    apply andb_prop in Hc. destruct Hc as [Hi Hl].
    assert (Hnew : roots_small (Node (nop n) (nch n ++ [lc])) = true).
    { apply rs_nonroot; cbn [nop nch]; [rewrite <- is_root_root_op; exact Hnr|].
      rewrite rsl_app, rsl_one, (rs_children _ Hn), Hl. reflexivity. }
    rewrite rsl_app, rsl_one, Hi, Hnew. rewrite app_length in Hh. rewrite app_length.
    cbn [length] in Hh. cbn [length]. rewrite Hh. reflexivity.
Qed.

Lemma split_last_inv {A} (l : list A) : forall i z, split_last l = Some (i, z) -> l = i ++ [z].
Proof.
  induction l as [|x l IH]; intros i z H; [discriminate H|].
  destruct l as [|y l'].
  - cbn in H. injection H as <- <-. reflexivity.
  - change (split_last (x :: y :: l'))
      with (match split_last (y :: l') with Some (i, z) => Some (x :: i, z) | None => None end) in H.
    destruct (split_last (y :: l')) as [[i' z']|] eqn:E; [|discriminate H]. injection H as <- <-.
    rewrite (IH i' z' eq_refl). reflexivity.
Qed.

Lemma same_variant_seq a b : same_variant a b = true -> is_seq_op b = true -> is_root_op a = false.
Proof.
  intros H Hb. destruct (seq_op_cases b Hb) as [-> | ->]; destruct a; try reflexivity; cbv in H; discriminate H.
Qed.

Lemma insert_node_rs n st st' :
  insert_node n st = Ok st' -> roots_small n = true -> rsl st = true -> rsl st' = true.
Proof.
  unfold insert_node. destruct st as [|root stack]; [discriminate|]. intros H Hn Hs.
  rewrite rsl_cons in Hs. apply andb_prop in Hs. destruct Hs as [Hr Hst].
  pose proof (rs_children _ Hn) as Hnc. pose proof (rs_children _ Hr) as Hrc.
  rewrite !is_sequence_seq_op in H.
  destruct (is_seq_op (nop n)) eqn:En.
  - assert (Hnn : is_root_op (nop n) = false) by (apply seq_root_false; exact En).
    destruct (same_variant (nop root) (nop n)) eqn:Esv.
    + injection H as <-. rewrite rsl_cons, Hst, andb_true_r. apply rs_nonroot; cbn [nop nch].
      * apply (same_variant_seq _ _ Esv En).
      * rewrite rsl_app, Hrc. reflexivity.
    + destruct (is_root (nop root)) eqn:Err.
      * injection H as <-. rewrite !rsl_cons, Hst, rs_root_node. cbn [andb]. rewrite andb_true_r.
        apply rs_nonroot; cbn [nop nch]; [exact Hnn|].
        rewrite rsl_app, Hnc, !rsl_cons, Hr, rs_root_node. reflexivity.
      * rewrite is_root_root_op in Err.
        destruct (precedence (nop root) <? precedence (nop n)).
        -- destruct (split_last (nch root)) as [[init lastc]|] eqn:Esl; [|discriminate H].
           injection H as <-. apply split_last_inv in Esl. rewrite Esl, rsl_app, rsl_one in Hrc.
           apply andb_prop in Hrc. destruct Hrc as [Hi Hl].
           rewrite !rsl_cons, Hst, andb_true_r. apply andb_true_intro. split.
           ++ apply rs_nonroot; cbn [nop nch]; [exact Hnn|].
              rewrite rsl_app, Hnc, !rsl_cons, Hl, rs_root_node. reflexivity.
           ++ apply rs_nonroot; cbn [nop nch]; assumption.
        -- destruct stack as [|lower stack'']; [discriminate H|].
           rewrite rsl_cons in Hst. apply andb_prop in Hst. destruct Hst as [Hlo Hst].
           destruct (same_variant (nop lower) (nop n)) eqn:El; injection H as <-.
           ++ rewrite rsl_cons, Hst, andb_true_r. apply rs_nonroot; cbn [nop nch].
              ** apply (same_variant_seq _ _ El En).
              ** rewrite rsl_app, (rs_children _ Hlo), !rsl_cons, Hr, rs_root_node. reflexivity.
           ++ rewrite !rsl_cons, Hst, Hlo. cbn [andb]. rewrite andb_true_r.
              apply rs_nonroot; cbn [nop nch]; [exact Hnn|].
              rewrite rsl_app, Hnc, !rsl_cons, Hr, rs_root_node. reflexivity.
  - destruct (is_seq_op (nop root)) eqn:Ers.
    + destruct (split_last (nch root)) as [[init lastc]|] eqn:Esl; [|discriminate H].
      apply split_last_inv in Esl. rewrite Esl, rsl_app, rsl_one in Hrc.
      apply andb_prop in Hrc. destruct Hrc as [Hi Hl].
      destruct (insert_back_prioritized lastc n true) as [c| |] eqn:Ei; try discriminate H.
      cbn [bind] in H. injection H as <-.
      rewrite rsl_cons, Hst, andb_true_r. apply rs_nonroot; cbn [nop nch].
      * apply seq_root_false; exact Ers.
      * rewrite rsl_app, rsl_one, Hi, (insert_rs _ _ _ _ Ei Hl Hn). reflexivity.
    + destruct (insert_back_prioritized root n true) as [r| |] eqn:Ei; try discriminate H.
      cbn [bind] in H. injection H as <-.
      rewrite rsl_cons, Hst, (insert_rs _ _ _ _ Ei Hr Hn). reflexivity.
Qed.

(* closing a level: a sequence is appended to the node below it, which may give a RootNode a second
   child for a moment; the has_too_many_children test at the end of the loop rejects that *)
Lemma collapse_loop_rs stack : forall root st',
  collapse_loop root stack = Ok st' -> rsl (nch root) = true -> rsl stack = true -> rsl st' = true.
Proof.
  induction stack as [|higher stack IH]; intros root st' H Hc Hs; cbn [collapse_loop] in H.
  - destruct (is_root (nop root)); [|discriminate H].
    destruct (has_too_many_children (nop root) (nch root)) eqn:Et; [discriminate H|].
    injection H as <-. rewrite rsl_one. apply rs_checked; assumption.
  - rewrite rsl_cons in Hs. apply andb_prop in Hs. destruct Hs as [Hh Hst].
    destruct (is_root (nop root)) eqn:Er.
    + destruct (has_too_many_children (nop root) (nch root)) eqn:Et; [discriminate H|].
      injection H as <-. rewrite !rsl_cons, Hh, Hst, (rs_checked _ Et Hc). reflexivity.
    + rewrite is_root_root_op in Er. pose proof (rs_nonroot _ Er Hc) as Hroot.
      destruct (is_sequence (nop root)).
      * apply (IH _ _ H); [|exact Hst]. cbn [nch]. rewrite rsl_app, rsl_one, (rs_children _ Hh), Hroot. reflexivity.
      * destruct (has_too_many_children (nop root) (nch root)); [discriminate H|].
        injection H as <-. rewrite !rsl_cons, Hh, Hst, Hroot. reflexivity.
Qed.

Lemma collapse_all_rs st st' : collapse_all_sequences st = Ok st' -> rsl st = true -> rsl st' = true.
Proof.
  unfold collapse_all_sequences. destruct st as [|root stack]; [discriminate|]. intros H Hs.
  rewrite rsl_cons in Hs. apply andb_prop in Hs. destruct Hs as [Hr Hst].
  apply (collapse_loop_rs _ _ _ H); [apply rs_children; exact Hr|exact Hst].
Qed.

Lemma step_rs t next lr st st' : step t next lr st = Ok st' -> rsl st = true -> rsl st' = true.
Proof.
  intros H Hs. unfold step in H.
  destruct t;
    try (match type of H with context [token_to_operator ?a ?b ?c] =>
           destruct (token_to_operator a b c) as [o|] end;
         [apply (insert_node_rs _ _ _ H); [apply rs_fresh|exact Hs]|injection H as <-; exact Hs]).
  - injection H as <-. rewrite rsl_cons, rs_root_node, Hs. reflexivity.
  - destruct (length st <=? 1)%nat; [discriminate H|].
    destruct (collapse_all_sequences st) as [st1| |] eqn:Ec; try discriminate H. cbn [bind] in H.
    pose proof (collapse_all_rs _ _ Ec Hs) as H1.
    destruct st1 as [|n st1']; [injection H as <-; reflexivity|].
    rewrite rsl_cons in H1. apply andb_prop in H1. destruct H1 as [Hn Hst1].
    apply (insert_node_rs _ _ _ H); assumption.
Qed.

Lemma loop_rs ts : forall st lr st', build_loop ts st lr = Ok st' -> rsl st = true -> rsl st' = true.
Proof.
  induction ts as [|t ts IH]; intros st lr st' H Hs.
  - cbn [build_loop] in H. injection H as <-. exact Hs.
  - rewrite build_loop_cons in H.
    destruct (step t (next_of ts) lr st) as [st1| |] eqn:E; try discriminate H. cbn [bind] in H.
    exact (IH _ _ _ H (step_rs _ _ _ _ _ E Hs)).
Qed.

(* in every tree the builder returns, every RootNode has at most one child *)
Theorem built_roots_small ts n : tokens_to_operator_tree ts = Ok n -> roots_small n = true.
Proof.
  unfold tokens_to_operator_tree.
  destruct (build_loop ts [root_node] false) as [st| |] eqn:E; try discriminate. cbn [bind].
  destruct (collapse_all_sequences st) as [st'| |] eqn:Ec; try discriminate. cbn [bind].
  destruct st' as [|r [|r2 st2]]; try discriminate. intros H. injection H as <-.
  pose proof (collapse_all_rs _ _ Ec (loop_rs _ _ _ _ E eq_refl)) as H. rewrite rsl_one in H. exact H.
Qed.

(* ------------------------------------------------------------------------------------------ *)
(* 2. The dispatchers reject a wrong operand count                                              *)

Lemma nargs_ne0 (vs : list value) : Nat.eqb (length vs) 0 = false -> N.eqb (nargs vs) 0 = false.
Proof. intros H. apply Nat.eqb_neq in H. apply N.eqb_neq. unfold nargs. lia. Qed.
Lemma nargs_ne1 (vs : list value) : Nat.eqb (length vs) 1 = false -> N.eqb (nargs vs) 1 = false.
Proof. intros H. apply Nat.eqb_neq in H. apply N.eqb_neq. unfold nargs. lia. Qed.
Lemma nargs_ne2 (vs : list value) : Nat.eqb (length vs) 2 = false -> N.eqb (nargs vs) 2 = false.
Proof. intros H. apply Nat.eqb_neq in H. apply N.eqb_neq. unfold nargs. lia. Qed.

Section WithOracle.
Variable O : std_oracle.

(* every operator but the RootNode: a count its shape does not accept is not Ok
   (an arity error; EContextNotMutable for the assignment operators in the read-only dispatcher) *)
Lemma op_eval_bad o vs c lg :
  is_root_op o = false -> arity_fits o (length vs) = false -> is_ok (fst (op_eval O o vs c lg)) = false.
Proof.
  intros Hr Hf. unfold arity_fits in Hf.
  destruct o; cbn [shape_of] in Hf; try discriminate Hr; try discriminate Hf; try reflexivity.
  all: first [apply nargs_ne0 in Hf | apply nargs_ne1 in Hf | apply nargs_ne2 in Hf].
  all: unfold op_eval, arith, compare_op, bool_op, expect_operator_argument_amount; rewrite Hf; reflexivity.
Qed.

Lemma op_eval_mut_bad o vs c lg :
  is_root_op o = false -> arity_fits o (length vs) = false ->
  is_ok (fst (fst (op_eval_mut O o vs c lg))) = false.
Proof.
  intros Hr Hf. pose proof (op_eval_bad o vs c lg Hr Hf) as Hro. unfold arity_fits in Hf.
  destruct o; cbn [shape_of] in Hf; try discriminate Hr; try discriminate Hf;
    try (revert Hro; unfold op_eval_mut; destruct (op_eval O _ vs c lg) as [r lg']; intros Hro; exact Hro).
  all: apply nargs_ne2 in Hf; unfold op_eval_mut, expect_operator_argument_amount; rewrite Hf; reflexivity.
Qed.

(* ------------------------------------------------------------------------------------------ *)
(* 3. The children loop: as many values as children; a child that is not Ok stops the loop        *)

Lemma args_ro_len l c : forall lg vs lg', eval_args_ro O l c lg = (Ok vs, lg') -> length vs = length l.
Proof.
  induction l as [|x l IH]; intros lg vs lg' H.
  - rewrite eval_args_ro_nil in H. injection H as <- _. reflexivity.
  - rewrite eval_args_ro_cons in H. destruct (eval_ro O x c lg) as [[v|e|p] lg1]; try discriminate H.
    destruct (eval_args_ro O l c lg1) as [[vs'|e|p] lg2] eqn:E; try discriminate H.
    injection H as <- _. cbn [length]. rewrite (IH _ _ _ E). reflexivity.
Qed.

Lemma args_mut_len l : forall c lg vs c' lg',
  eval_args_mut O l c lg = (Ok vs, c', lg') -> length vs = length l.
Proof.
  induction l as [|x l IH]; intros c lg vs c' lg' H.
  - cbn [eval_args_mut] in H. injection H as <- _ _. reflexivity.
  - rewrite eval_args_mut_cons in H. destruct (eval_mut O x c lg) as [[[v|e|p] c1] lg1]; try discriminate H.
    destruct (eval_args_mut O l c1 lg1) as [[[vs'|e|p] c2] lg2] eqn:E; try discriminate H.
    injection H as <- _ _. cbn [length]. rewrite (IH _ _ _ _ _ E). reflexivity.
Qed.

Definition never_ro (x : node) : Prop :=
  roots_small x = true -> has_bad_arity x = true -> forall c lg, is_ok (fst (eval_ro O x c lg)) = false.
Definition never_mut (x : node) : Prop :=
  roots_small x = true -> has_bad_arity x = true -> forall c lg, is_ok (fst (fst (eval_mut O x c lg))) = false.

Lemma args_ro_bad l : Forall never_ro l -> rsl l = true -> existsb has_bad_arity l = true ->
  forall c lg, is_ok (fst (eval_args_ro O l c lg)) = false.
Proof.
  induction 1 as [|x l Hx _ IH]; intros Hs Hb c lg; [discriminate Hb|].
  rewrite rsl_cons in Hs. apply andb_prop in Hs. destruct Hs as [Hsx Hsl].
  rewrite eval_args_ro_cons. cbn [existsb] in Hb.
  destruct (eval_ro O x c lg) as [[v|e|p] lg1] eqn:Ex; try reflexivity.
  destruct (has_bad_arity x) eqn:Ebx.
  - specialize (Hx Hsx Ebx c lg). rewrite Ex in Hx. discriminate Hx.
  - cbn [orb] in Hb. specialize (IH Hsl Hb c lg1).
    destruct (eval_args_ro O l c lg1) as [[vs|e|p] lg2]; [discriminate IH|reflexivity|reflexivity].
Qed.

Lemma args_mut_bad l : Forall never_mut l -> rsl l = true -> existsb has_bad_arity l = true ->
  forall c lg, is_ok (fst (fst (eval_args_mut O l c lg))) = false.
Proof.
  induction 1 as [|x l Hx _ IH]; intros Hs Hb c lg; [discriminate Hb|].
  rewrite rsl_cons in Hs. apply andb_prop in Hs. destruct Hs as [Hsx Hsl].
  rewrite eval_args_mut_cons. cbn [existsb] in Hb.
  destruct (eval_mut O x c lg) as [[[v|e|p] c1] lg1] eqn:Ex; try reflexivity.
  destruct (has_bad_arity x) eqn:Ebx.
  - specialize (Hx Hsx Ebx c lg). rewrite Ex in Hx. discriminate Hx.
  - cbn [orb] in Hb. specialize (IH Hsl Hb c1 lg1).
    destruct (eval_args_mut O l c1 lg1) as [[[vs|e|p] c2] lg2]; [discriminate IH|reflexivity|reflexivity].
Qed.

(* ------------------------------------------------------------------------------------------ *)
(* 4. A tree with an operand-count defect is never Ok                                           *)

Lemma root_contra o k :
  is_root_op o = true -> Nat.leb k 1 = true -> arity_fits o k = false -> False.
Proof.
  intros Hr Hh Hf. destruct o; try discriminate Hr. unfold arity_fits in Hf. cbn [shape_of] in Hf.
  congruence.
Qed.

Lemma eval_ro_bad n : never_ro n.
Proof.
  induction n as [o ch IH] using BuilderFacts.node_ind'. intros Hs Hb c lg.
  rewrite eval_ro_node. rewrite rs_unfold in Hs. apply andb_prop in Hs. destruct Hs as [Hh Hc].
  rewrite bad_unfold in Hb.
  destruct (eval_args_ro O ch c lg) as [[vs|e|p] lg1] eqn:Ea; try reflexivity.
  assert (Hex : existsb has_bad_arity ch = false).
  { destruct (existsb has_bad_arity ch) eqn:E; [|reflexivity].
    pose proof (args_ro_bad ch IH Hc E c lg) as Hx. rewrite Ea in Hx. discriminate Hx. }
  rewrite Hex, orb_false_r in Hb. apply negb_true_iff in Hb.
  rewrite <- (args_ro_len _ _ _ _ _ Ea) in Hb, Hh.
  apply op_eval_bad; [|exact Hb].
  destruct (is_root_op o) eqn:Er; [|reflexivity]. exfalso. cbn [negb orb] in Hh. exact (root_contra _ _ Er Hh Hb).
Qed.

Lemma eval_mut_bad n : never_mut n.
Proof.
  induction n as [o ch IH] using BuilderFacts.node_ind'. intros Hs Hb c lg.
  rewrite eval_mut_node. rewrite rs_unfold in Hs. apply andb_prop in Hs. destruct Hs as [Hh Hc].
  rewrite bad_unfold in Hb.
  destruct (eval_args_mut O ch c lg) as [[[vs|e|p] c1] lg1] eqn:Ea; try reflexivity.
  assert (Hex : existsb has_bad_arity ch = false).
  { destruct (existsb has_bad_arity ch) eqn:E; [|reflexivity].
    pose proof (args_mut_bad ch IH Hc E c lg) as Hx. rewrite Ea in Hx. discriminate Hx. }
  rewrite Hex, orb_false_r in Hb. apply negb_true_iff in Hb.
  rewrite <- (args_mut_len _ _ _ _ _ _ Ea) in Hb, Hh.
  apply op_eval_mut_bad; [|exact Hb].
  destruct (is_root_op o) eqn:Er; [|reflexivity]. exfalso. cbn [negb orb] in Hh. exact (root_contra _ _ Er Hh Hb).
Qed.

End WithOracle.

(* ------------------------------------------------------------------------------------------ *)
(* 5. The theorems                                                                              *)

(* all trees whose RootNodes have at most one child *)
Theorem arity_eval_tree (O : std_oracle) (n : node) (c : ctx) (lg : log) :
  roots_small n = true -> has_bad_arity n = true ->
  is_ok (fst (eval_ro O n c lg)) = false /\ is_ok (fst (fst (eval_mut O n c lg))) = false.
Proof.
  intros Hs Hb. split; [exact (eval_ro_bad O n Hs Hb c lg)|exact (eval_mut_bad O n Hs Hb c lg)].
Qed.

(* all built trees *)
Theorem arity_eval (O : std_oracle) (ts : list token) (n : node) (c : ctx) (lg : log) :
  tokens_to_operator_tree ts = Ok n -> has_bad_arity n = true ->
  is_ok (fst (eval_ro O n c lg)) = false /\ is_ok (fst (fst (eval_mut O n c lg))) = false.
Proof. intros Hn Hb. apply arity_eval_tree; [exact (built_roots_small ts n Hn)|exact Hb]. Qed.

(* the side condition on RootNodes cannot be dropped: has_bad_arity flags `Root [1; 2]`, which
   evaluates to 1 (the builder never produces it) *)
Theorem root_two_children_evaluates :
  exists n, has_bad_arity n = true /\ roots_small n = false /\
    forall O c lg, eval_ro O n c lg = (Ok (VInt 1), lg) /\ eval_mut O n c lg = (Ok (VInt 1), c, lg).
Proof.
  exists (Node ORootNode [Node (OConst (VInt 1)) []; Node (OConst (VInt 2)) []]).
  split; [reflexivity|]. split; [reflexivity|]. intros O c lg. split; reflexivity.
Qed.

(* the sentence of the property, over token lists *)
Theorem never_ok (ts : list token) (n : node) (O : std_oracle) (c : ctx) (lg : log) :
  wellformed ts = false -> tokens_to_operator_tree ts = Ok n ->
  is_ok (fst (eval_ro O n c lg)) = false /\ is_ok (fst (fst (eval_mut O n c lg))) = false.
Proof.
  intros Hw Hn. destruct (rejected ts Hw) as [[e He]|[n' [Hn' Hb]]]; [congruence|].
  assert (n' = n) by congruence. subst n'. exact (arity_eval O ts n c lg Hn Hb).
Qed.

(* over source strings *)
Theorem never_ok_tree (s : str) (ts : list token) (n : node) (O : std_oracle) (c : ctx) (lg : log) :
  tokenize s = Ok ts -> wellformed ts = false -> build_operator_tree s = Ok n ->
  is_ok (fst (eval_ro O n c lg)) = false /\ is_ok (fst (fst (eval_mut O n c lg))) = false.
Proof.
  intros Ht Hw Hn. unfold build_operator_tree in Hn. rewrite Ht in Hn. cbn [bind] in Hn.
  exact (never_ok ts n O c lg Hw Hn).
Qed.

Lemma project_not_ok t (r : outcome value) : is_ok r = false -> is_ok (project t r) = false.
Proof. destruct r; [discriminate|reflexivity|reflexivity]. Qed.

Theorem never_ok_entry (s : str) (ts : list token) :
  tokenize s = Ok ts -> wellformed ts = false ->
  forall (O : std_oracle) (m : emode) (t : etype) (c : ctx) (lg : log),
    is_ok (fst (fst (run_entry O m t s c lg))) = false.
Proof.
  intros Ht Hw O m t c lg. unfold run_entry, build_operator_tree. rewrite Ht. cbn [bind].
  destruct (tokens_to_operator_tree ts) as [n|e|p] eqn:En; try reflexivity.
  destruct m.
  - destruct (never_ok ts n O empty_hashmap [] Hw En) as [_ H].
    destruct (eval_mut O n empty_hashmap []) as [[r c'] lg']. cbn [fst] in H. cbn [fst].
    apply project_not_ok; exact H.
  - destruct (never_ok ts n O c lg Hw En) as [H _].
    destruct (eval_ro O n c lg) as [r lg']. cbn [fst] in H. cbn [fst].
    apply project_not_ok; exact H.
  - destruct (never_ok ts n O c lg Hw En) as [_ H].
    destruct (eval_mut O n c lg) as [[r c'] lg']. cbn [fst] in H. cbn [fst].
    apply project_not_ok; exact H.
Qed.
