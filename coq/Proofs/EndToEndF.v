(* End-to-end WITH FLOAT LITERALS: source strings -> reference trees, through the relation
     lexemes_wf ls /\ map lexeme_token ls = flatten e
   instead of the function lexemes_of (which has no float case).  Composition of
     C06_embedded / C07_separators (Proofs/C07.v: tokenize_join),
     C06_float facts              (Proofs/C06.v: parse_float_text, float_text_chars, ...),
     C02_parse                    (Proofs/C02.v: expr_parse_top),
     Proofs/EndToEnd.v            (map_lexeme_token, lexeme_of_token_sound, renderable_token_lexeme, spaces_valid). *)
From Coq Require Import Strings.String Floats.SpecFloat.
Require Import Model.Base Model.Syntax Model.F64 Model.Lexer Model.Builder Model.Value Model.Context Model.Eval
               Model.Interface.
Require Import Spec.OpTable Spec.Grammar Spec.LexSpec Spec.Render Spec.RenderF.
Require Import Proofs.LexFacts Proofs.C06 Proofs.C07 Proofs.C02 Proofs.EndToEnd.

(* ========================================================================================== *)
(** * 1. Lexing and parsing any lexeme list that denotes the tokens *)

(* E2EF_tokenize: C06_embedded with Render.lexeme_token *)
Theorem tokenize_joinF ls seps : lexemes_wf ls -> valid_seps ls seps ->
  tokenize (LexSpec.join ls seps) = Ok (map lexeme_token ls).
Proof.
  intros Hwf Hseps. rewrite (tokenize_join ls seps Hwf Hseps), <- map_lexeme_token. reflexivity.
Qed.

Theorem build_joinF ls seps : lexemes_wf ls -> valid_seps ls seps ->
  build_operator_tree (LexSpec.join ls seps) = tokens_to_operator_tree (map lexeme_token ls).
Proof.
  intros Hwf Hseps. unfold build_operator_tree. rewrite (tokenize_joinF ls seps Hwf Hseps). reflexivity.
Qed.

(* E2EF_parse *)
Theorem e2ef_parse (e : expr) ls seps :
  ok_top e -> lexemes_wf ls -> map lexeme_token ls = flatten e -> valid_seps ls seps ->
  build_operator_tree (LexSpec.join ls seps) = Ok (Node ORootNode [tree_of e]).
Proof.
  intros Hok Hwf Hts Hseps. rewrite (build_joinF ls seps Hwf Hseps), Hts. apply expr_parse_top. exact Hok.
Qed.

(* E2EF_separators_float *)
Theorem e2ef_separators (e : expr) ls1 ls2 s1 s2 :
  ok_top e ->
  lexemes_wf ls1 -> map lexeme_token ls1 = flatten e -> valid_seps ls1 s1 ->
  lexemes_wf ls2 -> map lexeme_token ls2 = flatten e -> valid_seps ls2 s2 ->
  build_operator_tree (LexSpec.join ls1 s1) = build_operator_tree (LexSpec.join ls2 s2).
Proof.
  intros Hok Hwf1 Ht1 Hs1 Hwf2 Ht2 Hs2.
  rewrite (e2ef_parse e ls1 s1 Hok Hwf1 Ht1 Hs1), (e2ef_parse e ls2 s2 Hok Hwf2 Ht2 Hs2). reflexivity.
Qed.

Section Eval.
Variable O : std_oracle.

(* E2EF_eval *)
Theorem e2ef_eval (e : expr) ls seps m t c lg :
  ok_top e -> lexemes_wf ls /\ map lexeme_token ls = flatten e -> valid_seps ls seps ->
  run_entry O m t (LexSpec.join ls seps) c lg =
  match m with
  | MRo => let '(r, lg') := eval_ro O (Node ORootNode [tree_of e]) c lg in (project t r, c, lg')
  | MMut => let '(r, c', lg') := eval_mut O (Node ORootNode [tree_of e]) c lg in (project t r, c', lg')
  | MFree => let '(r, _, _) := eval_mut O (Node ORootNode [tree_of e]) empty_hashmap [] in (project t r, c, lg)
  end.
Proof.
  intros Hok [Hwf Hts] Hseps. unfold run_entry. rewrite (e2ef_parse e ls seps Hok Hwf Hts Hseps). reflexivity.
Qed.

End Eval.

(* ========================================================================================== *)
(** * 2. A float literal has a lexeme, and the lexeme denotes its value *)

Lemma signed_exp_b_iff fl : signed_exp_b fl = true <-> signed_exp fl.
Proof.
  unfold signed_exp_b, signed_exp. destruct (fl_exp fl) as [|up [] ds]; split; intros H;
    try reflexivity; try exact I; try discriminate H; try contradiction.
Qed.

Lemma signed_exp_b_false fl : signed_exp_b fl = false -> ~ signed_exp fl.
Proof. intros H Hs. apply signed_exp_b_iff in Hs. congruence. Qed.

(* the text of a float literal without a signed exponent is a word ... *)
Lemma float_text_word fl : float_wf fl -> ~ signed_exp fl -> word (float_text fl).
Proof.
  intros Hwf Hns. split; [apply float_text_nonempty; exact Hwf|].
  eapply Forall_impl; [|apply float_text_chars; [exact Hwf|exact Hns]]. apply float_char_word.
Qed.

(* ... and that word alone is read as the float token of its value *)
Lemma float_text_word_token fl : float_wf fl -> has_dot_or_exp fl -> ~ signed_exp fl ->
  fst (literal_to_token (float_text fl) None None) = TFloat (float_value fl).
Proof.
  intros Hwf Hde Hns. pose proof (float_text_chars fl Hwf Hns) as Hch.
  destruct (float_text_has_nondigit fl Hde) as (c & Hin & Hc).
  unfold literal_to_token.
  rewrite (not_int_of_nondigit (float_text fl) c (float_chars_no_x _ Hch) Hin Hc).
  rewrite (parse_float_text fl Hwf). reflexivity.
Qed.

(* E2EF_float_lexeme *)
Theorem float_lexeme_spec fl : float_wf fl -> has_dot_or_exp fl ->
  lexeme_wf (float_lexeme fl) /\ text (float_lexeme fl) = float_text fl /\
  lexeme_token (float_lexeme fl) = TFloat (float_value fl).
Proof.
  intros Hwf Hde. unfold float_lexeme. destruct (signed_exp_b fl) eqn:E.
  - apply signed_exp_b_iff in E. cbn [lexeme_wf text lexeme_token].
    split; [split; [exact Hwf|exact E]|]. split; reflexivity.
  - apply signed_exp_b_false in E. cbn [lexeme_wf text lexeme_token].
    split; [apply float_text_word; assumption|]. split; [reflexivity|].
    apply float_text_word_token; assumption.
Qed.

(* ========================================================================================== *)
(** * 3. renderableF expressions have lexemes *)

Lemma renderableF_token_lexeme t : renderableF_token t -> exists l, lexeme_wf l /\ lexeme_token l = t.
Proof.
  intros H.
  assert (Hnf : renderable_token t -> exists l, lexeme_wf l /\ lexeme_token l = t).
  { intros Hr. destruct (renderable_token_lexeme t Hr) as [l El]. exists l.
    apply lexeme_of_token_sound. exact El. }
  destruct t as [ | | | | | | | | | | | | | | | | | | | | | | | | | | | |w|f|n|b|s];
    try (apply Hnf; exact H).
  (* TFloat *)
  cbn [renderableF_token] in H. destruct H as (fl & Hwf & Hde & Hv).
  destruct (float_lexeme_spec fl Hwf Hde) as (H1 & _ & H3).
  exists (float_lexeme fl). split; [exact H1|]. rewrite H3, Hv. reflexivity.
Qed.

Lemma renderableF_tokens_lexemes ts : Forall renderableF_token ts ->
  exists ls, lexemes_wf ls /\ map lexeme_token ls = ts.
Proof.
  induction 1 as [|t ts Ht Hts IH]; [exists []; split; [constructor|reflexivity]|].
  destruct (renderableF_token_lexeme t Ht) as (l & Hl & El). destruct IH as (ls & Hls & Els).
  exists (l :: ls). split; [constructor; assumption|]. cbn [map]. rewrite El, Els. reflexivity.
Qed.

(* renderable (no floats) is a special case *)
Lemma renderable_renderableF (e : expr) : renderable e -> renderableF e.
Proof.
  unfold renderable, renderableF. apply Forall_impl. intros t.
  destruct t; cbn [renderable_token renderableF_token]; try (intros H; exact H). intros [].
Qed.

(* E2EF_renderable *)
Theorem e2ef_renderable (e : expr) : ok_top e -> renderableF e ->
  exists ls, lexemes_wf ls /\ map lexeme_token ls = flatten e /\
    (exists seps, valid_seps ls seps) /\
    forall seps, valid_seps ls seps ->
      build_operator_tree (LexSpec.join ls seps) = Ok (Node ORootNode [tree_of e]).
Proof.
  intros Hok Hr. destruct (renderableF_tokens_lexemes _ Hr) as (ls & Hwf & Hts). exists ls.
  split; [exact Hwf|]. split; [exact Hts|].
  split; [exists (spaces (S (length ls))); apply spaces_valid|].
  intros seps Hseps. apply e2ef_parse; assumption.
Qed.

(* ========================================================================================== *)
(** * 4. Boolean tests for float_wf / has_dot_or_exp (for examples) *)

(* a boolean test for float_wf (used for examples) *)
Definition dec_digit_b (c : N) : bool := ((48 <=? c) && (c <=? 57))%N.
Definition all_digits_b (s : str) : bool := forallb dec_digit_b s.
Definition float_wf_b (fl : float_lit) : bool :=
  all_digits_b (fl_int fl) && all_digits_b (frac_digits (fl_frac fl)) &&
  match fl_int fl ++ frac_digits (fl_frac fl) with [] => false | _ => true end &&
  match fl_exp fl with NoExp => true | Exp _ _ ds => match ds with [] => false | _ => all_digits_b ds end end.

Definition has_dot_or_exp_b (fl : float_lit) : bool :=
  match fl_frac fl, fl_exp fl with None, NoExp => false | _, _ => true end.

Lemma dec_digit_b_iff c : dec_digit_b c = true <-> dec_digit c.
Proof.
  unfold dec_digit_b, dec_digit. split.
  - intros H. apply andb_prop in H. destruct H as [H1 H2]. apply N.leb_le in H1, H2. split; assumption.
  - intros [H1 H2]. apply N.leb_le in H1, H2. rewrite H1, H2. reflexivity.
Qed.

Lemma all_digits_b_sound s : all_digits_b s = true -> all_digits s.
Proof.
  unfold all_digits_b, all_digits. intros H. apply Forall_forall. intros c Hc.
  apply dec_digit_b_iff. rewrite forallb_forall in H. apply H. exact Hc.
Qed.

Lemma float_wf_b_sound fl : float_wf_b fl = true -> float_wf fl.
Proof.
  unfold float_wf_b, float_wf. intros H.
  apply andb_prop in H. destruct H as [H H4]. apply andb_prop in H. destruct H as [H H3].
  apply andb_prop in H. destruct H as [H1 H2].
  split; [apply all_digits_b_sound; exact H1|]. split; [apply all_digits_b_sound; exact H2|].
  split.
  - intros E. rewrite E in H3. discriminate H3.
  - destruct (fl_exp fl) as [|up sg ds]; [exact I|]. destruct ds as [|d ds]; [discriminate H4|].
    split; [discriminate|apply all_digits_b_sound; exact H4].
Qed.

Lemma has_dot_or_exp_b_sound fl : has_dot_or_exp_b fl = true -> has_dot_or_exp fl.
Proof.
  unfold has_dot_or_exp_b, has_dot_or_exp. destruct (fl_frac fl) as [fp|]; [intros _; left; discriminate|].
  destruct (fl_exp fl) as [|up sg ds]; [discriminate|]. intros _. right. discriminate.
Qed.

(* a sufficient test for renderableF, given for each float token a literal that denotes it *)
Definition float_eqb (x y : f64) : bool :=
  match x, y with
  | S754_zero a, S754_zero b => Bool.eqb a b
  | S754_infinity a, S754_infinity b => Bool.eqb a b
  | S754_nan, S754_nan => true
  | S754_finite a m e, S754_finite b m' e' => Bool.eqb a b && Pos.eqb m m' && Z.eqb e e'
  | _, _ => false
  end.

Lemma float_eqb_eq x y : float_eqb x y = true -> x = y.
Proof.
  destruct x as [a|a| |a m e], y as [b|b| |b m' e']; cbn [float_eqb]; intros H; try discriminate H.
  - apply Bool.eqb_prop in H. subst. reflexivity.
  - apply Bool.eqb_prop in H. subst. reflexivity.
  - reflexivity.
  - apply andb_prop in H. destruct H as [H H3]. apply andb_prop in H. destruct H as [H1 H2].
    apply Bool.eqb_prop in H1. apply Pos.eqb_eq in H2. apply Z.eqb_eq in H3. subst. reflexivity.
Qed.

Definition renderableF_token_b (lits : list float_lit) (t : token) : bool :=
  match t with
  | TIdentifier w => letter_ident_b w
  | TInt n => (0 <=? n) && (n <=? i64_max)
  | TFloat x => existsb (fun fl => float_wf_b fl && has_dot_or_exp_b fl && float_eqb (float_value fl) x) lits
  | _ => true
  end.

Lemma renderableF_token_b_sound lits t : renderableF_token_b lits t = true -> renderableF_token t.
Proof.
  destruct t; cbn [renderableF_token_b renderableF_token]; intros H; try exact I.
  - apply letter_ident_sound. exact H.
  - apply existsb_exists in H. destruct H as (fl & _ & H).
    apply andb_prop in H. destruct H as [H H3]. apply andb_prop in H. destruct H as [H1 H2].
    exists fl. split; [apply float_wf_b_sound; exact H1|].
    split; [apply has_dot_or_exp_b_sound; exact H2|]. apply float_eqb_eq. exact H3.
  - apply andb_prop in H. destruct H as [H1 H2]. apply Z.leb_le in H1, H2. split; assumption.
Qed.

Theorem renderableF_test lits (e : expr) :
  forallb (renderableF_token_b lits) (flatten e) = true -> renderableF e.
Proof.
  intros H. unfold renderableF. apply Forall_forall. intros t Ht.
  apply (renderableF_token_b_sound lits). rewrite forallb_forall in H. apply H. exact Ht.
Qed.

(* a test for lexemes_wf *)
Definition lexeme_wf_b (l : lexeme) : bool :=
  match l with
  | LWord w => word_b w
  | LSci fl => float_wf_b fl && signed_exp_b fl
  | LOp _ | LStr _ => true
  end.

Lemma lexeme_wf_b_sound l : lexeme_wf_b l = true -> lexeme_wf l.
Proof.
  destruct l as [w|fl|o|s]; cbn [lexeme_wf_b lexeme_wf]; intros H; try exact I.
  - apply word_b_iff. exact H.
  - apply andb_prop in H. destruct H as [H1 H2].
    split; [apply float_wf_b_sound; exact H1|apply signed_exp_b_iff; exact H2].
Qed.

Theorem lexemes_wf_test ls : forallb lexeme_wf_b ls = true -> lexemes_wf ls.
Proof.
  intros H. unfold lexemes_wf. apply Forall_forall. intros l Hl. apply lexeme_wf_b_sound.
  rewrite forallb_forall in H. apply H. exact Hl.
Qed.

(* ========================================================================================== *)
(** * 5. What renderableF still excludes: e.g. -0.0 is the value of no literal (f_of_decimal rounds a
      non-negative decimal number; the text -0.0 is the two lexemes `-` `0.0`) *)

Lemma round_aux_pos_not_negzero q e l : binary_round_aux prec emax false q e l <> S754_zero true.
Proof.
  unfold binary_round_aux.
  destruct (shr_fexp prec emax q e l) as [mrs1 e1].
  destruct (shr_fexp prec emax (round_nearest_even (shr_m mrs1) (loc_of_shr_record mrs1)) e1 loc_Exact) as [mrs2 e2].
  destruct (shr_m mrs2) as [|m|m]; try discriminate.
  destruct (Zle_bool e2 (emax - prec)); discriminate.
Qed.

Lemma f_of_decimal_not_negzero m e : f_of_decimal m e <> S754_zero true.
Proof.
  unfold f_of_decimal. destruct m as [|mp|mp]; try discriminate.
  destruct (400 <? e); [discriminate|].
  destruct (0 <=? e) eqn:E0.
  - apply Z.leb_le in E0. unfold binary_normalize.
    destruct (Z.pos mp * 10 ^ e) as [|p|p] eqn:Ep; [discriminate| |].
    + unfold binary_round.
      destruct (shl_align p 0 (fexp prec emax (Z.pos (digits2_pos p) + 0))) as [mz ez].
      apply round_aux_pos_not_negzero.
    + exfalso. assert (0 <= 10 ^ e) by (apply Z.pow_nonneg; lia). nia.
  - destruct (e <? -400 - Z.log2 (Z.pos mp)); [discriminate|].
    destruct (10 ^ (- e)) as [|d|d]; try discriminate.
    destruct (SFdiv_core_binary prec emax (Z.pos mp) 0 (Z.pos d) 0) as [[q e'] l].
    apply round_aux_pos_not_negzero.
Qed.

Lemma negzero_not_renderableF : ~ renderableF (Lit (LFloat (S754_zero true))).
Proof.
  intros H. inversion H as [|t ts Ht _]. subst. cbn [renderableF_token] in Ht.
  destruct Ht as (fl & _ & _ & Hv). revert Hv. unfold float_value. apply f_of_decimal_not_negzero.
Qed.
