Require Import Model.Base Model.Syntax Model.Builder Spec.Recognizer Proofs.BuilderFacts Proofs.C01Build Proofs.C13 Props.C13.
Print Assumptions C13_unbalanced.
Print Assumptions C13_balanced.
Print Assumptions C13_flatten_refuted.
Print Assumptions C13_flatten_partial.
Print Assumptions C13_built_tree_ok.
Print Assumptions C13_wellformed.
Print Assumptions C13_rejected.
Print Assumptions C13_hypotheses_met.
Print Assumptions C13_rejected_examples.
Print Assumptions C13_rejected_by_arity.
Print Assumptions build_no_panic.
Print Assumptions build_depth.
Print Assumptions insert_no_panic.
