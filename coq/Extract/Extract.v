(* Extraction of the executable model to OCaml.  ExtrOcamlBasic only: bool, option, list, prod, unit,
   sumbool are mapped to OCaml's; Z, N, positive, nat stay Coq datatypes; no Extract Constant. *)
From Coq Require Import Strings.String Floats.SpecFloat.
Require Import Model.Base Model.Syntax Model.F64 Model.Lexer Model.Builder Model.Value Model.Context
               Model.Builtins Model.Eval Model.Iter Model.Interface Model.Script Model.InterfaceGen Model.Display Model.ValueApi.
Require Import Spec.IterMut.
Require Extraction.
Require Import ExtrOcamlBasic.
Extraction Language OCaml.
Extraction "model.ml"
  s2l tokenize str_to_partial_tokens tokens_to_operator_tree build_operator_tree
  f_of_bits bits_of_f parse_float
  run_script step run_entry_gen run_node_entry_gen initial_ctx apply_libfn
  value_fmt value_debug node_fmt error_fmt set_value set_function eval_mut eval_ro empty_hashmap
  as_string as_int as_float as_number as_boolean as_tuple as_fixed_len_tuple as_ranged_len_tuple as_empty str_from type_of value_eqb
  is_string is_int is_float is_number is_boolean is_tuple is_empty try_from_string try_from_bool try_from_tuple try_from_unit
  iter_all iter_identifiers iter_variable_identifiers iter_read_variable_identifiers
  iter_write_variable_identifiers iter_function_identifiers rename_with
  ident_any ident_var ident_read ident_write ident_fn
  iter_mut_idents iter_mut_positions iter_mut_run
  builtin_function
  Z.of_N Z.to_N N.of_nat Z.add Z.mul Z.opp Z.of_nat Z.compare N.add N.mul N.compare Z.div_eucl.
