(* Extraction of the executable model to OCaml.  ExtrOcamlBasic only: bool, option, list, prod, unit,
   sumbool are mapped to OCaml's; Z, N, positive, nat stay Coq datatypes; no Extract Constant. *)
From Coq Require Import Strings.String Floats.SpecFloat.
Require Import Model.Base Model.Syntax Model.F64 Model.Lexer Model.Builder Model.Value Model.Context
               Model.Builtins Model.Eval Model.Iter Model.Interface Model.Script Model.InterfaceGen Model.Display.
Require Extraction.
Require Import ExtrOcamlBasic.
Extraction Language OCaml.
Extraction "model.ml"
  s2l tokenize str_to_partial_tokens tokens_to_operator_tree build_operator_tree
  f_of_bits bits_of_f parse_float
  run_script step run_entry_gen initial_ctx apply_libfn
  value_fmt value_debug node_fmt error_fmt set_value eval_mut empty_hashmap
  iter_all iter_identifiers iter_variable_identifiers iter_read_variable_identifiers
  iter_write_variable_identifiers iter_function_identifiers rename_with
  ident_any ident_var ident_read ident_write ident_fn
  builtin_function
  Z.of_N Z.to_N N.of_nat Z.add Z.mul Z.opp Z.of_nat Z.compare N.add N.mul N.compare Z.div_eucl.
