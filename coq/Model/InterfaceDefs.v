(* The vocabulary of the translated entry points (Gen/Interface.v is generated in these terms). *)
From Coq Require Import Strings.String List.
Import ListNotations.
Require Import Model.Syntax Model.Interface.

Inductive conv := ConvId | ConvIntAsFloat.
Inductive errctor := XeString | XeInt | XeFloat | XeNumber | XeBoolean | XeTuple | XeEmpty.

Inductive wbody :=
| BPrim (mutable : bool)                  (* Node::eval_with_context / eval_with_context_mut themselves *)
| BParseThen (method : string)            (* tree::tokens_to_operator_tree(token::tokenize(string)?)?.<method>(context) *)
| BParseOnly                              (* build_operator_tree *)
| BDelegateFresh (callee : string)        (* <callee>(string | self, &mut HashMapContext::new()) *)
| BMatch (callee : string) (arms : list (vtype * conv)) (fallback : errctor).
                                          (* match <callee>(.., context) { Ok(Value::V(x)) => Ok(conv x), ..,
                                             Ok(value) => Err(expected_E(value)), Err(error) => Err(error) } *)

Record wrapper := {
  w_level : elevel;
  w_name : string;
  w_hasctx : bool;
  w_mutctx : bool;
  w_body : wbody;
}.
