(* Data types of evalexpr, mirrored: Value, Token, PartialToken, Operator, Node, EvalexprError. *)
From Coq Require Import Floats.SpecFloat.
Require Import Model.Base.

(* src/value/mod.rs  enum Value.  A float is a SpecFloat.spec_float (one canonical NaN). *)
Inductive value :=
| VString (s : str)
| VFloat (f : spec_float)
| VInt (i : Z)
| VBool (b : bool)
| VTuple (l : list value)
| VEmpty.

(* src/value/value_type.rs *)
Inductive vtype := TyString | TyFloat | TyInt | TyBoolean | TyTuple | TyEmpty.

Definition type_of (v : value) : vtype :=
  match v with
  | VString _ => TyString | VFloat _ => TyFloat | VInt _ => TyInt
  | VBool _ => TyBoolean | VTuple _ => TyTuple | VEmpty => TyEmpty
  end.

Definition vtype_eqb (a b : vtype) : bool :=
  match a, b with
  | TyString, TyString | TyFloat, TyFloat | TyInt, TyInt
  | TyBoolean, TyBoolean | TyTuple, TyTuple | TyEmpty, TyEmpty => true
  | _, _ => false
  end.

(* src/token/mod.rs  enum Token *)
Inductive token :=
| TPlus | TMinus | TStar | TSlash | TPercent | THat
| TEq | TNeq | TGt | TLt | TGeq | TLeq | TAnd | TOr | TNot
| TLBrace | TRBrace
| TAssign | TPlusAssign | TMinusAssign | TStarAssign | TSlashAssign | TPercentAssign | THatAssign
| TAndAssign | TOrAssign
| TComma | TSemicolon
| TIdentifier (s : str) | TFloat (f : spec_float) | TInt (i : Z) | TBoolean (b : bool) | TString (s : str).

(* Token kinds, the domain of the generated token tables. *)
Inductive tok_kind :=
| KPlus | KMinus | KStar | KSlash | KPercent | KHat
| KEq | KNeq | KGt | KLt | KGeq | KLeq | KAnd | KOr | KNot
| KLBrace | KRBrace
| KAssign | KPlusAssign | KMinusAssign | KStarAssign | KSlashAssign | KPercentAssign | KHatAssign
| KAndAssign | KOrAssign
| KComma | KSemicolon
| KIdentifier | KFloat | KInt | KBoolean | KString.

Definition kind_of_token (t : token) : tok_kind :=
  match t with
  | TPlus => KPlus | TMinus => KMinus | TStar => KStar | TSlash => KSlash | TPercent => KPercent | THat => KHat
  | TEq => KEq | TNeq => KNeq | TGt => KGt | TLt => KLt | TGeq => KGeq | TLeq => KLeq
  | TAnd => KAnd | TOr => KOr | TNot => KNot
  | TLBrace => KLBrace | TRBrace => KRBrace
  | TAssign => KAssign | TPlusAssign => KPlusAssign | TMinusAssign => KMinusAssign
  | TStarAssign => KStarAssign | TSlashAssign => KSlashAssign | TPercentAssign => KPercentAssign
  | THatAssign => KHatAssign | TAndAssign => KAndAssign | TOrAssign => KOrAssign
  | TComma => KComma | TSemicolon => KSemicolon
  | TIdentifier _ => KIdentifier | TFloat _ => KFloat | TInt _ => KInt | TBoolean _ => KBoolean | TString _ => KString
  end.

(* src/token/mod.rs  enum PartialToken *)
Inductive ptoken :=
| PToken (t : token)
| PLiteral (s : str)
| PPlus | PMinus | PStar | PSlash | PPercent | PHat
| PWhitespace | PEq | PExclamationMark | PGt | PLt | PAmpersand | PVerticalBar.

(* The class of a single character outside a string literal: the result of char_to_partial_token,
   with all Literal results merged into one class (the generated table's codomain). *)
Inductive cclass :=
| CPlus | CMinus | CStar | CSlash | CPercent | CHat
| CLBrace | CRBrace | CComma | CSemicolon
| CEq | CExclamationMark | CGt | CLt | CAmpersand | CVerticalBar
| CWhitespace | CLiteral.

(* src/operator/mod.rs  enum Operator *)
Inductive operator :=
| ORootNode
| OAdd | OSub | ONeg | OMul | ODiv | OMod | OExp
| OEq | ONeq | OGt | OLt | OGeq | OLeq | OAnd | OOr | ONot
| OAssign | OAddAssign | OSubAssign | OMulAssign | ODivAssign | OModAssign | OExpAssign | OAndAssign | OOrAssign
| OTuple | OChain
| OConst (v : value)
| OVariableIdentifierWrite (s : str)
| OVariableIdentifierRead (s : str)
| OFunctionIdentifier (s : str).

(* Operator kinds (no payload), the domain of the generated operator tables. *)
Inductive op_kind :=
| QRootNode
| QAdd | QSub | QNeg | QMul | QDiv | QMod | QExp
| QEq | QNeq | QGt | QLt | QGeq | QLeq | QAnd | QOr | QNot
| QAssign | QAddAssign | QSubAssign | QMulAssign | QDivAssign | QModAssign | QExpAssign | QAndAssign | QOrAssign
| QTuple | QChain
| QConst | QVariableIdentifierWrite | QVariableIdentifierRead | QFunctionIdentifier.

Definition kind_of (o : operator) : op_kind :=
  match o with
  | ORootNode => QRootNode
  | OAdd => QAdd | OSub => QSub | ONeg => QNeg | OMul => QMul | ODiv => QDiv | OMod => QMod | OExp => QExp
  | OEq => QEq | ONeq => QNeq | OGt => QGt | OLt => QLt | OGeq => QGeq | OLeq => QLeq
  | OAnd => QAnd | OOr => QOr | ONot => QNot
  | OAssign => QAssign | OAddAssign => QAddAssign | OSubAssign => QSubAssign | OMulAssign => QMulAssign
  | ODivAssign => QDivAssign | OModAssign => QModAssign | OExpAssign => QExpAssign
  | OAndAssign => QAndAssign | OOrAssign => QOrAssign
  | OTuple => QTuple | OChain => QChain
  | OConst _ => QConst
  | OVariableIdentifierWrite _ => QVariableIdentifierWrite
  | OVariableIdentifierRead _ => QVariableIdentifierRead
  | OFunctionIdentifier _ => QFunctionIdentifier
  end.

Definition op_kind_eqb (a b : op_kind) : bool :=
  match a, b with
  | QRootNode, QRootNode | QAdd, QAdd | QSub, QSub | QNeg, QNeg | QMul, QMul | QDiv, QDiv | QMod, QMod | QExp, QExp
  | QEq, QEq | QNeq, QNeq | QGt, QGt | QLt, QLt | QGeq, QGeq | QLeq, QLeq | QAnd, QAnd | QOr, QOr | QNot, QNot
  | QAssign, QAssign | QAddAssign, QAddAssign | QSubAssign, QSubAssign | QMulAssign, QMulAssign
  | QDivAssign, QDivAssign | QModAssign, QModAssign | QExpAssign, QExpAssign | QAndAssign, QAndAssign | QOrAssign, QOrAssign
  | QTuple, QTuple | QChain, QChain | QConst, QConst
  | QVariableIdentifierWrite, QVariableIdentifierWrite | QVariableIdentifierRead, QVariableIdentifierRead
  | QFunctionIdentifier, QFunctionIdentifier => true
  | _, _ => false
  end.

(* src/tree/mod.rs  struct Node *)
Inductive node := Node (op : operator) (children : list node).
Definition nop (n : node) : operator := let 'Node o _ := n in o.
Definition nch (n : node) : list node := let 'Node _ c := n in c.

(* src/error/mod.rs  enum EvalexprError (without the regex / rand variants, which need optional features).
   usize::MAX in a range end is represented by None. *)
Inductive error :=
| EWrongOperatorArgumentAmount (expected actual : N)
| EWrongFunctionArgumentAmount (lo : N) (hi : option N) (actual : N)
| EExpectedString (actual : value)
| EExpectedInt (actual : value)
| EExpectedFloat (actual : value)
| EExpectedNumber (actual : value)
| EExpectedNumberOrString (actual : value)
| EExpectedBoolean (actual : value)
| EExpectedTuple (actual : value)
| EExpectedFixedLengthTuple (expected_length : N) (actual : value)
| EExpectedRangedLengthTuple (lo hi : N) (actual : value)
| EExpectedEmpty (actual : value)
| EAppendedToLeafNode
| EPrecedenceViolation
| EVariableIdentifierNotFound (s : str)
| EFunctionIdentifierNotFound (s : str)
| ETypeError (expected : list vtype) (actual : value)
| EWrongTypeCombination (op : operator) (actual : list vtype)
| EUnmatchedLBrace
| EUnmatchedRBrace
| EUnmatchedDoubleQuote
| EMissingOperatorOutsideOfBrace
| EUnmatchedPartialToken (first : ptoken) (second : option ptoken)
| EAdditionError (a b : value)
| ESubtractionError (a b : value)
| ENegationError (a : value)
| EMultiplicationError (a b : value)
| EDivisionError (a b : value)
| EModulationError (a b : value)
| EContextNotMutable
| EIllegalEscapeSequence (s : str)
| EBuiltinFunctionsCannotBeEnabled
| EBuiltinFunctionsCannotBeDisabled
| EOutOfBoundsAccess
| EIntFromUsize (n : N)
| EIntIntoUsize (i : Z)
| ECustomMessage (s : str).

(* Every model function returns an outcome: a value, an evalexpr error, or a panic at a numbered site
   (the numbered sites are the Panic constructors in the model files; tools/panic_sites.json lists the source side). *)
Inductive outcome (A : Type) := Ok (a : A) | Err (e : error) | Panic (site : N).
Arguments Ok {A}. Arguments Err {A}. Arguments Panic {A}.

Definition bind {A B} (r : outcome A) (f : A -> outcome B) : outcome B :=
  match r with Ok a => f a | Err e => Err e | Panic s => Panic s end.

Notation "'do' x <- e1 ; e2" := (bind e1 (fun x => e2))
  (at level 200, x name, e1 at level 100, e2 at level 200, right associativity).
Notation "'do' ' p <- e1 ; e2" := (bind e1 (fun x => let 'p := x in e2))
  (at level 200, p pattern, e1 at level 100, e2 at level 200, right associativity).

Definition is_panic {A} (r : outcome A) : bool := match r with Panic _ => true | _ => false end.
Definition is_ok {A} (r : outcome A) : bool := match r with Ok _ => true | _ => false end.
Definition is_err {A} (r : outcome A) : bool := match r with Err _ => true | _ => false end.
