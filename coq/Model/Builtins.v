(* src/function/builtin.rs: builtin_function, one definition per closure (no optional features). *)
From Coq Require Import Strings.String Floats.SpecFloat.
Require Import Model.Base Model.Syntax Model.F64 Model.Lexer Model.Value.

Section WithOracle.
Variable O : std_oracle.

(* tuple[i] after a length check; a panic site if the check were missing *)
Definition idx (l : list value) (i : nat) (site : N) : outcome value :=
  match nth_opt l i with Some v => Ok v | None => Panic site end.

(* simple_math!($func) *)
Definition simple_math1 (f : f64 -> f64) (arg : value) : outcome value :=
  do num <- as_number arg; Ok (VFloat (f num)).
(* simple_math!($func, 2) *)
Definition simple_math2 (f : f64 -> f64 -> f64) (arg : value) : outcome value :=
  do t <- as_fixed_len_tuple arg 2;
  do t0 <- idx t 0 40; do a <- as_number t0;
  do t1 <- idx t 1 41; do b <- as_number t1;
  Ok (VFloat (f a b)).
Definition float_is (p : f64 -> bool) (arg : value) : outcome value :=
  do num <- as_number arg; Ok (VBool (p num)).
(* int_function!($func) / int_function!($func, 2) *)
Definition int_function1 (f : Z -> Z) (arg : value) : outcome value :=
  do i <- as_int arg; Ok (VInt (f i)).
Definition int_function2 (f : Z -> Z -> Z) (arg : value) : outcome value :=
  do t <- as_fixed_len_tuple arg 2;
  do t0 <- idx t 0 42; do a <- as_int t0;
  do t1 <- idx t 1 43; do b <- as_int t1;
  Ok (VInt (f a b)).

Definition b_abs (arg : value) : outcome value :=
  match arg with
  | VFloat f => Ok (VFloat (f_abs f))
  | VInt i => do r <- checked_abs i; Ok (VInt r)
  | _ => Err (EExpectedNumber arg)
  end.

Definition b_typeof (arg : value) : outcome value :=
  Ok (VString (s2l match arg with
                   | VString _ => "string" | VFloat _ => "float" | VInt _ => "int"
                   | VBool _ => "boolean" | VTuple _ => "tuple" | VEmpty => "empty"
                   end%string)).

(* extremum: the first argument that no other argument beats; two ints are compared exactly,
   every other pair after conversion to float *)
Definition beats (smallest : bool) (a best : value) : outcome bool :=
  match a, best with
  | VInt x, VInt y => Ok (if smallest then x <? y else y <? x)
  | _, _ =>
      do x <- as_number a; do y <- as_number best;
      Ok (if smallest then f_ltb x y else f_ltb y x)
  end.

Fixpoint extremum_loop (smallest : bool) (best : option value) (l : list value) : outcome (option value) :=
  match l with
  | [] => Ok best
  | a :: l' =>
      do b <- match best with
              | None => do _ <- as_number a; Ok true
              | Some bv => beats smallest a bv
              end;
      extremum_loop smallest (if b then Some a else best) l'
  end.

Definition extremum (smallest : bool) (arg : value) : outcome value :=
  do args <- match arg with
             | VTuple t => Ok t
             | VInt _ | VFloat _ => Ok [arg]
             | _ => Err (EExpectedTuple arg)
             end;
  do best <- extremum_loop smallest None args;
  match best with
  | Some v => Ok v
  | None => Err (EWrongFunctionArgumentAmount 1 None 0)
  end.

Definition b_if (arg : value) : outcome value :=
  do t <- as_fixed_len_tuple arg 3;
  do c0 <- idx t 0 44; do c <- as_boolean c0;
  (* arguments.swap_remove(result_index) *)
  idx t (if c then 1 else 2) 45.

Definition is_primitive (v : value) : bool :=
  match v with VString _ | VInt _ | VFloat _ | VBool _ => true | _ => false end.
Definition primitive_types : list vtype := [TyString; TyInt; TyFloat; TyBoolean].
Definition tuple_contains (t : list value) (v : value) : bool := existsb (fun x => value_eqb x v) t.

Definition b_contains (arg : value) : outcome value :=
  do t <- as_fixed_len_tuple arg 2;
  do a0 <- idx t 0 46; do b <- idx t 1 47;
  match a0 with
  | VTuple a =>
      if is_primitive b then Ok (VBool (tuple_contains a b))
      else Err (ETypeError primitive_types b)
  | _ => Err (EExpectedTuple a0)
  end.

Fixpoint contains_any_loop (a : list value) (found : bool) (b : list value) : outcome bool :=
  match b with
  | [] => Ok found
  | v :: b' =>
      if is_primitive v then contains_any_loop a (found || tuple_contains a v) b'
      else Err (ETypeError primitive_types v)
  end.

Definition b_contains_any (arg : value) : outcome value :=
  do t <- as_fixed_len_tuple arg 2;
  do a0 <- idx t 0 48; do b0 <- idx t 1 49;
  match a0 with
  | VTuple a =>
      match b0 with
      | VTuple b => do r <- contains_any_loop a false b; Ok (VBool r)
      | _ => Err (EExpectedTuple b0)
      end
  | _ => Err (EExpectedTuple a0)
  end.

Definition b_len (arg : value) : outcome value :=
  match arg with
  | VString s => Ok (VInt (Z.of_N (byte_len s)))
  | VTuple t => Ok (VInt (Z.of_nat (length t)))
  | _ => Err (ETypeError [TyString; TyTuple] arg)
  end.

Definition b_substring (arg : value) : outcome value :=
  do args <- as_ranged_len_tuple arg 2 3;
  do a0 <- idx args 0 50; do subject <- as_string a0;
  do a1 <- idx args 1 51; do start <- as_int a1;
  do start <- (if start <? 0 then Err EOutOfBoundsAccess else Ok (Z.to_N start));
  do end_ <- match nth_opt args 2 with
             | Some e =>
                 do e <- as_int e;
                 if e <? 0 then Err EOutOfBoundsAccess else Ok (Z.to_N e)
             | None => Ok (byte_len subject)
             end;
  if (N.ltb end_ start || N.ltb (byte_len subject) end_)%bool then Err EOutOfBoundsAccess
  else
    (* subject.get(start..end) *)
    match split_at_byte subject start with
    | Some (_, rest) =>
        match split_at_byte rest (end_ - start) with
        | Some (mid, _) => Ok (VString mid)
        | None => Err EOutOfBoundsAccess
        end
    | None => Err EOutOfBoundsAccess
    end.

Definition b_to_lowercase (arg : value) : outcome value :=
  do s <- as_string arg; Ok (VString (o_to_lowercase O s)).
Definition b_to_uppercase (arg : value) : outcome value :=
  do s <- as_string arg; Ok (VString (o_to_uppercase O s)).
Definition b_trim (arg : value) : outcome value :=
  do s <- as_string arg; Ok (VString (trim s)).
Definition b_str_from (arg : value) : outcome value := Ok (VString (str_from O arg)).

Definition builtin_table : list (string * (value -> outcome value)) :=
  [ ("math::ln", simple_math1 (o_math1 O MLn));
    ("math::log", simple_math2 (o_math2 O MLog));
    ("math::log2", simple_math1 (o_math1 O MLog2));
    ("math::log10", simple_math1 (o_math1 O MLog10));
    ("math::exp", simple_math1 (o_math1 O MExp));
    ("math::exp2", simple_math1 (o_math1 O MExp2));
    ("math::pow", simple_math2 (o_math2 O MPow));
    ("math::cos", simple_math1 (o_math1 O MCos));
    ("math::acos", simple_math1 (o_math1 O MAcos));
    ("math::cosh", simple_math1 (o_math1 O MCosh));
    ("math::acosh", simple_math1 (o_math1 O MAcosh));
    ("math::sin", simple_math1 (o_math1 O MSin));
    ("math::asin", simple_math1 (o_math1 O MAsin));
    ("math::sinh", simple_math1 (o_math1 O MSinh));
    ("math::asinh", simple_math1 (o_math1 O MAsinh));
    ("math::tan", simple_math1 (o_math1 O MTan));
    ("math::atan", simple_math1 (o_math1 O MAtan));
    ("math::tanh", simple_math1 (o_math1 O MTanh));
    ("math::atanh", simple_math1 (o_math1 O MAtanh));
    ("math::atan2", simple_math2 (o_math2 O MAtan2));
    ("math::sqrt", simple_math1 f_sqrt);
    ("math::cbrt", simple_math1 (o_math1 O MCbrt));
    ("math::hypot", simple_math2 (o_math2 O MHypot));
    ("floor", simple_math1 f_floor);
    ("round", simple_math1 f_round);
    ("ceil", simple_math1 f_ceil);
    ("math::is_nan", float_is f_is_nan);
    ("math::is_finite", float_is f_is_finite);
    ("math::is_infinite", float_is f_is_infinite);
    ("math::is_normal", float_is f_is_normal);
    ("math::abs", b_abs);
    ("typeof", b_typeof);
    ("min", extremum true);
    ("max", extremum false);
    ("if", b_if);
    ("contains", b_contains);
    ("contains_any", b_contains_any);
    ("len", b_len);
    ("str::to_lowercase", b_to_lowercase);
    ("str::to_uppercase", b_to_uppercase);
    ("str::trim", b_trim);
    ("str::from", b_str_from);
    ("str::substring", b_substring);
    ("bitand", int_function2 Z.land);
    ("bitor", int_function2 Z.lor);
    ("bitxor", int_function2 Z.lxor);
    ("bitnot", int_function1 Z.lnot);
    ("shl", int_function2 wrapping_shl);
    ("shr", int_function2 wrapping_shr) ]%string.

Fixpoint lookup_builtin (name : str) (t : list (string * (value -> outcome value))) : option (value -> outcome value) :=
  match t with
  | [] => None
  | (n, f) :: t' => if str_eqb name (s2l n) then Some f else lookup_builtin name t'
  end.

Definition builtin_function (name : str) : option (value -> outcome value) :=
  lookup_builtin name builtin_table.

End WithOracle.
