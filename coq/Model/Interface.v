(* src/interface/mod.rs and the Node::eval* family: the 47 evaluation entry points and
   build_operator_tree, as projections of the two evaluators. *)
From Coq Require Import Strings.String Floats.SpecFloat.
Require Import Model.Base Model.Syntax Model.F64 Model.Lexer Model.Builder Model.Value Model.Context Model.Eval.

Inductive elevel := LvString | LvNode.
Inductive emode := MFree | MRo | MMut.
Inductive etype := XValue | XString | XInt | XFloat | XNumber | XBoolean | XTuple | XEmpty.

Definition build_operator_tree (s : str) : outcome node :=
  do ts <- tokenize s; tokens_to_operator_tree ts.

(* the typed wrappers: payload if the value has the type, else the expected-type error *)
Definition project (t : etype) (r : outcome value) : outcome value :=
  match r with
  | Ok v =>
      match t, v with
      | XValue, _ => Ok v
      | XString, VString _ => Ok v
      | XString, _ => Err (EExpectedString v)
      | XInt, VInt _ => Ok v
      | XInt, _ => Err (EExpectedInt v)
      | XFloat, VFloat _ => Ok v
      | XFloat, _ => Err (EExpectedFloat v)
      | XNumber, VFloat _ => Ok v
      | XNumber, VInt i => Ok (VFloat (f_of_Z i))
      | XNumber, _ => Err (EExpectedNumber v)
      | XBoolean, VBool _ => Ok v
      | XBoolean, _ => Err (EExpectedBoolean v)
      | XTuple, VTuple _ => Ok v
      | XTuple, _ => Err (EExpectedTuple v)
      | XEmpty, VEmpty => Ok v
      | XEmpty, _ => Err (EExpectedEmpty v)
      end
  | _ => r
  end.

Section WithOracle.
Variable O : std_oracle.

(* one entry point on a source string: result, context afterwards, log *)
Definition run_entry (m : emode) (t : etype) (s : str) (c : ctx) (lg : log) : outcome value * ctx * log :=
  match build_operator_tree s with
  | Ok n =>
      match m with
      | MRo => let '(r, lg') := eval_ro O n c lg in (project t r, c, lg')
      | MMut => let '(r, c', lg') := eval_mut O n c lg in (project t r, c', lg')
      | MFree =>
          (* a fresh HashMapContext that is dropped afterwards *)
          let '(r, _, _) := eval_mut O n empty_hashmap [] in (project t r, c, lg)
      end
  | Err e => (Err e, c, lg)
  | Panic p => (Panic p, c, lg)
  end.

End WithOracle.
