(* Operation histories on a context: the state machine used by the correspondence check and by the
   C04 refinement theorem.  One `cop` = one call of the public API. *)
From Coq Require Import Strings.String Floats.SpecFloat.
Require Import Model.Base Model.Syntax Model.F64 Model.Lexer Model.Builder Model.Value Model.Context
               Model.Builtins Model.Eval Model.Interface.

(* the fixed library of user functions of the harness *)
Inductive libfn := LId | LKonst (v : value) | LFail (msg : str) | LFst | LSwap | LNotFound | LInc.

Definition apply_libfn (name : str) (l : libfn) : ufun :=
  fun a =>
    match l with
    | LId => Ok a
    | LKonst v => Ok v
    | LFail msg => Err (ECustomMessage msg)
    | LFst => do t <- as_tuple a; match t with x :: _ => Ok x | [] => Err EOutOfBoundsAccess end
    | LSwap =>
        do t <- as_fixed_len_tuple a 2;
        match t with [x; y] => Ok (VTuple [y; x]) | _ => Panic 95 end
    | LNotFound => Err (EFunctionIdentifierNotFound name)
    | LInc =>
        match a with
        | VInt i => if i + 1 <=? i64_max then Ok (VInt (i + 1)) else Err (ECustomMessage (s2l "inc overflow"%string))
        | _ => Err (EExpectedInt a)
        end
    end.

Inductive entry := EBuild | EEval (l : elevel) (m : emode) (t : etype).

Inductive cop :=
| CSet (x : str) (v : value)
| CInit (x : str) (v : value)
| CSetFn (f : str) (l : libfn)
| COff (b : bool)
| CClrV | CClrF | CClr | CClone
| CEv (e : entry) (src : str)
| CEvc (e : entry) (src : str)
| CGet (x : str)
| CCall (f : str) (v : value)
| CDump.

Inductive cout :=
| OUnit (r : outcome unit)
| OVal (r : outcome value)
| OTree (r : outcome node)
| OGet (r : option value)
| ODump (c : ctx)
| ONa.

Definition unit_of {A} (r : outcome A) : outcome unit :=
  match r with Ok _ => Ok tt | Err e => Err e | Panic s => Panic s end.

Definition ctx_or (c : ctx) (r : outcome ctx) : ctx := match r with Ok c' => c' | _ => c end.

(* the inner HashMapContext of a NoStore context is updated directly *)
Definition as_hashmap (c : ctx) : ctx := mkctx KHashMap (c_vars c) (c_funs c) (c_off c).
Definition with_kind (k : ckind) (c : ctx) : ctx := mkctx k (c_vars c) (c_funs c) (c_off c).

Section WithOracle.
Variable O : std_oracle.

Definition mutable_kind (c : ctx) : bool := match c_kind c with KHashMap | KNoStore => true | _ => false end.

Definition step (st : ctx * log) (op : cop) : (ctx * log) * cout :=
  let '(c, lg) := st in
  match op with
  | CSet x v =>
      if mutable_kind c then let r := set_value c x v in ((ctx_or c r, lg), OUnit (unit_of r))
      else (st, ONa)
  | CInit x v =>
      if has_store c then
        let r := set_value (as_hashmap c) x v in
        ((with_kind (c_kind c) (ctx_or (as_hashmap c) r), lg), OUnit (unit_of r))
      else (st, ONa)
  | CSetFn f l =>
      if has_store c then
        let r := set_function (as_hashmap c) f (apply_libfn f l) in
        ((with_kind (c_kind c) (ctx_or (as_hashmap c) r), lg), OUnit (unit_of r))
      else (st, ONa)
  | COff b =>
      let r := set_builtin_functions_disabled c b in ((ctx_or c r, lg), OUnit (unit_of r))
  | CClrV => if has_store c then ((clear_variables c, lg), OUnit (Ok tt)) else (st, ONa)
  | CClrF => if has_store c then ((clear_functions c, lg), OUnit (Ok tt)) else (st, ONa)
  | CClr => if has_store c then ((clear c, lg), OUnit (Ok tt)) else (st, ONa)
  | CClone => if has_store c then (st, OUnit (Ok tt)) else (st, ONa)
  | CEv e src | CEvc e src =>
      let keep := match op with CEv _ _ => true | _ => false end in
      match e with
      | EBuild => (st, OTree (build_operator_tree src))
      | EEval _ m t =>
          match m with
          | MMut =>
              if mutable_kind c then
                let '(r, c', lg') := run_entry O m t src c lg in
                (((if keep then c' else c), lg'), OVal r)
              else (st, ONa)
          | _ =>
              let '(r, c', lg') := run_entry O m t src c lg in ((c', lg'), OVal r)
          end
      end
  | CGet x => (st, OGet (get_value c x))
  | CCall f v =>
      match lookup_function c f with
      | Some g => ((c, lg ++ [(f, v)]), OVal (g v))
      | None => (st, OVal (Err (EFunctionIdentifierNotFound f)))
      end
  | CDump => (st, ODump c)
  end.

Fixpoint run_script (st : ctx * log) (ops : list cop) : (ctx * log) * list cout :=
  match ops with
  | [] => (st, [])
  | op :: ops' =>
      let '(st1, o) := step st op in
      let '(st2, os) := run_script st1 ops' in
      (st2, o :: os)
  end.

End WithOracle.

Definition initial_ctx (k : ckind) : ctx :=
  match k with
  | KHashMap => empty_hashmap
  | KEmpty => empty_context
  | KEmptyBuiltin => empty_context_builtin
  | KNoStore => mkctx KNoStore [] [] false
  end.
