(* src/context/mod.rs: the Context traits and the three provided contexts, plus NoStore: a user-defined
   context that keeps the default ContextWithMutableVariables::set_value (the harness defines one). *)
Require Import Model.Base Model.Syntax Model.Value.

(* a user function (Function<NumericTypes>): any total function from the argument to a result *)
Definition ufun := value -> outcome value.

Inductive ckind := KHashMap | KEmpty | KEmptyBuiltin | KNoStore.

(* HashMapContext { variables, functions, without_builtin_functions }.  The maps are association lists
   with unique keys; the iteration order of a Rust HashMap is unspecified and never relied upon. *)
Record ctx := mkctx {
  c_kind : ckind;
  c_vars : list (str * value);
  c_funs : list (str * ufun);
  c_off : bool;
}.

Definition empty_hashmap : ctx := mkctx KHashMap [] [] false.
Definition empty_context : ctx := mkctx KEmpty [] [] true.
Definition empty_context_builtin : ctx := mkctx KEmptyBuiltin [] [] false.

Fixpoint assoc {A} (k : str) (l : list (str * A)) : option A :=
  match l with
  | [] => None
  | (k', v) :: l' => if str_eqb k k' then Some v else assoc k l'
  end.

Fixpoint assoc_set {A} (k : str) (v : A) (l : list (str * A)) : list (str * A) :=
  match l with
  | [] => [(k, v)]
  | (k', v') :: l' => if str_eqb k k' then (k, v) :: l' else (k', v') :: assoc_set k v l'
  end.

Definition has_store (c : ctx) : bool :=
  match c_kind c with KHashMap | KNoStore => true | _ => false end.

(* Context::get_value *)
Definition get_value (c : ctx) (x : str) : option value :=
  if has_store c then assoc x (c_vars c) else None.

(* Context::call_function on the context itself (user functions only) *)
Definition lookup_function (c : ctx) (f : str) : option ufun :=
  if has_store c then assoc f (c_funs c) else None.

Definition are_builtin_functions_disabled (c : ctx) : bool :=
  match c_kind c with
  | KEmpty => true
  | KEmptyBuiltin => false
  | _ => c_off c
  end.

Definition set_builtin_functions_disabled (c : ctx) (disabled : bool) : outcome ctx :=
  match c_kind c with
  | KEmpty => if disabled then Ok c else Err EBuiltinFunctionsCannotBeEnabled
  | KEmptyBuiltin => if disabled then Err EBuiltinFunctionsCannotBeDisabled else Ok c
  | _ => Ok (mkctx (c_kind c) (c_vars c) (c_funs c) disabled)
  end.

(* ContextWithMutableVariables::set_value: HashMapContext's type-checked one, or the trait default.
   (EmptyContext* do not implement the trait; the default is what a hand-written impl inherits.) *)
Definition set_value (c : ctx) (x : str) (v : value) : outcome ctx :=
  match c_kind c with
  | KHashMap =>
      match assoc x (c_vars c) with
      | Some existing =>
          if vtype_eqb (type_of existing) (type_of v)
          then Ok (mkctx (c_kind c) (assoc_set x v (c_vars c)) (c_funs c) (c_off c))
          else Err (expected_type existing v)
      | None => Ok (mkctx (c_kind c) (assoc_set x v (c_vars c)) (c_funs c) (c_off c))
      end
  | _ => Err EContextNotMutable
  end.

(* ContextWithMutableFunctions::set_function (HashMapContext only) *)
Definition set_function (c : ctx) (f : str) (g : ufun) : outcome ctx :=
  match c_kind c with
  | KHashMap => Ok (mkctx (c_kind c) (c_vars c) (assoc_set f g (c_funs c)) (c_off c))
  | _ => Err EContextNotMutable
  end.

Definition clear_variables (c : ctx) : ctx := mkctx (c_kind c) [] (c_funs c) (c_off c).
Definition clear_functions (c : ctx) : ctx := mkctx (c_kind c) (c_vars c) [] (c_off c).
Definition clear (c : ctx) : ctx := clear_functions (clear_variables c).

(* IterateVariablesContext (order unspecified; compared as sorted lists / permutations) *)
Definition iter_variables (c : ctx) : list (str * value) :=
  match c_kind c with KHashMap | KNoStore => c_vars c | _ => [] end.
Definition iter_variable_names (c : ctx) : list str := map fst (iter_variables c).
