(* src/tree/iter.rs: NodeIter / OperatorIterMut (the same explicit-stack loop twice), and the
   identifier iterators of src/tree/mod.rs built on them by filter_map. *)
Require Import Model.Base Model.Syntax.

(* NodeIter::next.  The stack holds the remaining children of every open node, top at the head.
   Each loop iteration either yields the next child (pushing its children) or pops an exhausted
   iterator, so the recursion is structural on the stack. *)
Fixpoint iter_next (stack : list (list node)) : option (node * list (list node)) :=
  match stack with
  | [] => None
  | [] :: stack' => iter_next stack'
  | (x :: rest) :: stack' => Some (x, nch x :: rest :: stack')
  end.

(* collecting the iterator; fuel = an upper bound of the number of yields, Panic if exhausted *)
Fixpoint iter_collect (fuel : nat) (stack : list (list node)) : outcome (list node) :=
  match iter_next stack with
  | None => Ok []
  | Some (x, stack') =>
      match fuel with
      | O => Panic 90
      | S f => do r <- iter_collect f stack'; Ok (x :: r)
      end
  end.

Fixpoint node_size (n : node) : nat :=
  match n with Node _ ch => S (fold_right (fun c acc => node_size c + acc)%nat O ch) end.

(* Node::iter: NodeIter::new(self) starts from the children of the node, the node itself is not yielded *)
Definition iter_all (n : node) : outcome (list node) := iter_collect (node_size n) [nch n].

Definition ident_any (o : operator) : option str :=
  match o with
  | OVariableIdentifierWrite s | OVariableIdentifierRead s | OFunctionIdentifier s => Some s
  | _ => None
  end.
Definition ident_var (o : operator) : option str :=
  match o with OVariableIdentifierWrite s | OVariableIdentifierRead s => Some s | _ => None end.
Definition ident_read (o : operator) : option str :=
  match o with OVariableIdentifierRead s => Some s | _ => None end.
Definition ident_write (o : operator) : option str :=
  match o with OVariableIdentifierWrite s => Some s | _ => None end.
Definition ident_fn (o : operator) : option str :=
  match o with OFunctionIdentifier s => Some s | _ => None end.

Fixpoint filter_map {A B} (f : A -> option B) (l : list A) : list B :=
  match l with
  | [] => []
  | x :: l' => match f x with Some y => y :: filter_map f l' | None => filter_map f l' end
  end.

Definition iter_with (sel : operator -> option str) (n : node) : outcome (list str) :=
  do ns <- iter_all n; Ok (filter_map (fun x => sel (nop x)) ns).

Definition iter_identifiers := iter_with ident_any.
Definition iter_variable_identifiers := iter_with ident_var.
Definition iter_read_variable_identifiers := iter_with ident_read.
Definition iter_write_variable_identifiers := iter_with ident_write.
Definition iter_function_identifiers := iter_with ident_fn.

(* The mutable iterators run the same loop over &mut; what a `for id in tree.iter_*_mut() { *id = g(id) }`
   loop does is rewrite the operator of every yielded node, i.e. of every proper descendant. *)
Definition rewrite_ident (sel : operator -> option str) (g : str -> str) (o : operator) : operator :=
  match sel o with
  | None => o
  | Some _ =>
      match o with
      | OVariableIdentifierWrite s => OVariableIdentifierWrite (g s)
      | OVariableIdentifierRead s => OVariableIdentifierRead (g s)
      | OFunctionIdentifier s => OFunctionIdentifier (g s)
      | _ => o
      end
  end.

Fixpoint map_all_ops (f : operator -> operator) (n : node) : node :=
  match n with Node o ch => Node (f o) (map (map_all_ops f) ch) end.
Definition map_desc_ops (f : operator -> operator) (n : node) : node :=
  match n with Node o ch => Node o (map (map_all_ops f) ch) end.
Definition rename_with (sel : operator -> option str) (g : str -> str) (n : node) : node :=
  map_desc_ops (rewrite_ident sel g) n.
