(* src/operator/mod.rs Operator::eval / eval_mut and src/tree/mod.rs Node::eval_with_context(_mut),
   mirrored: two separate dispatchers, two separate recursive evaluators.
   A user-function call is recorded in a log (name, argument); the log is part of every result. *)
From Coq Require Import Strings.String Floats.SpecFloat.
Require Import Model.Base Model.Syntax Model.F64 Model.Lexer Model.Value Model.Context Model.Builtins.

Definition log := list (str * value).

Section WithOracle.
Variable O : std_oracle.

Definition expect_operator_argument_amount (actual expected : N) : outcome unit :=
  if N.eqb actual expected then Ok tt else Err (EWrongOperatorArgumentAmount expected actual).

(* arguments[i] after the amount check *)
Definition arg (l : list value) (i : nat) (site : N) : outcome value :=
  match nth_opt l i with Some v => Ok v | None => Panic site end.

Definition nargs (l : list value) : N := N.of_nat (length l).

(* Sub, Mul, Div, Mod: both numbers; two ints use the checked integer operation, otherwise floats *)
Definition arith (int_op : Z -> Z -> outcome Z) (float_op : f64 -> f64 -> f64) (args : list value) : outcome value :=
  do _ <- expect_operator_argument_amount (nargs args) 2;
  do a <- arg args 0 60; do b <- arg args 1 61;
  do _ <- as_number a; do _ <- as_number b;
  match a, b with
  | VInt x, VInt y => do r <- int_op x y; Ok (VInt r)
  | _, _ => do x <- as_number a; do y <- as_number b; Ok (VFloat (float_op x y))
  end.

(* Gt, Lt, Geq, Leq *)
Definition compare_op (str_op : comparison -> bool) (int_op : Z -> Z -> bool) (float_op : f64 -> f64 -> bool)
           (args : list value) : outcome value :=
  do _ <- expect_operator_argument_amount (nargs args) 2;
  do a <- arg args 0 62; do b <- arg args 1 63;
  do _ <- expect_number_or_string a; do _ <- expect_number_or_string b;
  match a, b with
  | VString x, VString y => Ok (VBool (str_op (str_compare x y)))
  | VInt x, VInt y => Ok (VBool (int_op x y))
  | _, _ => do x <- as_number a; do y <- as_number b; Ok (VBool (float_op x y))
  end.

Definition bool_op (f : bool -> bool -> bool) (args : list value) : outcome value :=
  do _ <- expect_operator_argument_amount (nargs args) 2;
  do a0 <- arg args 0 64; do a <- as_boolean a0;
  do b0 <- arg args 1 65; do b <- as_boolean b0;
  Ok (VBool (f a b)).

(* the FunctionIdentifier arm: the context first; the builtin only on FunctionIdentifierNotFound
   and if builtins are not disabled.  A call that reaches a user function is logged. *)
Definition call_function (c : ctx) (lg : log) (f : str) (a : value) : outcome value * log :=
  let '(r, lg') :=
    match lookup_function c f with
    | Some g => (g a, lg ++ [(f, a)])
    | None => (Err (EFunctionIdentifierNotFound f), lg)
    end in
  match r with
  | Err (EFunctionIdentifierNotFound _) =>
      if are_builtin_functions_disabled c then (r, lg')
      else match builtin_function O f with
           | Some b => (b a, lg')
           | None => (Err (EFunctionIdentifierNotFound f), lg')
           end
  | _ => (r, lg')
  end.

(* Operator::eval *)
Definition op_eval (o : operator) (args : list value) (c : ctx) (lg : log) : outcome value * log :=
  let pure (r : outcome value) := (r, lg) in
  match o with
  | ORootNode => pure (match args with v :: _ => Ok v | [] => Ok VEmpty end)
  | OAdd =>
      pure (do _ <- expect_operator_argument_amount (nargs args) 2;
            do a <- arg args 0 66; do b <- arg args 1 67;
            do _ <- expect_number_or_string a; do _ <- expect_number_or_string b;
            match a, b with
            | VString x, VString y => Ok (VString (x ++ y))
            | VInt x, VInt y => do r <- checked_add x y; Ok (VInt r)
            | _, _ =>
                match as_number a, as_number b with
                | Ok x, Ok y => Ok (VFloat (f_add x y))
                | _, _ => Err (EWrongTypeCombination OAdd [type_of a; type_of b])
                end
            end)
  | OSub => pure (arith checked_sub f_sub args)
  | ONeg =>
      pure (do _ <- expect_operator_argument_amount (nargs args) 1;
            do a <- arg args 0 68;
            do _ <- as_number a;
            match a with
            | VInt x => do r <- checked_neg x; Ok (VInt r)
            | _ => do x <- as_number a; Ok (VFloat (f_neg x))
            end)
  | OMul => pure (arith checked_mul f_mul args)
  | ODiv => pure (arith checked_div f_div args)
  | OMod => pure (arith checked_rem f_rem args)
  | OExp =>
      pure (do _ <- expect_operator_argument_amount (nargs args) 2;
            do a <- arg args 0 69; do b <- arg args 1 70;
            do _ <- as_number a; do _ <- as_number b;
            do x <- as_number a; do y <- as_number b;
            Ok (VFloat (o_math2 O MPow x y)))
  | OEq =>
      pure (do _ <- expect_operator_argument_amount (nargs args) 2;
            do a <- arg args 0 71; do b <- arg args 1 72;
            Ok (VBool (value_eqb a b)))
  | ONeq =>
      pure (do _ <- expect_operator_argument_amount (nargs args) 2;
            do a <- arg args 0 73; do b <- arg args 1 74;
            Ok (VBool (negb (value_eqb a b))))
  | OGt => pure (compare_op (fun c => match c with Gt => true | _ => false end) Z.gtb f_gtb args)
  | OLt => pure (compare_op (fun c => match c with Lt => true | _ => false end) Z.ltb f_ltb args)
  | OGeq => pure (compare_op (fun c => match c with Lt => false | _ => true end) Z.geb f_geb args)
  | OLeq => pure (compare_op (fun c => match c with Gt => false | _ => true end) Z.leb f_leb args)
  | OAnd => pure (bool_op andb args)
  | OOr => pure (bool_op orb args)
  | ONot =>
      pure (do _ <- expect_operator_argument_amount (nargs args) 1;
            do a0 <- arg args 0 75; do a <- as_boolean a0;
            Ok (VBool (negb a)))
  | OAssign | OAddAssign | OSubAssign | OMulAssign | ODivAssign | OModAssign | OExpAssign
  | OAndAssign | OOrAssign => pure (Err EContextNotMutable)
  | OTuple => pure (Ok (VTuple args))
  | OChain =>
      pure (match last_opt args with
            | None => Err (EWrongOperatorArgumentAmount 1 0)
            | Some v => Ok v
            end)
  | OConst v => pure (do _ <- expect_operator_argument_amount (nargs args) 0; Ok v)
  | OVariableIdentifierWrite id =>
      pure (do _ <- expect_operator_argument_amount (nargs args) 0; Ok (VString id))
  | OVariableIdentifierRead id =>
      pure (do _ <- expect_operator_argument_amount (nargs args) 0;
            match get_value c id with
            | Some v => Ok v
            | None => Err (EVariableIdentifierNotFound id)
            end)
  | OFunctionIdentifier id =>
      match expect_operator_argument_amount (nargs args) 1 with
      | Ok _ =>
          match arg args 0 76 with
          | Ok a => call_function c lg id a
          | Err e => pure (Err e)
          | Panic s => pure (Panic s)
          end
      | Err e => pure (Err e)
      | Panic s => pure (Panic s)
      end
  end.

(* the plain operator an op-assign operator applies *)
Definition assign_base (o : operator) : option operator :=
  match o with
  | OAddAssign => Some OAdd | OSubAssign => Some OSub | OMulAssign => Some OMul | ODivAssign => Some ODiv
  | OModAssign => Some OMod | OExpAssign => Some OExp | OAndAssign => Some OAnd | OOrAssign => Some OOr
  | _ => None
  end.

(* Operator::eval_mut *)
Definition op_eval_mut (o : operator) (args : list value) (c : ctx) (lg : log) : outcome value * ctx * log :=
  let finish (r : outcome ctx) : outcome value * ctx * log :=
    match r with Ok c' => (Ok VEmpty, c', lg) | Err e => (Err e, c, lg) | Panic s => (Panic s, c, lg) end in
  match o with
  | OAssign =>
      finish (do _ <- expect_operator_argument_amount (nargs args) 2;
              do a0 <- arg args 0 77; do target <- as_string a0;
              do v <- arg args 1 78;
              set_value c target v)
  | OAddAssign | OSubAssign | OMulAssign | ODivAssign | OModAssign | OExpAssign | OAndAssign | OOrAssign =>
      finish (do _ <- expect_operator_argument_amount (nargs args) 2;
              do a0 <- arg args 0 79; do target <- as_string a0;
              do left <- fst (op_eval (OVariableIdentifierRead target) [] c lg);
              do right <- arg args 1 80;
              do base <- match assign_base o with Some b => Ok b | None => Panic 30 (* unreachable!() *) end;
              do result <- fst (op_eval base [left; right] c lg);
              set_value c target result)
  | _ => let '(r, lg') := op_eval o args c lg in (r, c, lg')
  end.

(* Node::eval_with_context *)
Fixpoint eval_ro (n : node) (c : ctx) (lg : log) {struct n} : outcome value * log :=
  match n with
  | Node o ch =>
      let fix args (l : list node) (lg : log) : outcome (list value) * log :=
        match l with
        | [] => (Ok [], lg)
        | x :: l' =>
            match eval_ro x c lg with
            | (Ok v, lg1) =>
                match args l' lg1 with
                | (Ok vs, lg2) => (Ok (v :: vs), lg2)
                | r => r
                end
            | (Err e, lg1) => (Err e, lg1)
            | (Panic s, lg1) => (Panic s, lg1)
            end
        end in
      match args ch lg with
      | (Ok vs, lg1) => op_eval o vs c lg1
      | (Err e, lg1) => (Err e, lg1)
      | (Panic s, lg1) => (Panic s, lg1)
      end
  end.

(* Node::eval_with_context_mut *)
Fixpoint eval_mut (n : node) (c : ctx) (lg : log) {struct n} : outcome value * ctx * log :=
  match n with
  | Node o ch =>
      let fix args (l : list node) (c : ctx) (lg : log) : outcome (list value) * ctx * log :=
        match l with
        | [] => (Ok [], c, lg)
        | x :: l' =>
            match eval_mut x c lg with
            | (Ok v, c1, lg1) =>
                match args l' c1 lg1 with
                | (Ok vs, c2, lg2) => (Ok (v :: vs), c2, lg2)
                | r => r
                end
            | (Err e, c1, lg1) => (Err e, c1, lg1)
            | (Panic s, c1, lg1) => (Panic s, c1, lg1)
            end
        end in
      match args ch c lg with
      | (Ok vs, c1, lg1) => op_eval_mut o vs c1 lg1
      | (Err e, c1, lg1) => (Err e, c1, lg1)
      | (Panic s, c1, lg1) => (Panic s, c1, lg1)
      end
  end.

End WithOracle.
