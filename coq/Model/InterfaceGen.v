(* Interpreter of the translated entry points (Gen/Interface.v): what each public function does,
   following its translated body literally (callee by name, fresh context, match arms). *)
From Coq Require Import Strings.String Floats.SpecFloat.
Require Import Model.Base Model.Syntax Model.F64 Model.Lexer Model.Builder Model.Value Model.Context Model.Eval
               Model.Interface Model.InterfaceDefs Gen.Interface.

Definition elevel_eqb (a b : elevel) : bool :=
  match a, b with LvString, LvString | LvNode, LvNode => true | _, _ => false end.

Fixpoint find_wrapper (l : elevel) (name : string) (ws : list wrapper) : option wrapper :=
  match ws with
  | [] => None
  | w :: ws' => if elevel_eqb (w_level w) l && String.eqb (w_name w) name then Some w else find_wrapper l name ws'
  end.

Definition expected_error (x : errctor) (v : value) : error :=
  match x with
  | XeString => EExpectedString v | XeInt => EExpectedInt v | XeFloat => EExpectedFloat v
  | XeNumber => EExpectedNumber v | XeBoolean => EExpectedBoolean v | XeTuple => EExpectedTuple v
  | XeEmpty => EExpectedEmpty v
  end.

(* Ok(Value::V(x)) => Ok(conv x): the typed result is carried as a value again *)
Definition apply_conv (k : conv) (v : value) : value :=
  match k, v with
  | ConvIntAsFloat, VInt i => VFloat (f_of_Z i)
  | _, _ => v
  end.

Fixpoint match_arms (arms : list (vtype * conv)) (fallback : errctor) (v : value) : outcome value :=
  match arms with
  | [] => Err (expected_error fallback v)
  | (t, k) :: arms' => if vtype_eqb (type_of v) t then Ok (apply_conv k v) else match_arms arms' fallback v
  end.

(* the input of an entry point: a source string or a precompiled tree *)
Inductive winput := InStr (s : str) | InNode (n : node).

Section WithOracle.
Variable O : std_oracle.

(* missing wrapper / wrong input kind / fuel exhausted are reported as Panic 96 (never happens for the
   generated table: Proofs/C12.v) *)
Fixpoint run_wrapper (fuel : nat) (l : elevel) (name : string) (i : winput) (c : ctx) (lg : log)
  : outcome value * ctx * log :=
  match fuel with
  | Datatypes.O => (Panic 96, c, lg)
  | S fuel' =>
      match find_wrapper l name wrappers with
      | None => (Panic 96, c, lg)
      | Some w =>
          match w_body w, i with
          | BPrim false, InNode n => let '(r, lg') := eval_ro O n c lg in (r, c, lg')
          | BPrim true, InNode n => eval_mut O n c lg
          | BParseThen m, InStr s =>
              match build_operator_tree s with
              | Ok n => run_wrapper fuel' LvNode m (InNode n) c lg
              | Err e => (Err e, c, lg)
              | Panic p => (Panic p, c, lg)
              end
          | BParseOnly, InStr s =>
              (* build_operator_tree returns a tree, not a value: the interpreter reports success as VEmpty *)
              match build_operator_tree s with
              | Ok _ => (Ok VEmpty, c, lg)
              | Err e => (Err e, c, lg)
              | Panic p => (Panic p, c, lg)
              end
          | BDelegateFresh callee, _ =>
              let '(r, _, _) := run_wrapper fuel' l callee i empty_hashmap [] in (r, c, lg)
          | BMatch callee arms fallback, _ =>
              let '(r, c', lg') := run_wrapper fuel' l callee i c lg in
              match r with
              | Ok v => (match_arms arms fallback v, c', lg')
              | _ => (r, c', lg')
              end
          | _, _ => (Panic 96, c, lg)
          end
      end
  end.

(* the public name of an entry point *)
Definition entry_name (m : emode) (t : etype) : string :=
  let base := match t with
              | XValue => "eval" | XString => "eval_string" | XInt => "eval_int" | XFloat => "eval_float"
              | XNumber => "eval_number" | XBoolean => "eval_boolean" | XTuple => "eval_tuple" | XEmpty => "eval_empty"
              end%string in
  match m with
  | MFree => base
  | MRo => (base ++ "_with_context")%string
  | MMut => (base ++ "_with_context_mut")%string
  end.

(* an entry point applied to a source string; the tree-level forms are applied to the precompiled tree *)
Definition run_entry_gen (l : elevel) (m : emode) (t : etype) (s : str) (c : ctx) (lg : log)
  : outcome value * ctx * log :=
  match l with
  | LvString => run_wrapper 4 LvString (entry_name m t) (InStr s) c lg
  | LvNode =>
      match build_operator_tree s with
      | Ok n => run_wrapper 4 LvNode (entry_name m t) (InNode n) c lg
      | Err e => (Err e, c, lg)
      | Panic p => (Panic p, c, lg)
      end
  end.

(* a tree-level entry point applied to ANY tree (also one built by hand through the public constructors) *)
Definition run_node_entry_gen (m : emode) (t : etype) (n : node) (c : ctx) (lg : log) : outcome value * ctx * log :=
  run_wrapper 4 LvNode (entry_name m t) (InNode n) c lg.

End WithOracle.
