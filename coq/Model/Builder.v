(* src/tree/mod.rs: Node::insert_back_prioritized, collapse_all_sequences, tokens_to_operator_tree,
   mirrored branch by branch.  Panic sites are the unwrap()/unreachable!() of the Rust code. *)
From Coq Require Import Floats.SpecFloat.
Require Import Model.Base Model.Syntax Gen.Tables.

Definition precedence (o : operator) : Z := impl_prec (kind_of o).
Definition is_left_to_right (o : operator) : bool := impl_ltr (kind_of o).
Definition is_sequence (o : operator) : bool := impl_is_sequence (kind_of o).
Definition max_argument_amount (o : operator) : option N := impl_max_args (kind_of o).
Definition is_unary (o : operator) : bool := impl_is_unary (kind_of o).
Definition is_leaf (o : operator) : bool := impl_is_leaf (kind_of o).
Definition is_root (o : operator) : bool := match o with ORootNode => true | _ => false end.

Definition len {A} (l : list A) : N := N.of_nat (length l).

(* Some(self.children().len()) == self.operator().max_argument_amount() *)
Definition has_enough_children (o : operator) (ch : list node) : bool :=
  match max_argument_amount o with Some m => N.eqb (len ch) m | None => false end.
Definition has_too_many_children (o : operator) (ch : list node) : bool :=
  match max_argument_amount o with Some m => N.ltb m (len ch) | None => false end.

(* the descend test, written twice in the Rust code (for self and for the last child) *)
Definition descends (a n : operator) : bool :=
  (precedence a <? precedence n) || is_unary n
  || ((precedence a =? precedence n) && negb (is_left_to_right a) && negb (is_left_to_right n)).

(* apply g to the last element: children.last_mut().unwrap() *)
Definition on_last {A} (site : N) (g : A -> outcome A) : list A -> outcome (list A) :=
  fix go l :=
    match l with
    | [] => Panic site
    | x :: rest =>
        match rest with
        | [] => do y <- g x; Ok [y]
        | _ => do r <- go rest; Ok (x :: r)
        end
    end.

(* the "Rotating" branch, with the four RootNode checks in source order.
   so: self's operator; init_nonempty: self still has children after the last one was popped. *)
Definition rotate (so : operator) (init_nonempty : bool) (n lc : node) : outcome node :=
  if is_leaf (nop n) then Err EAppendedToLeafNode
  else if is_root so && init_nonempty then Err EMissingOperatorOutsideOfBrace
  else if is_root so && is_root (nop n) then Err EMissingOperatorOutsideOfBrace
  else if is_root (nop n) then Err EMissingOperatorOutsideOfBrace
  else if is_root (nop n) && is_root (nop lc) then Err EMissingOperatorOutsideOfBrace
  else Ok (Node (nop n) (nch n ++ [lc])).

(* split a non-empty list into (init, last) *)
Fixpoint split_last {A} (l : list A) : option (list A * A) :=
  match l with
  | [] => None
  | [x] => Some ([], x)
  | x :: l' => match split_last l' with Some (i, z) => Some (x :: i, z) | None => None end
  end.

Fixpoint insert_back_prioritized (self : node) (n : node) (is_root_node : bool) {struct self} : outcome node :=
  match self with
  | Node so sch =>
      if descends so (nop n) || is_root_node then
        if is_leaf so then Err EAppendedToLeafNode
        else if has_enough_children so sch then
          (* site 10: self.children.last().unwrap() / last_mut().unwrap() / pop().unwrap() *)
          do ch' <- on_last 10
                      (fun lc =>
                         if descends (nop lc) (nop n)
                         then insert_back_prioritized lc n false
                         else rotate so (Nat.ltb 1 (length sch)) n lc)
                      sch;
          Ok (Node so ch')
        else
          (* "Inserting as specified" *)
          match max_argument_amount (nop n) with
          | Some 2%N => Err (EWrongOperatorArgumentAmount 2 0)
          | _ => Ok (Node so (sch ++ [n]))
          end
      else Err EPrecedenceViolation
  end.

(* ---- root_stack: the Rust Vec with its top at the HEAD of the list ---- *)

Definition root_node : node := Node ORootNode [].

(* collapse_all_sequences; structural on the stack below the popped root *)
Fixpoint collapse_loop (root : node) (stack : list node) : outcome (list node) :=
  if is_root (nop root) then
    if has_too_many_children (nop root) (nch root) then Err EMissingOperatorOutsideOfBrace
    else Ok (root :: stack)
  else
    match stack with
    | higher :: stack' =>
        if is_sequence (nop root) then
          collapse_loop (Node (nop higher) (nch higher ++ [root])) stack'
        else if has_too_many_children (nop root) (nch root) then Err EMissingOperatorOutsideOfBrace
        else Ok (root :: higher :: stack')
    | [] => Err EUnmatchedRBrace
    end.

Definition collapse_all_sequences (stack : list node) : outcome (list node) :=
  match stack with
  | root :: stack' => collapse_loop root stack'
  | [] => Err EUnmatchedRBrace
  end.

(* mem::discriminant(a) == mem::discriminant(b) *)
Definition same_variant (a b : operator) : bool := op_kind_eqb (kind_of a) (kind_of b).

Definition is_assignment (t : token) : bool := impl_tok_assignment (kind_of_token t).
Definition is_leftsided_value (t : token) : bool := impl_tok_leftsided (kind_of_token t).
Definition is_rightsided_value (t : token) : bool := impl_tok_rightsided (kind_of_token t).

(* the token -> node match; None for `(`, which only pushes a root; `)` is handled by the caller *)
Definition token_to_operator (t : token) (next : option token) (last_rightsided : bool) : option operator :=
  match t with
  | TPlus => Some OAdd
  | TMinus => Some (if last_rightsided then OSub else ONeg)
  | TStar => Some OMul | TSlash => Some ODiv | TPercent => Some OMod | THat => Some OExp
  | TEq => Some OEq | TNeq => Some ONeq | TGt => Some OGt | TLt => Some OLt | TGeq => Some OGeq | TLeq => Some OLeq
  | TAnd => Some OAnd | TOr => Some OOr | TNot => Some ONot
  | TLBrace => None | TRBrace => None
  | TAssign => Some OAssign | TPlusAssign => Some OAddAssign | TMinusAssign => Some OSubAssign
  | TStarAssign => Some OMulAssign | TSlashAssign => Some ODivAssign | TPercentAssign => Some OModAssign
  | THatAssign => Some OExpAssign | TAndAssign => Some OAndAssign | TOrAssign => Some OOrAssign
  | TComma => Some OTuple | TSemicolon => Some OChain
  | TIdentifier id =>
      Some match next with
           | Some nx =>
               if is_assignment nx then OVariableIdentifierWrite id
               else if is_leftsided_value nx then OFunctionIdentifier id
               else OVariableIdentifierRead id
           | None => OVariableIdentifierRead id
           end
  | TFloat f => Some (OConst (VFloat f))
  | TInt i => Some (OConst (VInt i))
  | TBoolean b => Some (OConst (VBool b))
  | TString s => Some (OConst (VString s))
  end.

(* `if let Some(mut node) = node { if let Some(mut root) = root_stack.pop() { ... } }` *)
Definition insert_node (n : node) (stack : list node) : outcome (list node) :=
  match stack with
  | [] => Err EUnmatchedRBrace
  | root :: stack' =>
      if is_sequence (nop n) then
        if same_variant (nop root) (nop n) then
          Ok (Node (nop root) (nch root ++ [root_node]) :: stack')
        else if is_root (nop root) then
          Ok (Node (nop n) (nch n ++ [root; root_node]) :: root_node :: stack')
        else if precedence (nop root) <? precedence (nop n) then
          match split_last (nch root) with
          | Some (init, last_root_child) =>
              Ok (Node (nop n) (nch n ++ [last_root_child; root_node]) :: Node (nop root) init :: stack')
          | None => Panic 20 (* unreachable!(): a sequence on the stack has a child *)
          end
        else
          match stack' with
          | lower :: stack'' =>
              if same_variant (nop lower) (nop n) then
                Ok (Node (nop lower) (nch lower ++ [root; root_node]) :: stack'')
              else
                Ok (Node (nop n) (nch n ++ [root; root_node]) :: lower :: stack'')
          | [] => Err EUnmatchedRBrace
          end
      else if is_sequence (nop root) then
        match split_last (nch root) with
        | Some (init, last_root_child) =>
            do c <- insert_back_prioritized last_root_child n true;
            Ok (Node (nop root) (init ++ [c]) :: stack')
        | None => Panic 21 (* unreachable!() *)
        end
      else
        do r <- insert_back_prioritized root n true;
        Ok (r :: stack')
  end.

Fixpoint build_loop (ts : list token) (stack : list node) (last_rightsided : bool) : outcome (list node) :=
  match ts with
  | [] => Ok stack
  | t :: ts' =>
      let next := match ts' with x :: _ => Some x | [] => None end in
      do stack1 <-
        match t with
        | TLBrace => Ok (root_node :: stack)
        | TRBrace =>
            if (length stack <=? 1)%nat then Err EUnmatchedRBrace
            else
              do st <- collapse_all_sequences stack;
              match st with
              | n :: st' => insert_node n st'
              | [] => Ok []       (* root_stack.pop() = None: no node is inserted *)
              end
        | _ =>
            match token_to_operator t next last_rightsided with
            | Some o => insert_node (Node o []) stack
            | None => Ok stack
            end
        end;
      build_loop ts' stack1 (is_rightsided_value t)
  end.

Definition tokens_to_operator_tree (ts : list token) : outcome node :=
  do stack <- build_loop ts [root_node] false;
  do stack' <- collapse_all_sequences stack;
  match stack' with
  | _ :: _ :: _ => Err EUnmatchedLBrace
  | [root] => Ok root
  | [] => Err EUnmatchedRBrace
  end.
