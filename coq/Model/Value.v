(* src/value/mod.rs (as_* accessors, str_from), src/value/display.rs, derived PartialEq,
   and the i64 operations of src/value/numeric_types/default_numeric_types.rs. *)
From Coq Require Import Strings.String Floats.SpecFloat.
Require Import Model.Base Model.Syntax Model.F64 Model.Lexer Gen.Tables.

(* What evalexpr delegates to Rust's std and is not evalexpr's own logic: transcendental functions,
   float formatting, Unicode case mapping.  Theorems quantify over this record; runs instantiate it
   with the same std functions (harness `oracle` mode). *)
Inductive math1 :=
| MLn | MLog2 | MLog10 | MExp | MExp2 | MCos | MAcos | MCosh | MAcosh | MSin | MAsin | MSinh | MAsinh
| MTan | MAtan | MTanh | MAtanh | MCbrt.
Inductive math2 := MLog | MPow | MAtan2 | MHypot.

Record std_oracle := {
  o_math1 : math1 -> f64 -> f64;
  o_math2 : math2 -> f64 -> f64 -> f64;
  o_float_to_string : f64 -> str;
  o_to_lowercase : str -> str;
  o_to_uppercase : str -> str;
}.

(* ---- derived PartialEq on Value ---- *)
Fixpoint value_eqb (a b : value) : bool :=
  match a, b with
  | VString x, VString y => str_eqb x y
  | VFloat x, VFloat y => f_eqb x y
  | VInt x, VInt y => Z.eqb x y
  | VBool x, VBool y => Bool.eqb x y
  | VTuple xs, VTuple ys =>
      (fix go (xs ys : list value) : bool :=
         match xs, ys with
         | [], [] => true
         | x :: xs', y :: ys' => value_eqb x y && go xs' ys'
         | _, _ => false
         end) xs ys
  | VEmpty, VEmpty => true
  | _, _ => false
  end.

(* ---- accessors ---- *)
Definition as_string (v : value) : outcome str :=
  match v with VString s => Ok s | _ => Err (EExpectedString v) end.
Definition as_int (v : value) : outcome Z :=
  match v with VInt i => Ok i | _ => Err (EExpectedInt v) end.
Definition as_float (v : value) : outcome f64 :=
  match v with VFloat f => Ok f | _ => Err (EExpectedFloat v) end.
Definition as_number (v : value) : outcome f64 :=
  match v with VFloat f => Ok f | VInt i => Ok (f_of_Z i) | _ => Err (EExpectedNumber v) end.
Definition as_boolean (v : value) : outcome bool :=
  match v with VBool b => Ok b | _ => Err (EExpectedBoolean v) end.
Definition as_tuple (v : value) : outcome (list value) :=
  match v with VTuple t => Ok t | _ => Err (EExpectedTuple v) end.
Definition as_fixed_len_tuple (v : value) (n : N) : outcome (list value) :=
  match v with
  | VTuple t => if N.eqb (N.of_nat (length t)) n then Ok t else Err (EExpectedFixedLengthTuple n v)
  | _ => Err (EExpectedTuple v)
  end.
Definition as_ranged_len_tuple (v : value) (lo hi : N) : outcome (list value) :=
  match v with
  | VTuple t =>
      let l := N.of_nat (length t) in
      if (N.leb lo l && N.leb l hi)%bool then Ok t else Err (EExpectedRangedLengthTuple lo hi v)
  | _ => Err (EExpectedTuple v)
  end.

Definition expect_number_or_string (v : value) : outcome unit :=
  match v with
  | VString _ | VFloat _ | VInt _ => Ok tt
  | _ => Err (EExpectedNumberOrString v)
  end.

(* EvalexprError::expected_type(expected, actual) *)
Definition expected_type (expected actual : value) : error :=
  match type_of expected with
  | TyString => EExpectedString actual
  | TyInt => EExpectedInt actual
  | TyFloat => EExpectedFloat actual
  | TyBoolean => EExpectedBoolean actual
  | TyTuple => EExpectedTuple actual
  | TyEmpty => EExpectedEmpty actual
  end.

(* ---- i64 ---- *)
Definition wrap64 (z : Z) : Z :=
  let m := z mod 18446744073709551616 in
  if m <=? i64_max then m else m - 18446744073709551616.

Definition checked (z : Z) (e : error) : outcome Z := if in_i64 z then Ok z else Err e.

Definition checked_add (a b : Z) := checked (a + b) (EAdditionError (VInt a) (VInt b)).
Definition checked_sub (a b : Z) := checked (a - b) (ESubtractionError (VInt a) (VInt b)).
Definition checked_mul (a b : Z) := checked (a * b) (EMultiplicationError (VInt a) (VInt b)).
Definition checked_neg (a : Z) := checked (- a) (ENegationError (VInt a)).
Definition checked_abs (a : Z) := checked (Z.abs a) (ENegationError (VInt a)).
(* i64::checked_div / checked_rem: None if the divisor is 0 or the division overflows (MIN / -1) *)
Definition checked_div (a b : Z) : outcome Z :=
  if (b =? 0) || ((a =? i64_min) && (b =? -1)) then Err (EDivisionError (VInt a) (VInt b))
  else Ok (Z.quot a b).
Definition checked_rem (a b : Z) : outcome Z :=
  if (b =? 0) || ((a =? i64_min) && (b =? -1)) then Err (EModulationError (VInt a) (VInt b))
  else Ok (Z.rem a b).
(* wrapping_shl / wrapping_shr with `rhs as u32`: the amount is masked to 6 bits *)
Definition wrapping_shl (a b : Z) : Z := wrap64 (Z.shiftl a (b mod 64)).
Definition wrapping_shr (a b : Z) : Z := Z.shiftr a (b mod 64).

(* ---- Display ---- *)
Fixpoint dec_of_nonneg (fuel : nat) (z : Z) (acc : str) : str :=
  match fuel with
  | O => acc
  | S f =>
      let d := Z.to_N (48 + z mod 10) in
      if z <? 10 then d :: acc else dec_of_nonneg f (z / 10) (d :: acc)
  end.
(* i64 Display; 20 digits of fuel cover every 64-bit value *)
Definition int_to_string (z : Z) : str :=
  if z <? 0 then 45%N :: dec_of_nonneg 20 (- z) [] else dec_of_nonneg 20 z [].

Definition bool_to_string (b : bool) : str := if b then s2l "true"%string else s2l "false"%string.

Section WithOracle.
Variable O : std_oracle.

(* impl Display for Value *)
Fixpoint value_display (v : value) : str :=
  match v with
  | VString s => 34%N :: s ++ [34%N]
  | VFloat f => o_float_to_string O f
  | VInt i => int_to_string i
  | VBool b => bool_to_string b
  | VTuple l =>
      40%N ::
      (fix go (first : bool) (l : list value) : str :=
         match l with
         | [] => [41%N]
         | x :: l' => (if first then [] else [44%N; 32%N]) ++ value_display x ++ go false l'
         end) true l
  | VEmpty => s2l "()"%string
  end.

(* Value::str_from *)
Definition str_from (v : value) : str :=
  match v with
  | VString s => s
  | VFloat f => o_float_to_string O f
  | VInt i => int_to_string i
  | VBool b => bool_to_string b
  | VTuple _ => value_display v
  | VEmpty => s2l "()"%string
  end.
End WithOracle.

(* str::trim: strips leading and trailing White_Space characters (the same table as the lexer's) *)
Definition is_ws (c : N) : bool := match impl_char_class c with CWhitespace => true | _ => false end.
Fixpoint trim_start (s : str) : str :=
  match s with c :: s' => if is_ws c then trim_start s' else s | [] => [] end.
Definition trim (s : str) : str := rev (trim_start (rev (trim_start s))).
