(* The rest of the public API of Value (src/value/mod.rs): as_empty, the is_* tests and the TryFrom impls. *)
From Coq Require Import Floats.SpecFloat.
Require Import Model.Base Model.Syntax Model.F64 Model.Value.

Definition as_empty (v : value) : outcome unit :=
  match v with VEmpty => Ok tt | _ => Err (EExpectedEmpty v) end.

Definition is_string v := match v with VString _ => true | _ => false end.
Definition is_int v := match v with VInt _ => true | _ => false end.
Definition is_float v := match v with VFloat _ => true | _ => false end.
Definition is_number v := match v with VInt _ | VFloat _ => true | _ => false end.
Definition is_boolean v := match v with VBool _ => true | _ => false end.
Definition is_tuple v := match v with VTuple _ => true | _ => false end.
Definition is_empty v := match v with VEmpty => true | _ => false end.

(* impl TryFrom<Value> for String / bool / TupleType / () *)
Definition try_from_string (v : value) : outcome str :=
  match v with VString s => Ok s | _ => Err (EExpectedString v) end.
Definition try_from_bool (v : value) : outcome bool :=
  match v with VBool b => Ok b | _ => Err (EExpectedBoolean v) end.
Definition try_from_tuple (v : value) : outcome (list value) :=
  match v with VTuple t => Ok t | _ => Err (EExpectedTuple v) end.
Definition try_from_unit (v : value) : outcome unit :=
  match v with VEmpty => Ok tt | _ => Err (EExpectedEmpty v) end.
