(* IEEE-754 binary64 arithmetic of the model: the executable SpecFloat operations of Coq's standard
   library at precision 53, emax 1024 (round to nearest, ties to even).  No axioms. *)
From Coq Require Import Floats.SpecFloat.
Require Import Model.Base.

Definition prec := 53.
Definition emax := 1024.

Definition f64 := spec_float.

Definition f_nan : f64 := S754_nan.
Definition f_inf (s : bool) : f64 := S754_infinity s.
Definition f_zero (s : bool) : f64 := S754_zero s.

Definition f_add : f64 -> f64 -> f64 := SFadd prec emax.
Definition f_sub : f64 -> f64 -> f64 := SFsub prec emax.
Definition f_mul : f64 -> f64 -> f64 := SFmul prec emax.
Definition f_div : f64 -> f64 -> f64 := SFdiv prec emax.
Definition f_sqrt : f64 -> f64 := SFsqrt prec emax.
Definition f_neg : f64 -> f64 := SFopp.
Definition f_abs : f64 -> f64 := SFabs.
Definition f_compare : f64 -> f64 -> option comparison := SFcompare.

(* Rust's ==, <, <=, >, >= on f64 *)
Definition f_eqb (a b : f64) : bool := match f_compare a b with Some Eq => true | _ => false end.
Definition f_ltb (a b : f64) : bool := match f_compare a b with Some Lt => true | _ => false end.
Definition f_leb (a b : f64) : bool := match f_compare a b with Some Lt | Some Eq => true | _ => false end.
Definition f_gtb (a b : f64) : bool := f_ltb b a.
Definition f_geb (a b : f64) : bool := f_leb b a.

(* `i64 as f64` *)
Definition f_of_Z (z : Z) : f64 := binary_normalize prec emax z 0 false.

Definition f_is_nan (a : f64) : bool := match a with S754_nan => true | _ => false end.
Definition f_is_infinite (a : f64) : bool := match a with S754_infinity _ => true | _ => false end.
Definition f_is_finite (a : f64) : bool :=
  match a with S754_nan | S754_infinity _ => false | _ => true end.
(* neither zero, infinite, subnormal nor NaN: a finite value with the full 53-bit mantissa *)
Definition f_is_normal (a : f64) : bool :=
  match a with
  | S754_finite _ m _ => Z.eqb (Z.pos (digits2_pos m)) prec
  | _ => false
  end.

(* Rust's `%` on f64 (C fmod): exact remainder with the sign of the dividend. *)
Definition f_rem (x y : f64) : f64 :=
  match x, y with
  | S754_nan, _ | _, S754_nan => S754_nan
  | S754_infinity _, _ => S754_nan
  | _, S754_zero _ => S754_nan
  | _, S754_infinity _ => x
  | S754_zero _, _ => x
  | S754_finite sx mx ex, S754_finite _ my ey =>
      let e := Z.min ex ey in
      let X := Z.shiftl (Z.pos mx) (ex - e) in
      let Y := Z.shiftl (Z.pos my) (ey - e) in
      let R := Z.rem X Y in
      binary_normalize prec emax (if sx then Z.opp R else R) e sx
  end.

(* floor / ceil / round (half away from zero); the sign of a zero result is the sign of the argument. *)
Inductive rmode := RFloor | RCeil | RRound.

Definition f_round_int (mode : rmode) (x : f64) : f64 :=
  match x with
  | S754_finite s m e =>
      if 0 <=? e then x
      else
        let d := Z.opp e in
        let q := Z.shiftr (Z.pos m) d in
        let r := Z.pos m - Z.shiftl q d in
        let half := Z.shiftl 1 (d - 1) in
        let up :=
          match mode with
          | RFloor => s && negb (r =? 0)
          | RCeil => negb s && negb (r =? 0)
          | RRound => half <=? r
          end in
        let n := if up then q + 1 else q in
        binary_normalize prec emax (if s then Z.opp n else n) 0 s
  | _ => x
  end.

Definition f_floor := f_round_int RFloor.
Definition f_ceil := f_round_int RCeil.
Definition f_round := f_round_int RRound.

(* Bit patterns (the interface to the outside world).  All NaNs decode to the one NaN. *)
Definition f_of_bits (b : Z) : f64 :=
  let s := Z.testbit b 63 in
  let ebits := Z.land (Z.shiftr b 52) 2047 in
  let mbits := Z.land b (Z.ones 52) in
  if ebits =? 0 then
    match mbits with
    | Z.pos m => S754_finite s m (-1074)
    | _ => S754_zero s
    end
  else if ebits =? 2047 then
    (if mbits =? 0 then S754_infinity s else S754_nan)
  else
    match mbits + Z.shiftl 1 52 with
    | Z.pos m => S754_finite s m (ebits - 1075)
    | _ => S754_nan
    end.

Definition nan_bits : Z := 9221120237041090560. (* 0x7ff8000000000000 *)

(* Inverse of f_of_bits on the values the operations produce (canonical mantissas). *)
Definition bits_of_f (x : f64) : Z :=
  let sb (s : bool) := if s then Z.shiftl 1 63 else 0 in
  match x with
  | S754_zero s => sb s
  | S754_infinity s => sb s + Z.shiftl 2047 52
  | S754_nan => nan_bits
  | S754_finite s m e =>
      if Z.pos m <? Z.shiftl 1 52 then sb s + Z.pos m
      else sb s + Z.shiftl (e + 1075) 52 + (Z.pos m - Z.shiftl 1 52)
  end.

(* The correctly rounded double nearest to  m * 10^e  (m >= 0), used by the literal parser.
   Exponents far outside the double range are clamped first so that no huge power is computed. *)
Definition f_of_decimal (m : Z) (e : Z) : f64 :=
  match m with
  | Z.pos mp =>
      if 400 <? e then S754_infinity false
      else if 0 <=? e then binary_normalize prec emax (m * 10 ^ e) 0 false
      else
        (* m has at most (size m) bits; if m * 10^e < 2^-1100 the result is +0 *)
        if e <? -400 - Z.log2 m then S754_zero false
        else
          match 10 ^ (Z.opp e) with
          | Z.pos d =>
              let '(q, e', l) := SFdiv_core_binary prec emax m 0 (Z.pos d) 0 in
              binary_round_aux prec emax false q e' l
          | _ => S754_nan
          end
  | _ => S754_zero false
  end.
