(* Base definitions shared by the whole model: characters, strings, outcomes. *)
From Coq Require Import Strings.String Strings.Ascii.
From Coq Require Export ZArith NArith List Bool Lia.
Export ListNotations.
Open Scope Z_scope.

(* A character is a Unicode scalar value; a string is the list of its scalar values.
   Rust's byte-wise order on UTF-8 equals the lexicographic order on scalar values. *)
Definition char := N.
Definition str := list N.

Fixpoint str_eqb (a b : str) : bool :=
  match a, b with
  | [], [] => true
  | x :: a', y :: b' => N.eqb x y && str_eqb a' b'
  | _, _ => false
  end.

Fixpoint str_compare (a b : str) : comparison :=
  match a, b with
  | [], [] => Eq
  | [], _ :: _ => Lt
  | _ :: _, [] => Gt
  | x :: a', y :: b' =>
      match N.compare x y with
      | Eq => str_compare a' b'
      | c => c
      end
  end.

(* UTF-8 width of a scalar value, used for byte lengths and byte offsets. *)
Definition utf8_width (c : N) : N :=
  if (c <? 128)%N then 1%N else if (c <? 2048)%N then 2%N else if (c <? 65536)%N then 3%N else 4%N.

Fixpoint byte_len (s : str) : N :=
  match s with [] => 0%N | c :: s' => (utf8_width c + byte_len s')%N end.

(* Split a string at a byte offset; None if the offset is not a character boundary or too large. *)
Fixpoint split_at_byte (s : str) (off : N) : option (str * str) :=
  if (off =? 0)%N then Some ([], s)
  else match s with
       | [] => None
       | c :: s' =>
           let w := utf8_width c in
           if (off <? w)%N then None
           else match split_at_byte s' (off - w)%N with
                | Some (a, b) => Some (c :: a, b)
                | None => None
                end
       end.

(* ASCII string literals of the model, as lists of code points. *)
Fixpoint s2l (s : string) : str :=
  match s with
  | EmptyString => []
  | String a s' => N_of_ascii a :: s2l s'
  end.

Fixpoint last_opt {A} (l : list A) : option A :=
  match l with [] => None | [x] => Some x | _ :: l' => last_opt l' end.

Fixpoint nth_opt {A} (l : list A) (n : nat) : option A :=
  match l, n with
  | [], _ => None
  | x :: _, O => Some x
  | _ :: l', S n' => nth_opt l' n'
  end.
