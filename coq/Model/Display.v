(* src/value/display.rs, src/operator/display.rs, src/tree/display.rs, src/token/display.rs,
   src/error/display.rs and the derived Debug impls they use, mirrored.
   What Rust's std formats (floats with {} and {:?}, strings with {:?}) comes from an oracle record. *)
From Coq Require Import Strings.String Floats.SpecFloat.
Require Import Model.Base Model.Syntax Model.F64 Model.Lexer Model.Value.

Record fmt_oracle := {
  fo_float_display : f64 -> str;   (* format!("{}", f) *)
  fo_float_debug : f64 -> str;     (* format!("{:?}", f) *)
  fo_str_debug : str -> str;       (* format!("{:?}", s): quoted, with Rust's escapes *)
}.

Definition lit (s : string) : str := s2l s.

Section WithFmt.
Variable F : fmt_oracle.

Fixpoint join_with (sep : str) (l : list str) : str :=
  match l with
  | [] => []
  | [x] => x
  | x :: l' => x ++ sep ++ join_with sep l'
  end.

(* impl Display for Value *)
Fixpoint value_fmt (v : value) : str :=
  match v with
  | VString s => 34%N :: s ++ [34%N]
  | VFloat f => fo_float_display F f
  | VInt i => int_to_string i
  | VBool b => bool_to_string b
  | VTuple l => lit "(" ++ join_with (lit ", ") (map value_fmt l) ++ lit ")"
  | VEmpty => lit "()"
  end.

(* #[derive(Debug)] for Value *)
Fixpoint value_debug (v : value) : str :=
  match v with
  | VString s => lit "String(" ++ fo_str_debug F s ++ lit ")"
  | VFloat f => lit "Float(" ++ fo_float_debug F f ++ lit ")"
  | VInt i => lit "Int(" ++ int_to_string i ++ lit ")"
  | VBool b => lit "Boolean(" ++ bool_to_string b ++ lit ")"
  | VTuple l => lit "Tuple([" ++ join_with (lit ", ") (map value_debug l) ++ lit "])"
  | VEmpty => lit "Empty"
  end.

Definition vtype_debug (t : vtype) : str :=
  lit match t with
      | TyString => "String" | TyFloat => "Float" | TyInt => "Int" | TyBoolean => "Boolean"
      | TyTuple => "Tuple" | TyEmpty => "Empty"
      end%string.

(* impl Display for Operator *)
Definition operator_fmt (o : operator) : str :=
  match o with
  | ORootNode => []
  | OAdd => lit "+" | OSub => lit "-" | ONeg => lit "-" | OMul => lit "*" | ODiv => lit "/" | OMod => lit "%"
  | OExp => lit "^" | OEq => lit "==" | ONeq => lit "!=" | OGt => lit ">" | OLt => lit "<" | OGeq => lit ">="
  | OLeq => lit "<=" | OAnd => lit "&&" | OOr => lit "||" | ONot => lit "!"
  | OAssign => lit " = " | OAddAssign => lit " += " | OSubAssign => lit " -= " | OMulAssign => lit " *= "
  | ODivAssign => lit " /= " | OModAssign => lit " %= " | OExpAssign => lit " ^= " | OAndAssign => lit " &&= "
  | OOrAssign => lit " ||= "
  | OTuple => lit ", " | OChain => lit "; "
  | OConst v => value_fmt v
  | OVariableIdentifierWrite s | OVariableIdentifierRead s | OFunctionIdentifier s => s
  end.

(* #[derive(Debug)] for Operator *)
Definition operator_debug (o : operator) : str :=
  match o with
  | ORootNode => lit "RootNode"
  | OAdd => lit "Add" | OSub => lit "Sub" | ONeg => lit "Neg" | OMul => lit "Mul" | ODiv => lit "Div" | OMod => lit "Mod"
  | OExp => lit "Exp" | OEq => lit "Eq" | ONeq => lit "Neq" | OGt => lit "Gt" | OLt => lit "Lt" | OGeq => lit "Geq"
  | OLeq => lit "Leq" | OAnd => lit "And" | OOr => lit "Or" | ONot => lit "Not"
  | OAssign => lit "Assign" | OAddAssign => lit "AddAssign" | OSubAssign => lit "SubAssign" | OMulAssign => lit "MulAssign"
  | ODivAssign => lit "DivAssign" | OModAssign => lit "ModAssign" | OExpAssign => lit "ExpAssign"
  | OAndAssign => lit "AndAssign" | OOrAssign => lit "OrAssign"
  | OTuple => lit "Tuple" | OChain => lit "Chain"
  | OConst v => lit "Const { value: " ++ value_debug v ++ lit " }"
  | OVariableIdentifierWrite s => lit "VariableIdentifierWrite { identifier: " ++ fo_str_debug F s ++ lit " }"
  | OVariableIdentifierRead s => lit "VariableIdentifierRead { identifier: " ++ fo_str_debug F s ++ lit " }"
  | OFunctionIdentifier s => lit "FunctionIdentifier { identifier: " ++ fo_str_debug F s ++ lit " }"
  end.

(* impl Display for Node: the operator, then " " and each child *)
Fixpoint node_fmt (n : node) : str :=
  match n with
  | Node o ch =>
      operator_fmt o ++
      (fix go (l : list node) : str :=
         match l with [] => [] | c :: l' => 32%N :: node_fmt c ++ go l' end) ch
  end.

(* impl Display for Token / PartialToken *)
Definition token_fmt (t : token) : str :=
  match t with
  | TPlus => lit "+" | TMinus => lit "-" | TStar => lit "*" | TSlash => lit "/" | TPercent => lit "%" | THat => lit "^"
  | TEq => lit "==" | TNeq => lit "!=" | TGt => lit ">" | TLt => lit "<" | TGeq => lit ">=" | TLeq => lit "<="
  | TAnd => lit "&&" | TOr => lit "||" | TNot => lit "!" | TLBrace => lit "(" | TRBrace => lit ")"
  | TAssign => lit "=" | TPlusAssign => lit "+=" | TMinusAssign => lit "-=" | TStarAssign => lit "*="
  | TSlashAssign => lit "/=" | TPercentAssign => lit "%=" | THatAssign => lit "^=" | TAndAssign => lit "&&="
  | TOrAssign => lit "||=" | TComma => lit "," | TSemicolon => lit ";"
  | TIdentifier s => s
  | TFloat f => fo_float_display F f
  | TInt i => int_to_string i
  | TBoolean b => bool_to_string b
  | TString s => fo_str_debug F s
  end.

Definition ptoken_fmt (p : ptoken) : str :=
  match p with
  | PToken t => token_fmt t
  | PLiteral s => s
  | PWhitespace => lit " "
  | PPlus => lit "+" | PMinus => lit "-" | PStar => lit "*" | PSlash => lit "/" | PPercent => lit "%" | PHat => lit "^"
  | PEq => lit "=" | PExclamationMark => lit "!" | PGt => lit ">" | PLt => lit "<" | PAmpersand => lit "&"
  | PVerticalBar => lit "|"
  end.

Definition n_to_string (n : N) : str := int_to_string (Z.of_N n).
Definition usize_max : str := lit "18446744073709551615".

(* impl Display for EvalexprError *)
Definition error_fmt (e : error) : str :=
  match e with
  | EWrongOperatorArgumentAmount ex ac =>
      lit "An operator expected " ++ n_to_string ex ++ lit " arguments, but got " ++ n_to_string ac ++ lit "."
  | EWrongFunctionArgumentAmount lo hi ac =>
      let his := match hi with Some h => n_to_string h | None => usize_max end in
      let same := match hi with Some h => N.eqb lo h | None => false end in
      lit "A function expected " ++ (if same then n_to_string lo else n_to_string lo ++ lit " to " ++ his)
      ++ lit " arguments, but got " ++ n_to_string ac ++ lit "."
  | EExpectedString a => lit "Expected a Value::String, but got " ++ value_debug a ++ lit "."
  | EExpectedInt a => lit "Expected a Value::Int, but got " ++ value_debug a ++ lit "."
  | EExpectedFloat a => lit "Expected a Value::Float, but got " ++ value_debug a ++ lit "."
  | EExpectedNumber a => lit "Expected a Value::Float or Value::Int, but got " ++ value_debug a ++ lit "."
  | EExpectedNumberOrString a => lit "Expected a Value::Number or a Value::String, but got " ++ value_debug a ++ lit "."
  | EExpectedBoolean a => lit "Expected a Value::Boolean, but got " ++ value_debug a ++ lit "."
  | EExpectedTuple a => lit "Expected a Value::Tuple, but got " ++ value_debug a ++ lit "."
  | EExpectedFixedLengthTuple n a =>
      lit "Expected a Value::Tuple of length " ++ n_to_string n ++ lit ", but got " ++ value_debug a ++ lit "."
  | EExpectedRangedLengthTuple lo hi a =>
      lit "Expected a Value::Tuple of length " ++ n_to_string lo ++ lit " to " ++ n_to_string hi ++ lit ", but got "
      ++ value_debug a ++ lit "."
  | EExpectedEmpty a => lit "Expected a Value::Empty, but got " ++ value_debug a ++ lit "."
  | EAppendedToLeafNode => lit "Tried to append a node to a leaf node."
  | EPrecedenceViolation => lit "Tried to append a node to another node with higher precedence."
  | EVariableIdentifierNotFound s =>
      lit "Variable identifier is not bound to anything by context: " ++ fo_str_debug F s ++ lit "."
  | EFunctionIdentifierNotFound s =>
      lit "Function identifier is not bound to anything by context: " ++ fo_str_debug F s ++ lit "."
  | ETypeError ex a =>
      lit "Expected one of [" ++ join_with (lit ", ") (map vtype_debug ex) ++ lit "], but got " ++ value_debug a ++ lit "."
  | EWrongTypeCombination o ts =>
      lit "The operator " ++ operator_debug o ++ lit " was called with a wrong combination of types: ["
      ++ join_with (lit ", ") (map vtype_debug ts) ++ lit "]"
  | EUnmatchedLBrace => lit "Found an unmatched opening parenthesis '('."
  | EUnmatchedRBrace => lit "Found an unmatched closing parenthesis ')'."
  | EUnmatchedDoubleQuote => 70%N :: lit "ound an unmatched double quote '" ++ [34%N; 39%N]
  | EMissingOperatorOutsideOfBrace =>
      lit "Found an opening parenthesis that is preceded by something that does not take any arguments on the right, or found a closing parenthesis that is succeeded by something that does not take any arguments on the left."
  | EUnmatchedPartialToken a b =>
      match b with
      | Some b' => lit "Found a partial token '" ++ ptoken_fmt a ++ lit "' that should not be followed by '" ++ ptoken_fmt b' ++ lit "'."
      | None => lit "Found a partial token '" ++ ptoken_fmt a ++ lit "' that should be followed by another partial token."
      end
  | EAdditionError a b => lit "Error adding " ++ value_fmt a ++ lit " + " ++ value_fmt b
  | ESubtractionError a b => lit "Error subtracting " ++ value_fmt a ++ lit " - " ++ value_fmt b
  | ENegationError a => lit "Error negating -" ++ value_fmt a
  | EMultiplicationError a b => lit "Error multiplying " ++ value_fmt a ++ lit " * " ++ value_fmt b
  | EDivisionError a b => lit "Error dividing " ++ value_fmt a ++ lit " / " ++ value_fmt b
  | EModulationError a b => lit "Error modulating " ++ value_fmt a ++ lit " % " ++ value_fmt b
  | EContextNotMutable => lit "Cannot manipulate context"
  | EIllegalEscapeSequence s => lit "Illegal escape sequence: " ++ s
  | EBuiltinFunctionsCannotBeEnabled => lit "This context does not allow enabling builtin functions"
  | EBuiltinFunctionsCannotBeDisabled => lit "This context does not allow disabling builtin functions"
  | EOutOfBoundsAccess => lit "Tried to access a tuple or string at an invalid index"
  | EIntFromUsize n => lit "The usize " ++ n_to_string n ++ lit " does not fit into the chosen integer type"
  | EIntIntoUsize i => lit "The int " ++ int_to_string i ++ lit " does not fit into an usize on this platform"
  | ECustomMessage s => lit "Error: " ++ s
  end.

End WithFmt.
