(* src/token/mod.rs, mirrored.  str_to_partial_tokens is a state machine over the characters
   (the Rust code's peekable iterator and its helper loops), partial_tokens_to_tokens a structural
   recursion with the same 1/2/3-token cutoffs. *)
From Coq Require Import Strings.String Floats.SpecFloat.
Require Import Model.Base Model.Syntax Model.F64 Gen.Tables.

(* ---- literal classification (Rust std: i64::from_str, i64::from_str_radix, f64::from_str, bool::from_str) ---- *)

Definition is_digit (c : N) : bool := ((48 <=? c) && (c <=? 57))%N.
Definition digit_val (c : N) : Z := Z.of_N (c - 48).
Definition hex_val (c : N) : option Z :=
  if is_digit c then Some (Z.of_N (c - 48))
  else if ((97 <=? c) && (c <=? 102))%N then Some (Z.of_N (c - 87))
  else if ((65 <=? c) && (c <=? 70))%N then Some (Z.of_N (c - 55))
  else None.

Definition i64_max : Z := 9223372036854775807.
Definition i64_min : Z := -9223372036854775808.
Definition in_i64 (z : Z) : bool := (i64_min <=? z) && (z <=? i64_max).

(* value of a non-empty all-digit string, None otherwise (no sign can occur inside a literal) *)
Fixpoint dec_digits (acc : Z) (s : str) : option Z :=
  match s with
  | [] => Some acc
  | c :: s' => if is_digit c then dec_digits (acc * 10 + digit_val c) s' else None
  end.
Fixpoint hex_digits (acc : Z) (s : str) : option Z :=
  match s with
  | [] => Some acc
  | c :: s' => match hex_val c with Some d => hex_digits (acc * 16 + d) s' | None => None end
  end.

Definition parse_dec (s : str) : option Z :=
  match s with
  | [] => None
  | _ => match dec_digits 0 s with Some z => if z <=? i64_max then Some z else None | None => None end
  end.
Definition parse_hex (s : str) : option Z :=
  match s with
  | [] => None
  | _ => match hex_digits 0 s with Some z => if z <=? i64_max then Some z else None | None => None end
  end.

(* parse_dec_or_hex: literal.strip_prefix("0x") *)
Definition parse_dec_or_hex (s : str) : option Z :=
  match s with
  | 48%N :: 120%N :: rest => parse_hex rest
  | _ => parse_dec s
  end.

(* f64::from_str on a word without sign:
     ( Digit+ | Digit+ '.' Digit* | Digit* '.' Digit+ ) ( [eE] [+-]? Digit+ )?
   or inf / infinity / nan in any letter case. *)
Fixpoint take_digits (s : str) : str * str :=
  match s with
  | c :: s' => if is_digit c then let '(d, r) := take_digits s' in (c :: d, r) else ([], s)
  | [] => ([], [])
  end.

Definition lower_ascii (c : N) : N := if ((65 <=? c) && (c <=? 90))%N then (c + 32)%N else c.

Definition digits_val (s : str) : Z := fold_left (fun acc c => acc * 10 + digit_val c) s 0.

Definition parse_exponent (s : str) : option Z :=
  match s with
  | c :: s' =>
      if ((c =? 101) || (c =? 69))%N then
        let '(neg, s'') :=
          match s' with
          | 43%N :: t => (false, t)
          | 45%N :: t => (true, t)
          | _ => (false, s')
          end in
        let '(d, r) := take_digits s'' in
        match d, r with
        | _ :: _, [] => Some (if neg then Z.opp (digits_val d) else digits_val d)
        | _, _ => None
        end
      else None
  | [] => Some 0
  end.

Definition parse_float (s : str) : option f64 :=
  let low := map lower_ascii s in
  if str_eqb low (s2l "inf"%string) || str_eqb low (s2l "infinity"%string) then Some (f_inf false)
  else if str_eqb low (s2l "nan"%string) then Some f_nan
  else
    let '(ip, r1) := take_digits s in
    let '(fp, r2) :=
      match r1 with
      | 46%N :: t => take_digits t
      | _ => ([], r1)
      end in
    match ip ++ fp with
    | [] => None
    | ds =>
        match parse_exponent r2 with
        | Some e => Some (f_of_decimal (digits_val ds) (e - Z.of_nat (length fp)))
        | None => None
        end
    end.

Definition parse_bool (s : str) : option bool :=
  if str_eqb s (s2l "true"%string) then Some true
  else if str_eqb s (s2l "false"%string) then Some false
  else None.

(* ---- str_to_partial_tokens ---- *)

Definition char_to_partial_token (c : N) : ptoken :=
  match impl_char_class c with
  | CPlus => PPlus | CMinus => PMinus | CStar => PStar | CSlash => PSlash | CPercent => PPercent | CHat => PHat
  | CLBrace => PToken TLBrace | CRBrace => PToken TRBrace
  | CComma => PToken TComma | CSemicolon => PToken TSemicolon
  | CEq => PEq | CExclamationMark => PExclamationMark | CGt => PGt | CLt => PLt
  | CAmpersand => PAmpersand | CVerticalBar => PVerticalBar
  | CWhitespace => PWhitespace
  | CLiteral => PLiteral [c]
  end.

(* result.push(partial_token), fusing adjacent literals; `acc` is the result vector reversed *)
Definition push_partial (acc : list ptoken) (p : ptoken) : list ptoken :=
  match acc, p with
  | PLiteral last :: acc', PLiteral l => PLiteral (last ++ l) :: acc'
  | _, _ => p :: acc
  end.

Inductive lstate :=
| LNormal
| LSlash                       (* a '/' was read outside a string; try_skip_comment peeks at the next character *)
| LString (text : str)         (* inside parse_string_literal; text reversed *)
| LEscape (text : str)         (* inside parse_escape_sequence *)
| LLine                        (* inside a line comment *)
| LBlock (star : bool).        (* inside an inline comment; star: the previous character was '*' *)

Definition QUOTE : N := 34. Definition BACKSLASH : N := 92. Definition SLASH : N := 47.
Definition STAR : N := 42. Definition NEWLINE : N := 10.

Definition lex_normal (acc : list ptoken) (c : N) : lstate * list ptoken :=
  if (c =? QUOTE)%N then (LString [], acc)
  else match char_to_partial_token c with
       | PSlash => (LSlash, acc)
       | p => (LNormal, push_partial acc p)
       end.

Fixpoint lex (st : lstate) (acc : list ptoken) (s : str) : outcome (list ptoken) :=
  match s with
  | [] =>
      match st with
      | LNormal => Ok (rev acc)
      | LSlash => Ok (rev (push_partial acc PSlash))
      | LString _ => Err EUnmatchedDoubleQuote
      | LEscape _ => Err (EIllegalEscapeSequence [BACKSLASH])
      | LLine => Ok (rev acc)
      | LBlock _ => Err (ECustomMessage (s2l "unmatched inline comment"%string))
      end
  | c :: s' =>
      match st with
      | LNormal => let '(st', acc') := lex_normal acc c in lex st' acc' s'
      | LSlash =>
          if (c =? SLASH)%N then lex LLine (PWhitespace :: acc) s'
          else if (c =? STAR)%N then lex (LBlock false) acc s'
          else let '(st', acc') := lex_normal (push_partial acc PSlash) c in lex st' acc' s'
      | LString text =>
          if (c =? QUOTE)%N then lex LNormal (PToken (TString (rev text)) :: acc) s'
          else if (c =? BACKSLASH)%N then lex (LEscape text) acc s'
          else lex (LString (c :: text)) acc s'
      | LEscape text =>
          if (c =? QUOTE)%N then lex (LString (QUOTE :: text)) acc s'
          else if (c =? BACKSLASH)%N then lex (LString (BACKSLASH :: text)) acc s'
          else Err (EIllegalEscapeSequence [BACKSLASH; c])
      | LLine => if (c =? NEWLINE)%N then lex LNormal acc s' else lex LLine acc s'
      | LBlock star =>
          if star && (c =? SLASH)%N then lex LNormal (PWhitespace :: acc) s'
          else lex (LBlock (c =? STAR)%N) acc s'
      end
  end.

Definition str_to_partial_tokens (s : str) : outcome (list ptoken) := lex LNormal [] s.

(* ---- partial_tokens_to_tokens ---- *)

Definition is_PEq (p : option ptoken) : bool := match p with Some PEq => true | _ => false end.

(* the Literal arm; returns the token and the cutoff (1 or 3) *)
Definition literal_to_token (lit : str) (second third : option ptoken) : token * nat :=
  match parse_dec_or_hex lit with
  | Some z => (TInt z, 1%nat)
  | None =>
  match parse_float lit with
  | Some f => (TFloat f, 1%nat)
  | None =>
  match parse_bool lit with
  | Some b => (TBoolean b, 1%nat)
  | None =>
      (* [Literal("10e"), Minus, Literal("3")] => "10e-3".parse() ; the Display of any third
         partial token other than a Literal contains a character no float contains *)
      match second, third with
      | Some PMinus, Some (PLiteral t) =>
          match parse_float (lit ++ 45%N :: t) with
          | Some f => (TFloat f, 3%nat)
          | None => (TIdentifier lit, 1%nat)
          end
      | Some PPlus, Some (PLiteral t) =>
          match parse_float (lit ++ 43%N :: t) with
          | Some f => (TFloat f, 3%nat)
          | None => (TIdentifier lit, 1%nat)
          end
      | _, _ => (TIdentifier lit, 1%nat)
      end
  end end end.

Fixpoint partial_tokens_to_tokens (ps : list ptoken) : outcome (list token) :=
  match ps with
  | [] => Ok []
  | first :: rest1 =>
      let second := match rest1 with x :: _ => Some x | [] => None end in
      let rest2 := match rest1 with _ :: r => r | [] => [] end in
      let third := match rest2 with x :: _ => Some x | [] => None end in
      let rest3 := match rest2 with _ :: r => r | [] => [] end in
      (* one emitted token, cutoff 1 or 2 *)
      let simple (plain assign : token) :=
        if is_PEq second
        then match rest1 with
             | _ :: r => do ts <- partial_tokens_to_tokens r; Ok (assign :: ts)
             | [] => Panic 1 (* unreachable: second is Some *)
             end
        else do ts <- partial_tokens_to_tokens rest1; Ok (plain :: ts) in
      match first with
      | PToken t => do ts <- partial_tokens_to_tokens rest1; Ok (t :: ts)
      | PPlus => simple TPlus TPlusAssign
      | PMinus => simple TMinus TMinusAssign
      | PStar => simple TStar TStarAssign
      | PSlash => simple TSlash TSlashAssign
      | PPercent => simple TPercent TPercentAssign
      | PHat => simple THat THatAssign
      | PLiteral lit =>
          match literal_to_token lit second third with
          | (t, 3%nat) =>
              match rest1 with
              | _ :: _ :: r => do ts <- partial_tokens_to_tokens r; Ok (t :: ts)
              | _ => Panic 2 (* &tokens[3..] out of range: cutoff 3 needs a second and a third *)
              end
          | (t, _) => do ts <- partial_tokens_to_tokens rest1; Ok (t :: ts)
          end
      | PWhitespace => partial_tokens_to_tokens rest1
      | PEq => simple TAssign TEq
      | PExclamationMark => simple TNot TNeq
      | PGt => simple TGt TGeq
      | PLt => simple TLt TLeq
      | PAmpersand =>
          match rest1 with
          | PAmpersand :: r2 =>
              match r2 with
              | PEq :: r3 => do ts <- partial_tokens_to_tokens r3; Ok (TAndAssign :: ts)
              | _ => do ts <- partial_tokens_to_tokens r2; Ok (TAnd :: ts)
              end
          | _ => Err (EUnmatchedPartialToken first second)
          end
      | PVerticalBar =>
          match rest1 with
          | PVerticalBar :: r2 =>
              match r2 with
              | PEq :: r3 => do ts <- partial_tokens_to_tokens r3; Ok (TOrAssign :: ts)
              | _ => do ts <- partial_tokens_to_tokens r2; Ok (TOr :: ts)
              end
          | _ => Err (EUnmatchedPartialToken first second)
          end
      end
  end.

Definition tokenize (s : str) : outcome (list token) :=
  do ps <- str_to_partial_tokens s; partial_tokens_to_tokens ps.
