(* Runs the extracted Coq model on a case file and prints one canonical outcome line per case,
   in exactly the format of the Rust harness.  The std oracle is a pipe to `evx-harness oracle`. *)
module M = Model

(* ---------- numbers ---------- *)
let rec pos_of_u64 (x : int64) : M.positive =
  if Int64.equal x 1L then M.XH
  else if Int64.equal (Int64.logand x 1L) 0L then M.XO (pos_of_u64 (Int64.shift_right_logical x 1))
  else M.XI (pos_of_u64 (Int64.shift_right_logical x 1))

let rec u64_of_pos (p : M.positive) : int64 =
  match p with
  | M.XH -> 1L
  | M.XO q -> Int64.shift_left (u64_of_pos q) 1
  | M.XI q -> Int64.logor (Int64.shift_left (u64_of_pos q) 1) 1L

let z_of_u64 (x : int64) : M.z = if Int64.equal x 0L then M.Z0 else M.Zpos (pos_of_u64 x)
let z_of_i64 (x : int64) : M.z =
  if Int64.equal x 0L then M.Z0
  else if Int64.compare x 0L > 0 then M.Zpos (pos_of_u64 x)
  else M.Zneg (pos_of_u64 (Int64.neg x))
let u64_of_z (z : M.z) : int64 = match z with M.Z0 -> 0L | M.Zpos p -> u64_of_pos p | M.Zneg p -> Int64.neg (u64_of_pos p)
let n_of_int (i : int) : M.n = if i = 0 then M.N0 else M.Npos (pos_of_u64 (Int64.of_int i))
let int_of_n (n : M.n) : int = match n with M.N0 -> 0 | M.Npos p -> Int64.to_int (u64_of_pos p)
let rec int_of_nat (n : M.nat) : int = match n with M.O -> 0 | M.S m -> 1 + int_of_nat m

(* ---------- strings ---------- *)
let unhex_bytes (h : string) : string =
  String.init (String.length h / 2) (fun i -> Char.chr (int_of_string ("0x" ^ String.sub h (2 * i) 2)))

let decode_utf8 (s : string) : int list =
  let n = String.length s in
  let rec go i acc =
    if i >= n then List.rev acc
    else
      let c = Char.code s.[i] in
      if c < 0x80 then go (i + 1) (c :: acc)
      else if c < 0xE0 then go (i + 2) ((((c land 0x1F) lsl 6) lor (Char.code s.[i + 1] land 0x3F)) :: acc)
      else if c < 0xF0 then
        go (i + 3)
          ((((c land 0x0F) lsl 12) lor ((Char.code s.[i + 1] land 0x3F) lsl 6) lor (Char.code s.[i + 2] land 0x3F)) :: acc)
      else
        go (i + 4)
          ((((c land 0x07) lsl 18)
            lor ((Char.code s.[i + 1] land 0x3F) lsl 12)
            lor ((Char.code s.[i + 2] land 0x3F) lsl 6)
            lor (Char.code s.[i + 3] land 0x3F))
          :: acc)
  in
  go 0 []

let encode_utf8_hex (cps : int list) : string =
  let b = Buffer.create 64 in
  let add x = Buffer.add_string b (Printf.sprintf "%02x" x) in
  List.iter
    (fun c ->
      if c < 0x80 then add c
      else if c < 0x800 then (add (0xC0 lor (c lsr 6)); add (0x80 lor (c land 0x3F)))
      else if c < 0x10000 then (add (0xE0 lor (c lsr 12)); add (0x80 lor ((c lsr 6) land 0x3F)); add (0x80 lor (c land 0x3F)))
      else (add (0xF0 lor (c lsr 18)); add (0x80 lor ((c lsr 12) land 0x3F)); add (0x80 lor ((c lsr 6) land 0x3F)); add (0x80 lor (c land 0x3F))))
    cps;
  Buffer.contents b

let str_of_hex (h : string) : M.str = List.map n_of_int (decode_utf8 (unhex_bytes h))
let hex_of_str (s : M.str) : string = encode_utf8_hex (List.map int_of_n s)

(* ---------- floats ---------- *)
let float_hex (f : M.f64) : string = Printf.sprintf "%016Lx" (u64_of_z (M.bits_of_f f))
let float_of_hex (h : string) : M.f64 = M.f_of_bits (z_of_u64 (Int64.of_string ("0x" ^ h)))

(* ---------- oracle ---------- *)
let oracle_chan : (in_channel * out_channel) option ref = ref None
let oracle_cache : (string, string) Hashtbl.t = Hashtbl.create 1024
let oracle_ask (req : string) : string =
  match Hashtbl.find_opt oracle_cache req with
  | Some a -> a
  | None ->
      let ic, oc =
        match !oracle_chan with
        | Some c -> c
        | None ->
            let path = try Sys.getenv "EVX_ORACLE" with Not_found -> failwith "EVX_ORACLE not set" in
            let c = Unix.open_process (Filename.quote path ^ " oracle") in
            oracle_chan := Some c;
            c
      in
      output_string oc req;
      output_char oc '\n';
      flush oc;
      let a = input_line ic in
      Hashtbl.replace oracle_cache req a;
      a

let math1_name (m : M.math1) =
  match m with
  | M.MLn -> "ln" | M.MLog2 -> "log2" | M.MLog10 -> "log10" | M.MExp -> "exp" | M.MExp2 -> "exp2"
  | M.MCos -> "cos" | M.MAcos -> "acos" | M.MCosh -> "cosh" | M.MAcosh -> "acosh"
  | M.MSin -> "sin" | M.MAsin -> "asin" | M.MSinh -> "sinh" | M.MAsinh -> "asinh"
  | M.MTan -> "tan" | M.MAtan -> "atan" | M.MTanh -> "tanh" | M.MAtanh -> "atanh" | M.MCbrt -> "cbrt"
let math2_name (m : M.math2) = match m with M.MLog -> "log" | M.MPow -> "pow" | M.MAtan2 -> "atan2" | M.MHypot -> "hypot"

let oracle : M.std_oracle =
  { M.o_math1 = (fun m x -> float_of_hex (oracle_ask (Printf.sprintf "m1 %s %s" (math1_name m) (float_hex x))));
    M.o_math2 = (fun m x y -> float_of_hex (oracle_ask (Printf.sprintf "m2 %s %s %s" (math2_name m) (float_hex x) (float_hex y))));
    M.o_float_to_string = (fun x -> str_of_hex (oracle_ask ("fts " ^ float_hex x)));
    M.o_to_lowercase = (fun s -> str_of_hex (oracle_ask ("lower " ^ hex_of_str s)));
    M.o_to_uppercase = (fun s -> str_of_hex (oracle_ask ("upper " ^ hex_of_str s))) }

(* ---------- canonical text ---------- *)
let rec value_text (v : M.value) : string =
  match v with
  | M.VString s -> "S" ^ hex_of_str s
  | M.VFloat f -> "F" ^ float_hex f
  | M.VInt i -> "I" ^ Int64.to_string (u64_of_z i)
  | M.VBool b -> if b then "B1" else "B0"
  | M.VTuple l -> "T(" ^ String.concat "," (List.map value_text l) ^ ")"
  | M.VEmpty -> "E"

let parse_value (s : string) : M.value =
  let n = String.length s in
  let end_scalar i =
    let rec go j = if j >= n || s.[j] = ',' || s.[j] = ')' then j else go (j + 1) in
    go i
  in
  let rec at i : M.value * int =
    match s.[i] with
    | 'I' -> let e = end_scalar (i + 1) in (M.VInt (z_of_i64 (Int64.of_string (String.sub s (i + 1) (e - i - 1)))), e)
    | 'F' -> let e = end_scalar (i + 1) in (M.VFloat (float_of_hex (String.sub s (i + 1) (e - i - 1))), e)
    | 'S' -> let e = end_scalar (i + 1) in (M.VString (str_of_hex (String.sub s (i + 1) (e - i - 1))), e)
    | 'B' -> (M.VBool (s.[i + 1] = '1'), i + 2)
    | 'E' -> (M.VEmpty, i + 1)
    | 'T' ->
        if s.[i + 2] = ')' then (M.VTuple [], i + 3)
        else
          let rec items j acc =
            let v, k = at j in
            if s.[k] = ',' then items (k + 1) (v :: acc) else (M.VTuple (List.rev (v :: acc)), k + 1)
          in
          items (i + 2) []
    | _ -> failwith ("bad value text " ^ s)
  in
  let v, k = at 0 in
  if k <> n then failwith ("trailing value text " ^ s);
  v

let type_text (t : M.vtype) =
  match t with
  | M.TyString -> "String" | M.TyFloat -> "Float" | M.TyInt -> "Int" | M.TyBoolean -> "Boolean"
  | M.TyTuple -> "Tuple" | M.TyEmpty -> "Empty"

let token_text (t : M.token) : string =
  match t with
  | M.TPlus -> "Plus" | M.TMinus -> "Minus" | M.TStar -> "Star" | M.TSlash -> "Slash" | M.TPercent -> "Percent"
  | M.THat -> "Hat" | M.TEq -> "Eq" | M.TNeq -> "Neq" | M.TGt -> "Gt" | M.TLt -> "Lt" | M.TGeq -> "Geq"
  | M.TLeq -> "Leq" | M.TAnd -> "And" | M.TOr -> "Or" | M.TNot -> "Not" | M.TLBrace -> "LBrace"
  | M.TRBrace -> "RBrace" | M.TAssign -> "Assign" | M.TPlusAssign -> "PlusAssign" | M.TMinusAssign -> "MinusAssign"
  | M.TStarAssign -> "StarAssign" | M.TSlashAssign -> "SlashAssign" | M.TPercentAssign -> "PercentAssign"
  | M.THatAssign -> "HatAssign" | M.TAndAssign -> "AndAssign" | M.TOrAssign -> "OrAssign" | M.TComma -> "Comma"
  | M.TSemicolon -> "Semicolon"
  | M.TIdentifier s -> "Identifier:" ^ hex_of_str s
  | M.TFloat f -> "Float:" ^ float_hex f
  | M.TInt i -> "Int:" ^ Int64.to_string (u64_of_z i)
  | M.TBoolean b -> if b then "Boolean:1" else "Boolean:0"
  | M.TString s -> "String:" ^ hex_of_str s

let ptoken_text (p : M.ptoken) : string =
  match p with
  | M.PToken t -> "Token(" ^ token_text t ^ ")"
  | M.PLiteral s -> "Literal:" ^ hex_of_str s
  | M.PPlus -> "Plus" | M.PMinus -> "Minus" | M.PStar -> "Star" | M.PSlash -> "Slash" | M.PPercent -> "Percent"
  | M.PHat -> "Hat" | M.PWhitespace -> "Whitespace" | M.PEq -> "Eq" | M.PExclamationMark -> "ExclamationMark"
  | M.PGt -> "Gt" | M.PLt -> "Lt" | M.PAmpersand -> "Ampersand" | M.PVerticalBar -> "VerticalBar"

let op_text (o : M.operator) : string =
  match o with
  | M.ORootNode -> "RootNode" | M.OAdd -> "Add" | M.OSub -> "Sub" | M.ONeg -> "Neg" | M.OMul -> "Mul" | M.ODiv -> "Div"
  | M.OMod -> "Mod" | M.OExp -> "Exp" | M.OEq -> "Eq" | M.ONeq -> "Neq" | M.OGt -> "Gt" | M.OLt -> "Lt"
  | M.OGeq -> "Geq" | M.OLeq -> "Leq" | M.OAnd -> "And" | M.OOr -> "Or" | M.ONot -> "Not" | M.OAssign -> "Assign"
  | M.OAddAssign -> "AddAssign" | M.OSubAssign -> "SubAssign" | M.OMulAssign -> "MulAssign" | M.ODivAssign -> "DivAssign"
  | M.OModAssign -> "ModAssign" | M.OExpAssign -> "ExpAssign" | M.OAndAssign -> "AndAssign" | M.OOrAssign -> "OrAssign"
  | M.OTuple -> "Tuple" | M.OChain -> "Chain"
  | M.OConst v -> "Const:" ^ value_text v
  | M.OVariableIdentifierWrite s -> "Write:" ^ hex_of_str s
  | M.OVariableIdentifierRead s -> "Read:" ^ hex_of_str s
  | M.OFunctionIdentifier s -> "Fn:" ^ hex_of_str s

let rec tree_text (n : M.node) : string =
  match n with
  | M.Node (o, ch) -> "(" ^ String.concat " " (op_text o :: List.map tree_text ch) ^ ")"

let n_text (n : M.n) = match n with M.N0 -> "0" | M.Npos p -> Printf.sprintf "%Lu" (u64_of_pos p)

let error_text (e : M.error) : string =
  let v = value_text in
  match e with
  | M.EWrongOperatorArgumentAmount (ex, ac) -> Printf.sprintf "WrongOperatorArgumentAmount(%s,%s)" (n_text ex) (n_text ac)
  | M.EWrongFunctionArgumentAmount (lo, hi, ac) ->
      Printf.sprintf "WrongFunctionArgumentAmount(%s,%s,%s)" (n_text lo) (match hi with Some h -> n_text h | None -> "MAX") (n_text ac)
  | M.EExpectedString a -> "ExpectedString(" ^ v a ^ ")"
  | M.EExpectedInt a -> "ExpectedInt(" ^ v a ^ ")"
  | M.EExpectedFloat a -> "ExpectedFloat(" ^ v a ^ ")"
  | M.EExpectedNumber a -> "ExpectedNumber(" ^ v a ^ ")"
  | M.EExpectedNumberOrString a -> "ExpectedNumberOrString(" ^ v a ^ ")"
  | M.EExpectedBoolean a -> "ExpectedBoolean(" ^ v a ^ ")"
  | M.EExpectedTuple a -> "ExpectedTuple(" ^ v a ^ ")"
  | M.EExpectedFixedLengthTuple (n, a) -> Printf.sprintf "ExpectedFixedLengthTuple(%s,%s)" (n_text n) (v a)
  | M.EExpectedRangedLengthTuple (lo, hi, a) -> Printf.sprintf "ExpectedRangedLengthTuple(%s,%s,%s)" (n_text lo) (n_text hi) (v a)
  | M.EExpectedEmpty a -> "ExpectedEmpty(" ^ v a ^ ")"
  | M.EAppendedToLeafNode -> "AppendedToLeafNode"
  | M.EPrecedenceViolation -> "PrecedenceViolation"
  | M.EVariableIdentifierNotFound s -> "VariableIdentifierNotFound(" ^ hex_of_str s ^ ")"
  | M.EFunctionIdentifierNotFound s -> "FunctionIdentifierNotFound(" ^ hex_of_str s ^ ")"
  | M.ETypeError (ex, a) -> Printf.sprintf "TypeError([%s],%s)" (String.concat " " (List.map type_text ex)) (v a)
  | M.EWrongTypeCombination (o, ts) -> Printf.sprintf "WrongTypeCombination(%s,[%s])" (op_text o) (String.concat " " (List.map type_text ts))
  | M.EUnmatchedLBrace -> "UnmatchedLBrace"
  | M.EUnmatchedRBrace -> "UnmatchedRBrace"
  | M.EUnmatchedDoubleQuote -> "UnmatchedDoubleQuote"
  | M.EMissingOperatorOutsideOfBrace -> "MissingOperatorOutsideOfBrace"
  | M.EUnmatchedPartialToken (a, b) ->
      Printf.sprintf "UnmatchedPartialToken(%s,%s)" (ptoken_text a) (match b with Some p -> ptoken_text p | None -> "None")
  | M.EAdditionError (a, b) -> Printf.sprintf "AdditionError(%s,%s)" (v a) (v b)
  | M.ESubtractionError (a, b) -> Printf.sprintf "SubtractionError(%s,%s)" (v a) (v b)
  | M.ENegationError a -> "NegationError(" ^ v a ^ ")"
  | M.EMultiplicationError (a, b) -> Printf.sprintf "MultiplicationError(%s,%s)" (v a) (v b)
  | M.EDivisionError (a, b) -> Printf.sprintf "DivisionError(%s,%s)" (v a) (v b)
  | M.EModulationError (a, b) -> Printf.sprintf "ModulationError(%s,%s)" (v a) (v b)
  | M.EContextNotMutable -> "ContextNotMutable"
  | M.EIllegalEscapeSequence s -> "IllegalEscapeSequence(" ^ hex_of_str s ^ ")"
  | M.EBuiltinFunctionsCannotBeEnabled -> "BuiltinFunctionsCannotBeEnabled"
  | M.EBuiltinFunctionsCannotBeDisabled -> "BuiltinFunctionsCannotBeDisabled"
  | M.EOutOfBoundsAccess -> "OutOfBoundsAccess"
  | M.EIntFromUsize n -> "IntFromUsize(" ^ n_text n ^ ")"
  | M.EIntIntoUsize i -> "IntIntoUsize(" ^ Int64.to_string (u64_of_z i) ^ ")"
  | M.ECustomMessage s -> "CustomMessage(" ^ hex_of_str s ^ ")"

exception Model_panic of int

let outcome_text (f : 'a -> string) (r : 'a M.outcome) : string =
  match r with
  | M.Ok a -> let t = f a in if t = "" then "OK" else "OK " ^ t
  | M.Err e -> "ERR " ^ error_text e
  | M.Panic s -> raise (Model_panic (int_of_n s))

(* ---------- cases ---------- *)
let split_on c s = String.split_on_char c s

let parse_libfn (spec : string) : M.libfn =
  let kind, payload =
    match String.index_opt spec ':' with
    | Some i -> (String.sub spec 0 i, String.sub spec (i + 1) (String.length spec - i - 1))
    | None -> (spec, "")
  in
  match kind with
  | "id" -> M.LId
  | "konst" -> M.LKonst (parse_value payload)
  | "fail" -> M.LFail (str_of_hex payload)
  | "fst" -> M.LFst
  | "swap" -> M.LSwap
  | "notfound" -> M.LNotFound
  | "inc" -> M.LInc
  | _ -> failwith ("libfn " ^ spec)

let parse_entry (e : string) : M.entry =
  if e = "build" then M.EBuild
  else
    let l = match e.[0] with 's' -> M.LvString | 'n' -> M.LvNode | _ -> failwith "entry level" in
    let m = match e.[1] with 'f' -> M.MFree | 'r' -> M.MRo | 'm' -> M.MMut | _ -> failwith "entry mode" in
    let t =
      match e.[2] with
      | 'v' -> M.XValue | 's' -> M.XString | 'i' -> M.XInt | 'f' -> M.XFloat | 'n' -> M.XNumber
      | 'b' -> M.XBoolean | 't' -> M.XTuple | 'e' -> M.XEmpty | _ -> failwith "entry type"
    in
    M.EEval (l, m, t)

(* user functions that exist only in the two harnesses (closures, not constructors of Model.libfn):
   `needfloat` answers like a function written with Value::as_float *)
let custom_fn (spec : string) : (M.value -> M.value M.outcome) option =
  match spec with
  | "needfloat" -> Some (fun a -> match a with M.VFloat _ -> M.Ok a | _ -> M.Err (M.EExpectedFloat a))
  | "neednumber" -> Some (fun a -> match a with M.VFloat _ | M.VInt _ -> M.Ok a | _ -> M.Err (M.EExpectedNumber a))
  | _ -> None

type xop =
  | Plain of M.cop
  | SetCustom of M.str * (M.value -> M.value M.outcome)
  | Pre of M.str                      (* precompile and keep: the model keeps the source *)
  | Evp of string * bool              (* evaluate the kept tree: entry code without the level, keep the context? *)

let parse_op (op : string) : M.cop =
  match split_on ' ' op with
  | [ "set"; x; v ] -> M.CSet (str_of_hex x, parse_value v)
  | [ "init"; x; v ] -> M.CInit (str_of_hex x, parse_value v)
  | [ "setfn"; f; l ] -> M.CSetFn (str_of_hex f, parse_libfn l)
  | [ "off"; b ] -> M.COff (b = "1")
  | [ "clrv" ] -> M.CClrV
  | [ "clrf" ] -> M.CClrF
  | [ "clr" ] -> M.CClr
  | [ "clone" ] -> M.CClone
  | [ "ev"; e; src ] -> M.CEv (parse_entry e, str_of_hex src)
  | [ "ev"; e ] -> M.CEv (parse_entry e, [])
  | [ "evc"; e; src ] -> M.CEvc (parse_entry e, str_of_hex src)
  | [ "evc"; e ] -> M.CEvc (parse_entry e, [])
  | [ "get"; x ] -> M.CGet (str_of_hex x)
  | [ "get" ] -> M.CGet []
  | [ "call"; f; v ] -> M.CCall (str_of_hex f, parse_value v)
  | [ "dump" ] -> M.CDump
  | _ -> failwith ("bad op " ^ op)

let ctx_text (c : M.ctx) : string =
  let store = match c.M.c_kind with M.KHashMap | M.KNoStore -> true | _ -> false in
  let vars = if store then List.map (fun (k, v) -> (hex_of_str k, value_text v)) c.M.c_vars else [] in
  let vars = List.sort compare vars in
  let fns = if store then List.sort compare (List.map (fun (k, _) -> hex_of_str k) c.M.c_funs) else [] in
  Printf.sprintf "CTX{%s;off=%d;fns=%s}"
    (String.concat "," (List.map (fun (k, v) -> k ^ "=" ^ v) vars))
    (if M.are_builtin_functions_disabled c then 1 else 0)
    (String.concat "," fns)

let cout_text (o : M.cout) : string =
  match o with
  | M.OUnit r -> outcome_text (fun () -> "") r
  | M.OVal r -> outcome_text value_text r
  | M.OTree r -> outcome_text tree_text r
  | M.OGet (Some v) -> "SOME " ^ value_text v
  | M.OGet None -> "NONE"
  | M.ODump c -> ctx_text c
  | M.ONa -> "NA"

let kind_of_text k =
  match k with "H" -> M.KHashMap | "E" -> M.KEmpty | "EB" -> M.KEmptyBuiltin | "N" -> M.KNoStore | _ -> failwith "ctx kind"

(* EVX_WRAPPERS=1: `ev`/`evc` steps go through the entry points TRANSLATED from the source
   (Gen/Interface.v, run_entry_gen) instead of the projection specification (run_entry) *)
let use_wrappers = (try Sys.getenv "EVX_WRAPPERS" = "1" with Not_found -> false)

let parse_xop (op : string) : xop =
  match split_on ' ' op with
  | [ "setfn"; f; l ] ->
      (match custom_fn l with Some g -> SetCustom (str_of_hex f, g) | None -> Plain (parse_op op))
  | [ "pre"; src ] -> Pre (str_of_hex src)
  | [ "pre" ] -> Pre []
  | [ "evp"; code ] -> Evp (code, true)
  | [ "evpc"; code ] -> Evp (code, false)
  | _ -> Plain (parse_op op)

let step_custom (st : M.ctx * M.log) (f : M.str) (g : M.value -> M.value M.outcome) : (M.ctx * M.log) * M.cout =
  let c, lg = st in
  if M.has_store c then
    let r = M.set_function (M.as_hashmap c) f g in
    ((M.with_kind c.M.c_kind (M.ctx_or (M.as_hashmap c) r), lg), M.OUnit (M.unit_of r))
  else (st, M.ONa)

let step_wrapped (st : M.ctx * M.log) (op : M.cop) : (M.ctx * M.log) * M.cout =
  let c, lg = st in
  let mutable_kind = match c.M.c_kind with M.KHashMap | M.KNoStore -> true | _ -> false in
  match op with
  | M.CEv (M.EEval (l, m, t), src) | M.CEvc (M.EEval (l, m, t), src) ->
      let keep = (match op with M.CEv _ -> true | _ -> false) in
      if m = M.MMut && not mutable_kind then (st, M.ONa)
      else
        let (r, c'), lg' = M.run_entry_gen oracle l m t src c lg in
        if m = M.MMut then (((if keep then c' else c), lg'), M.OVal r) else ((c', lg'), M.OVal r)
  | _ -> M.step oracle st op

let run_script_stepwise st (ops : xop list) =
  let kept : M.str option ref = ref None in
  let plain st op = if use_wrappers then step_wrapped st op else M.step oracle st op in
  let one st op =
    match op with
    | SetCustom (f, g) -> step_custom st f g
    | Pre src ->
        kept := Some src;
        (st, M.OUnit (match M.build_operator_tree src with M.Ok _ -> M.Ok () | M.Err e -> M.Err e | M.Panic p -> M.Panic p))
    | Evp (code, keep) ->
        let src = (match !kept with Some s -> s | None -> failwith "evp without pre") in
        let e = parse_entry ("n" ^ code) in
        plain st (if keep then M.CEv (e, src) else M.CEvc (e, src))
    | Plain op -> plain st op in
  let st, outs = List.fold_left (fun (st, outs) op -> let st', o = one st op in (st', o :: outs)) (st, []) ops in
  (st, List.rev outs)

let run_script (kind : string) (ops : string) : string =
  let xops = if ops = "" then [] else List.map parse_xop (split_on ';' ops) in
  let plain = List.for_all (function Plain _ -> true | _ -> false) xops in
  let (c, lg), outs =
    if plain && not use_wrappers then
      M.run_script oracle (M.initial_ctx (kind_of_text kind), []) (List.map (function Plain o -> o | _ -> assert false) xops)
    else run_script_stepwise (M.initial_ctx (kind_of_text kind), []) xops in
  let outs = List.map cout_text outs in
  let log = List.map (fun (f, v) -> hex_of_str f ^ "(" ^ value_text v ^ ")") lg in
  Printf.sprintf "%s || %s LOG[%s]" (String.concat " | " outs) (ctx_text c) (String.concat "," log)

let cons_char ch = fun s -> n_of_int (Char.code ch) :: s

let run_iter (src : string) : string =
  match M.build_operator_tree (str_of_hex src) with
  | M.Err e -> "ERR " ^ error_text e
  | M.Panic s -> raise (Model_panic (int_of_n s))
  | M.Ok n ->
      let strs r = match r with M.Ok l -> String.concat "," (List.map hex_of_str l) | M.Err e -> "ERR " ^ error_text e | M.Panic s -> raise (Model_panic (int_of_n s)) in
      let a = strs (M.iter_identifiers n) and b = strs (M.iter_variable_identifiers n)
      and c = strs (M.iter_read_variable_identifiers n) and d = strs (M.iter_write_variable_identifiers n)
      and e = strs (M.iter_function_identifiers n) in
      let nodes = match M.iter_all n with M.Ok l -> String.concat "," (List.map (fun x -> op_text (M.nop x)) l) | M.Err er -> "ERR " ^ error_text er | M.Panic s -> raise (Model_panic (int_of_n s)) in
      let node_list = match M.iter_all n with M.Ok l -> List.map (fun x -> op_text (M.nop x)) l | _ -> [] in
      let rec drop k l = if k = 0 then l else match l with [] -> [] | _ :: t -> drop (k - 1) t in
      let others =
        String.concat " "
          (List.map
             (fun k ->
               let rest = drop k node_list in
               Printf.sprintf "k%d:%s|%d|%s|%s" k (String.concat "," node_list) (List.length rest)
                 (match List.rev rest with [] -> "-" | x :: _ -> x)
                 (String.concat "" (List.map (fun x -> x ^ ";") rest)))
             [ 0; 1; 2 ])
      in
      (* the mutable iterators run as the explicit-stack loop of Spec/IterMut.v (the model of OperatorIterMut) *)
      let loop sel g t = match M.iter_mut_idents sel g t with
        | M.Ok r -> r | M.Err er -> failwith ("iter_mut " ^ error_text er) | M.Panic s -> raise (Model_panic (int_of_n s)) in
      let seen sel = String.concat "," (List.map hex_of_str (fst (loop sel (fun x -> x) n))) in
      let opsm = match M.iter_mut_run (fun o -> o) n with
        | M.Ok (l, _) -> String.concat "," (List.map (fun (_, o) -> op_text o) l)
        | M.Err er -> "ERR " ^ error_text er | M.Panic s -> raise (Model_panic (int_of_n s)) in
      let am = seen M.ident_any and bm = seen M.ident_var and cm = seen M.ident_read and dm = seen M.ident_write and em = seen M.ident_fn in
      let n1 = snd (loop M.ident_read (cons_char 'r') n) in
      let n2 = snd (loop M.ident_write (cons_char 'w') n1) in
      let n3 = snd (loop M.ident_fn (cons_char 'f') n2) in
      let n4 = snd (loop M.ident_var (cons_char 'v') n3) in
      let n5 = snd (loop M.ident_any (cons_char 'i') n4) in
      (* other adaptors of Iterator: what they yield is determined by the sequence of items *)
      let lst r = match r with M.Ok l -> List.map hex_of_str l | _ -> [] in
      let ids_l = lst (M.iter_identifiers n) and vars_l = lst (M.iter_variable_identifiers n) and fns_l = lst (M.iter_function_identifiers n) in
      let opsm_l = match M.iter_mut_run (fun o -> o) n with M.Ok (l, _) -> List.map (fun (_, o) -> op_text o) l | _ -> [] in
      let idsm_l = List.map hex_of_str (fst (loop M.ident_any (fun x -> x) n)) in
      let varsm_l = List.map hex_of_str (fst (loop M.ident_var (fun x -> x) n)) in
      let fnsm_l = List.map hex_of_str (fst (loop M.ident_fn (fun x -> x) n)) in
      let readsm_l = List.map hex_of_str (fst (loop M.ident_read (fun x -> x) n)) in
      let nth l k = match List.nth_opt l k with Some x -> x | None -> "-" in
      let last l = match List.rev l with [] -> "-" | x :: _ -> x in
      let rec step2 l = match l with [] -> [] | [ x ] -> [ x ] | x :: _ :: t -> x :: step2 t in
      let cat = String.concat "," in
      let adapt =
        String.concat "|"
          [ "nth:" ^ cat (List.map (nth node_list) [ 0; 1; 2; 5 ]);
            "skipcnt:" ^ cat (List.map (fun k -> string_of_int (List.length (drop k node_list))) [ 0; 1; 3 ]);
            "step2:" ^ cat (step2 node_list);
            "idnth1:" ^ nth ids_l 1;
            "idskip1:" ^ cat (drop 1 ids_l);
            "idlast:" ^ last ids_l;
            "idcnt:" ^ string_of_int (List.length vars_l + (100 * List.length fns_l));
            "mfe:" ^ cat opsm_l;
            "mcnt:" ^ string_of_int (List.length opsm_l);
            "mlast:" ^ last opsm_l;
            "mfold:" ^ String.concat "" (List.map (fun x -> x ^ ";") opsm_l);
            "mnth1:" ^ nth opsm_l 1;
            "mskip2:" ^ cat (drop 2 opsm_l);
            "midfe:" ^ cat idsm_l;
            "midcnt:" ^ string_of_int (List.length varsm_l + (100 * List.length fnsm_l));
            "midlast:" ^ last idsm_l;
            "midnth1:" ^ nth readsm_l 1 ]
      in
      let free = (let (r, _), _ = M.eval_mut oracle n M.empty_hashmap [] in outcome_text value_text r) in
      let mid = String.concat ";" [ strs (M.iter_identifiers n1); strs (M.iter_variable_identifiers n1); strs (M.iter_read_variable_identifiers n1);
                                    strs (M.iter_write_variable_identifiers n1); strs (M.iter_function_identifiers n1) ] in
      let after = String.concat ";" [ strs (M.iter_identifiers n5); strs (M.iter_variable_identifiers n5); strs (M.iter_read_variable_identifiers n5);
                                      strs (M.iter_write_variable_identifiers n5); strs (M.iter_function_identifiers n5) ] in
      Printf.sprintf
        "OK ids[%s] vars[%s] reads[%s] writes[%s] fns[%s] nodes[%s] ops[%s] idsm[%s] varsm[%s] readsm[%s] writesm[%s] fnsm[%s] via<%s> adapt<%s> free<%s> mid<%s> after<%s> free2<%s> renamed%s"
        a b c d e nodes opsm am bm cm dm em others adapt free mid after
        (let (r, _), _ = M.eval_mut oracle n5 M.empty_hashmap [] in outcome_text value_text r)
        (tree_text n5)

let fmt_oracle : M.fmt_oracle =
  { M.fo_float_display = (fun x -> str_of_hex (oracle_ask ("fts " ^ float_hex x)));
    M.fo_float_debug = (fun x -> str_of_hex (oracle_ask ("fdbg " ^ float_hex x)));
    M.fo_str_debug = (fun s -> str_of_hex (oracle_ask ("sdbg " ^ hex_of_str s))) }

let s_of (x : string) : M.str = List.map n_of_int (decode_utf8 x)

let run_show (src : string) : string =
  let set c (k, v) = match M.set_value c (s_of k) v with M.Ok c' -> c' | _ -> c in
  let ctx =
    List.fold_left set M.empty_hashmap
      [ ("a", M.VInt (z_of_i64 3L)); ("b", M.VFloat (float_of_hex "4004000000000000")); ("c", M.VString (s_of "x\"y"));
        ("y", M.VTuple [ M.VInt (z_of_i64 1L); M.VFloat (float_of_hex "7e37e43c8800759c"); M.VString (s_of "\xc3\xa4\n"); M.VEmpty; M.VBool true ]) ]
  in
  let s = str_of_hex src in
  let tree =
    match M.build_operator_tree s with
    | M.Ok n -> "T:" ^ hex_of_str (M.node_fmt fmt_oracle n)
    | M.Err e -> "TE:" ^ hex_of_str (M.error_fmt fmt_oracle e)
    | M.Panic p -> raise (Model_panic (int_of_n p))
  in
  let res =
    match M.build_operator_tree s with
    | M.Err e -> "E:" ^ hex_of_str (M.error_fmt fmt_oracle e)
    | M.Panic p -> raise (Model_panic (int_of_n p))
    | M.Ok n -> (
        let (r, _), _ = M.eval_mut oracle n ctx [] in
        match r with
        | M.Ok v -> "V:" ^ hex_of_str (M.value_fmt fmt_oracle v) ^ " D:" ^ hex_of_str (M.value_debug fmt_oracle v)
        | M.Err e -> "E:" ^ hex_of_str (M.error_fmt fmt_oracle e)
        | M.Panic p -> raise (Model_panic (int_of_n p)))
  in
  tree ^ " " ^ res

(* ---- hand-built trees (text in the format of tree_text) ---- *)
let parse_tree_text (s : string) : M.node =
  let n = String.length s in
  let rec node i : M.node * int =
    assert (s.[i] = '(');
    let j = ref (i + 1) and depth = ref 0 in
    (try
       while !j < n do
         (match s.[!j] with
          | '(' -> incr depth
          | ')' when !depth > 0 -> decr depth
          | ')' | ' ' when !depth = 0 -> raise Exit
          | _ -> ());
         incr j
       done
     with Exit -> ());
    let opname = String.sub s (i + 1) (!j - i - 1) in
    let starts p = String.length opname >= String.length p && String.sub opname 0 (String.length p) = p in
    let after p = String.sub opname (String.length p) (String.length opname - String.length p) in
    let op =
      if starts "Const:" then M.OConst (parse_value (after "Const:"))
      else if starts "Write:" then M.OVariableIdentifierWrite (str_of_hex (after "Write:"))
      else if starts "Read:" then M.OVariableIdentifierRead (str_of_hex (after "Read:"))
      else if starts "Fn:" then M.OFunctionIdentifier (str_of_hex (after "Fn:"))
      else
        match opname with
        | "RootNode" -> M.ORootNode | "Add" -> M.OAdd | "Sub" -> M.OSub | "Neg" -> M.ONeg | "Mul" -> M.OMul | "Div" -> M.ODiv
        | "Mod" -> M.OMod | "Exp" -> M.OExp | "Eq" -> M.OEq | "Neq" -> M.ONeq | "Gt" -> M.OGt | "Lt" -> M.OLt | "Geq" -> M.OGeq
        | "Leq" -> M.OLeq | "And" -> M.OAnd | "Or" -> M.OOr | "Not" -> M.ONot | "Assign" -> M.OAssign | "AddAssign" -> M.OAddAssign
        | "SubAssign" -> M.OSubAssign | "MulAssign" -> M.OMulAssign | "DivAssign" -> M.ODivAssign | "ModAssign" -> M.OModAssign
        | "ExpAssign" -> M.OExpAssign | "AndAssign" -> M.OAndAssign | "OrAssign" -> M.OOrAssign | "Tuple" -> M.OTuple
        | "Chain" -> M.OChain | o -> failwith ("operator " ^ o)
    in
    let k = ref !j and children = ref [] in
    while s.[!k] <> ')' do
      assert (s.[!k] = ' ');
      let c, k' = node (!k + 1) in
      children := c :: !children;
      k := k'
    done;
    (M.Node (op, List.rev !children), !k + 1)
  in
  let t, k = node 0 in
  assert (k = n);
  t

let run_hand (text : string) : string =
  let n = parse_tree_text text in
  let set c (k, v) = match M.set_value c (s_of k) v with M.Ok c' -> c' | _ -> c in
  let ctx =
    List.fold_left set M.empty_hashmap
      [ ("a", M.VInt (z_of_i64 3L)); ("b", M.VFloat (float_of_hex "4004000000000000")); ("c", M.VString (s_of "xy"));
        ("x", M.VBool true); ("y", M.VTuple [ M.VInt (z_of_i64 1L); M.VInt (z_of_i64 2L) ]) ]
  in
  let setf c (k, l) = match M.set_function c (s_of k) (M.apply_libfn (s_of k) l) with M.Ok c' -> c' | _ -> c in
  let ctx = List.fold_left setf ctx [ ("f", M.LId); ("h", M.LFail (s_of "boom")) ] in
  let logtext lg = String.concat "," (List.map (fun (f, v) -> hex_of_str f ^ "(" ^ value_text v ^ ")") lg) in
  let ro, rolog = M.eval_ro oracle n ctx [] in
  let (mt, c2), mtlog = M.eval_mut oracle n ctx [] in
  let vars = List.map (fun (k, v) -> k ^ "=" ^ v) (List.sort compare (List.map (fun (k, v) -> (hex_of_str k, value_text v)) c2.M.c_vars)) in
  let nodes = match M.iter_all n with M.Ok l -> l | M.Err _ -> [] | M.Panic p -> raise (Model_panic (int_of_n p)) in
  let ops = String.concat "," (List.map (fun x -> op_text (M.nop x)) nodes) in
  let strs r = match r with M.Ok l -> String.concat "," (List.map hex_of_str l) | _ -> "?" in
  (* all 24 tree-level entry points on this tree, through the wrappers TRANSLATED from the source (C12_node_views) *)
  let views =
    List.concat_map
      (fun m ->
        List.map
          (fun t -> let (r, _), _ = M.run_node_entry_gen oracle m t n ctx [] in outcome_text value_text r)
          [ M.XValue; M.XString; M.XInt; M.XFloat; M.XNumber; M.XBoolean; M.XTuple; M.XEmpty ])
      [ M.MFree; M.MRo; M.MMut ] in
  Printf.sprintf "same=1 ro=%s rolog[%s] mut=%s vars{%s} mutlog[%s] nodes[%s] ops[%s] ids[%s] vids[%s] show=%s views[%s]"
    (outcome_text value_text ro) (logtext rolog) (outcome_text value_text mt) (String.concat "," vars) (logtext mtlog) ops ops
    (strs (M.iter_identifiers n)) (strs (M.iter_variable_identifiers n)) (hex_of_str (M.node_fmt fmt_oracle n))
    (String.concat "|" views)

(* 2^64 - 1 as a Coq N: n_of_int cannot take it on a 63-bit OCaml int *)
let usize_max : M.n = M.Npos (pos_of_u64 (-1L))

let run_val (text : string) : string =
  let v = parse_value text in
  let b x = if x then "1" else "0" in
  let r f o = outcome_text f o in
  let tuple l = value_text (M.VTuple l) in
  String.concat " "
    [ "is=" ^ b (M.is_string v) ^ b (M.is_int v) ^ b (M.is_float v) ^ b (M.is_number v) ^ b (M.is_boolean v) ^ b (M.is_tuple v) ^ b (M.is_empty v);
      "str=" ^ r (fun s -> value_text (M.VString s)) (M.as_string v);
      "int=" ^ r (fun i -> value_text (M.VInt i)) (M.as_int v);
      "float=" ^ r (fun f -> value_text (M.VFloat f)) (M.as_float v);
      "num=" ^ r (fun f -> value_text (M.VFloat f)) (M.as_number v);
      "bool=" ^ r (fun x -> value_text (M.VBool x)) (M.as_boolean v);
      "tup=" ^ r tuple (M.as_tuple v);
      "fix0=" ^ r tuple (M.as_fixed_len_tuple v (n_of_int 0));
      "fix2=" ^ r tuple (M.as_fixed_len_tuple v (n_of_int 2));
      "rng13=" ^ r tuple (M.as_ranged_len_tuple v (n_of_int 1) (n_of_int 3));
      "rng00=" ^ r tuple (M.as_ranged_len_tuple v (n_of_int 0) (n_of_int 0));
      "rng31=" ^ r tuple (M.as_ranged_len_tuple v (n_of_int 3) (n_of_int 1));
      "rngmax=" ^ r tuple (M.as_ranged_len_tuple v (n_of_int 0) usize_max);
      "rng25=" ^ r tuple (M.as_ranged_len_tuple v (n_of_int 2) (n_of_int 5));
      "fix1=" ^ r tuple (M.as_fixed_len_tuple v (n_of_int 1));
      "fix3=" ^ r tuple (M.as_fixed_len_tuple v (n_of_int 3));
      "fixmax=" ^ r tuple (M.as_fixed_len_tuple v usize_max);
      "empty=" ^ r (fun () -> "") (M.as_empty v);
      "strfrom=" ^ hex_of_str (M.str_from oracle v);
      "tfs=" ^ r (fun s -> value_text (M.VString s)) (M.try_from_string v);
      "tfb=" ^ r (fun x -> value_text (M.VBool x)) (M.try_from_bool v);
      "tft=" ^ r tuple (M.try_from_tuple v);
      "tfe=" ^ r (fun () -> "") (M.try_from_unit v);
      "type=" ^ type_text (M.type_of v);
      "eq=" ^ b (M.value_eqb v v) ]


(* ---- ERRSHOW: the same list of errors, in the same order, as errshow_list in harness/src/main.rs ---- *)
let errshow_list () : M.error list =
  let nan = M.f_of_bits (z_of_u64 0x7ff8000000000000L) and negzero = M.f_of_bits (z_of_u64 0x8000000000000000L)
  and f25 = M.f_of_bits (z_of_u64 0x4004000000000000L) in
  let vals =
    [ M.VInt (z_of_i64 (-3L)); M.VFloat f25; M.VString (s_of "a\"b"); M.VBool true; M.VEmpty;
      M.VTuple [ M.VInt (z_of_i64 1L); M.VTuple []; M.VString (s_of "x") ]; M.VFloat nan; M.VFloat negzero;
      M.VInt (z_of_i64 Int64.min_int) ] in
  let strs = [ ""; "x"; "a\"b\\c"; "\xc3\xa4\n\t"; "\x7f\x01\xc3\xa9" ] in
  let n = n_of_int in
  let v i = List.nth vals i in
  List.concat
    [ List.map (fun (e, a) -> M.EWrongOperatorArgumentAmount (e, n a)) [ (n 2, 0); (n 0, 1); (n 1, 2); (usize_max, 3) ];
      List.map (fun (lo, hi, a) -> M.EWrongFunctionArgumentAmount (n lo, hi, n a))
        [ (1, Some (n 1), 0); (2, Some (n 3), 1); (0, None, 5); (1, None, 0); (3, Some (n 1), 2) ];
      List.concat_map
        (fun x ->
          [ M.EExpectedString x; M.EExpectedInt x; M.EExpectedFloat x; M.EExpectedNumber x; M.EExpectedNumberOrString x;
            M.EExpectedBoolean x; M.EExpectedTuple x; M.EExpectedEmpty x; M.EExpectedFixedLengthTuple (n 2, x);
            M.EExpectedFixedLengthTuple (usize_max, x); M.EExpectedRangedLengthTuple (n 1, n 3, x); M.ENegationError x ])
        vals;
      [ M.EAppendedToLeafNode; M.EPrecedenceViolation ];
      List.concat_map
        (fun s ->
          [ M.EVariableIdentifierNotFound (s_of s); M.EFunctionIdentifierNotFound (s_of s); M.EIllegalEscapeSequence (s_of s);
            M.ECustomMessage (s_of s) ])
        strs;
      List.map (fun i -> M.ETypeError ([ M.TyString; M.TyInt ], v i)) [ 0; 1; 2 ];
      [ M.ETypeError ([], M.VEmpty);
        M.ETypeError ([ M.TyString; M.TyFloat; M.TyInt; M.TyBoolean; M.TyTuple; M.TyEmpty ], M.VInt M.Z0);
        M.EWrongTypeCombination (M.OAdd, [ M.TyInt; M.TyString ]);
        M.EWrongTypeCombination (M.OLt, [ M.TyBoolean; M.TyTuple ]);
        M.EWrongTypeCombination (M.OMod, []);
        M.EWrongTypeCombination (M.OExp, [ M.TyEmpty ]);
        M.EWrongTypeCombination (M.ONeg, [ M.TyFloat; M.TyFloat; M.TyFloat ]);
        M.EUnmatchedLBrace; M.EUnmatchedRBrace; M.EUnmatchedDoubleQuote; M.EMissingOperatorOutsideOfBrace; M.EContextNotMutable;
        M.EBuiltinFunctionsCannotBeEnabled; M.EBuiltinFunctionsCannotBeDisabled; M.EOutOfBoundsAccess ];
      List.concat_map
        (fun (a, b) ->
          [ M.EAdditionError (v a, v b); M.ESubtractionError (v a, v b); M.EMultiplicationError (v a, v b); M.EDivisionError (v a, v b);
            M.EModulationError (v a, v b) ])
        [ (0, 1); (8, 0); (6, 7) ];
      [ M.EIntFromUsize (n 0); M.EIntFromUsize (n 5); M.EIntFromUsize usize_max ];
      [ M.EIntIntoUsize (z_of_i64 (-1L)); M.EIntIntoUsize (z_of_i64 Int64.min_int); M.EIntIntoUsize (z_of_i64 7L) ] ]

let run_errshow (k : string) : string =
  match List.nth_opt (errshow_list ()) (int_of_string k) with
  | None -> "NA"
  | Some e -> "E:" ^ hex_of_str (M.error_fmt fmt_oracle e)

let run_case (line : string) : string =
  match split_on '\t' line with
  | id :: kind :: rest -> (
      let body =
        try
          match (kind, rest) with
          | "TOK", [ src ] -> outcome_text (fun ts -> "[" ^ String.concat "," (List.map token_text ts) ^ "]") (M.tokenize (str_of_hex src))
          | "TOK", [] -> outcome_text (fun ts -> "[" ^ String.concat "," (List.map token_text ts) ^ "]") (M.tokenize [])
          | "ERRSHOW", [ k ] -> run_errshow k
          | "TREE", [ src ] -> outcome_text tree_text (M.build_operator_tree (str_of_hex src))
          | "TREE", [] -> outcome_text tree_text (M.build_operator_tree [])
          | "SCRIPT", [ k; ops ] -> run_script k ops
          | "SCRIPT", [ k ] -> run_script k ""
          | "ITER", [ src ] -> run_iter src
          | "ITER", [] -> run_iter ""
          | "HAND", [ t ] -> run_hand t
          | "VAL", [ v ] -> run_val v
          | "SHOW", [ src ] -> run_show src
          | "SHOW", [] -> run_show ""
          | _ -> failwith ("bad case " ^ line)
        with Model_panic s -> "PANIC model-site-" ^ string_of_int s
      in
      id ^ "\t" ^ body)
  | _ -> failwith ("bad line " ^ line)

let () =
  let ic = if Array.length Sys.argv > 1 && Sys.argv.(1) <> "-" then open_in Sys.argv.(1) else stdin in
  let out = Buffer.create 65536 in
  (try
     while true do
       let line = input_line ic in
       if line <> "" then (
         Buffer.add_string out (run_case line);
         Buffer.add_char out '\n';
         if Buffer.length out > 60000 then (print_string (Buffer.contents out); Buffer.clear out))
     done
   with End_of_file -> ());
  print_string (Buffer.contents out)
