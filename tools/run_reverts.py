#!/usr/bin/env python3
"""Reverts each `fix:` commit of /repo in the working tree (git apply -R of that commit's own diff), runs the quick
check of every property the repair is recorded under in known_findings.json, records what was reported in
seeded/reverts.json, and undoes the revert (git checkout -- .).  A commit whose diff no longer applies in reverse on
its own (a later repair rewrote the same lines) is recorded as such."""
import json
import os
import re
import subprocess

ROOT = os.path.dirname(os.path.dirname(os.path.abspath(__file__)))
REPO = "/repo"


def sh(cmd, **kw):
    return subprocess.run(cmd, shell=True, capture_output=True, text=True, **kw)


def main():
    known = json.load(open(os.path.join(ROOT, "known_findings.json")))
    by_sha = {}
    for line in known["fixed"]:
        m = re.match(r"fixed: property=(C\d+) ([0-9a-f]{7}) (.*)", line)
        by_sha.setdefault(m.group(2), []).append((m.group(1), m.group(3)))
    assert sh("git -C %s status --porcelain" % REPO).stdout.strip() == "", "/repo is not clean"
    out = {}
    for sha, entries in by_sha.items():
        subject = sh("git -C %s log -1 --format=%%s %s" % (REPO, sha)).stdout.strip()
        patch = "/tmp/revert_%s.patch" % sha
        open(patch, "w").write(sh("git -C %s diff %s^ %s -- src" % (REPO, sha, sha)).stdout)
        chk = sh("git -C %s apply -R --check %s" % (REPO, patch))
        rec = {"commit": sha, "subject": subject, "what_failed": [e[1] for e in entries], "checks": {}}
        if chk.returncode != 0:
            rec["applies_alone"] = False
            rec["note"] = "the reverse of this commit no longer applies on its own: " + chk.stderr.strip().splitlines()[0][:200]
            out[sha] = rec
            print(sha, "does not apply in reverse on its own")
            continue
        rec["applies_alone"] = True
        sh("git -C %s apply -R %s" % (REPO, patch))
        try:
            for prop in sorted({e[0] for e in entries}):
                c = sh("python3 tools/vp.py check %s --tier quick" % prop, cwd=ROOT)
                lines = [l for l in c.stdout.splitlines() if l.startswith("VIOLATION")]
                why = ""
                if lines:
                    try:
                        rp = json.load(open(lines[0].split("replay=")[1].split()[0]))
                        why = (rp.get("why") or "")[:300]
                    except Exception:
                        pass
                rec["checks"][prop] = {"exit": c.returncode, "violation_line": lines[0] if lines else None, "why": why}
                print(sha, prop, "exit", c.returncode, (lines[0] if lines else "no violation line")[:110], "|", why[:140], flush=True)
        finally:
            sh("git -C %s checkout -- ." % REPO)
        out[sha] = rec
        os.remove(patch)
    json.dump(out, open(os.path.join(ROOT, "seeded", "reverts.json"), "w"), indent=1, sort_keys=True)


if __name__ == "__main__":
    main()
