#!/usr/bin/env python3
"""Writes the prompt for one more round of independent seeded-change proposals: notes/mutant<R>/<id>.txt.
The prompt holds the property text and one-line summaries of the changes already filed for it; nothing of /verif."""
import json
import os
import sys

ROOT = os.path.dirname(os.path.dirname(os.path.abspath(__file__)))


def main():
    rnd = sys.argv[1]
    first = int(sys.argv[2])          # number of the first new change, e.g. 7
    n = int(sys.argv[3]) if len(sys.argv) > 3 else 2
    os.makedirs(os.path.join(ROOT, "notes", "mutant" + rnd), exist_ok=True)
    for line in open(os.path.join(ROOT, "properties.jsonl")):
        p = json.loads(line)
        pid = p["id"]
        wt = "/tmp/wt%s-%s" % (rnd, pid)
        known = []
        for d in sorted(os.listdir(os.path.join(ROOT, "seeded"))):
            if d.startswith(pid + "_"):
                m = json.load(open(os.path.join(ROOT, "seeded", d, "meta.json")))
                known.append(" - " + " ".join(m["summary"].split())[:420])
        ks = ", ".join(str(first + i) for i in range(n))
        text = f"""You are helping to test a verification framework for the Rust crate `evalexpr` (expression evaluator: tokenizer, precedence-based operator-tree builder, tree-walking interpreter, typed variable contexts). You work ONLY inside your own scratch git worktree at {wt} (`cargo test --offline` there runs the crate's 58 tests + doctests; always pass --offline, there is no network). Do not read or touch anything outside {wt} (in particular not /verif or /repo). NEVER use `git stash` (it is shared between worktrees); to get back to the clean tree use `git -C {wt} checkout -- . && git -C {wt} clean -fd -e target -e out`, to undo a patch use `git apply -R`.

PROPERTY {pid}: {p['title']}
{p['statement']}
Scope: {p['quantifier']['text']}
Relevant files: {', '.join(p['anchors']['files'])}

TASK: produce {n} DIFFERENT realistic source changes ("seeded defects"), each of which BREAKS this property while the crate still compiles (also `cargo build --offline --features serde`) and ALL existing tests and doctests still pass. Think like a reviewer imagining plausible mistakes (refactoring slip, lost or weakened check, wrong comparison, off-by-one, copy-paste error, "optimisation", caching, a helper reused where it does not quite fit, a change in a module far from the obvious one that the property still depends on). Each defect must need something SPECIFIC to manifest -- a particular multi-step sequence of operations, an unusual input or value, a particular nesting / operator / type combination, a particular predecessor state, a particular entry point of the public API, or two cooperating sites that each look fine alone -- not ordinary use, and (unless the property is about panics) must not merely panic. Prefer few-line changes. The changes must be of different kinds and must be DIFFERENT FROM these already known seeded defects for this property (do not repeat them or close variants; look for other places in the code and other kinds of mistakes):
{chr(10).join(known)}
Each change is made independently from the clean tree.

For each change k = {ks} (numbering continues the existing ones): (1) start from the clean tree, make the change; (2) run `cargo test --offline` (all must pass; run it BEFORE adding your demo file) and `cargo build --offline --features serde`; (3) write a demonstration {wt}/tests/demo_{pid}_k.rs (integration test, public API only) that FAILS (or fails to compile) with the change and PASSES on the clean tree; verify both with `cargo test --offline --test demo_{pid}_k`; (4) `mkdir -p {wt}/out`; save `git -C {wt} diff -- src Cargo.toml > {wt}/out/{pid}_k.patch` (source change only, not the demo), copy the demo to {wt}/out/demo_{pid}_k.rs, write {wt}/out/{pid}_k.json with fields "property", "summary", "needs" (the specific input/sequence/state needed), "demo", "commands"; (5) restore the clean tree (keep out/). Finish with the clean tree restored and a short report listing the files in {wt}/out. Do not commit.
"""
        open(os.path.join(ROOT, "notes", "mutant" + rnd, pid + ".txt"), "w").write(text)
    print("written")


if __name__ == "__main__":
    main()
