#!/usr/bin/env python3
"""Case generators.  Every random choice comes from one random.Random(seed)."""
import random
import struct
import sys

sys.setrecursionlimit(100000)

from vplib import hexs

# ---------------------------------------------------------------------------------------------
# the edge-value pool P
# ---------------------------------------------------------------------------------------------
I64_MAX = 2 ** 63 - 1
I64_MIN = -2 ** 63

INTS = [0, 1, -1, 2, -2, 3, 5, 7, 10, 62, 63, 64, 65, -63, -64, -65, 127, 255, 256, 2 ** 31 - 1, 2 ** 31, -2 ** 31,
        2 ** 32, 2 ** 53 - 1, 2 ** 53, 2 ** 53 + 1, -(2 ** 53) - 1, 2 ** 62, 3037000499, 3037000500, -3037000500,
        I64_MAX, I64_MAX - 1, I64_MIN, I64_MIN + 1, 9007199254740993, 4611686018427387904, -4611686018427387905]


def fbits(x):
    return struct.unpack(">Q", struct.pack(">d", x))[0]


def bits_to_float(b):
    return struct.unpack(">d", struct.pack(">Q", b))[0]


FLOAT_BITS = sorted(set([
    0x0000000000000000, 0x8000000000000000,  # +-0
    0x0000000000000001, 0x8000000000000001, 0x000fffffffffffff,  # subnormals
    0x0010000000000000, 0x8010000000000000,  # MIN_POSITIVE
    0x7fefffffffffffff, 0xffefffffffffffff,  # +-MAX
    0x7ff0000000000000, 0xfff0000000000000,  # +-inf
    0x7ff8000000000000,  # NaN
    fbits(1.0), fbits(-1.0), fbits(0.5), fbits(-0.5), fbits(1.5), fbits(2.5), fbits(-2.5), fbits(3.5), fbits(0.1),
    fbits(0.2), fbits(0.3), fbits(2.0), fbits(3.0), fbits(10.0), fbits(-7.25), fbits(1e19), fbits(2e19), fbits(-1e19),
    fbits(-2e19), fbits(2.0 ** 53), fbits(2.0 ** 53 + 2), fbits(2.0 ** 63), fbits(-(2.0 ** 63)), fbits(2.0 ** 64),
    fbits(9007199254740992.0), fbits(0.49999999999999994), fbits(4503599627370496.5), fbits(1e308), fbits(1e-308),
    fbits(64.0), fbits(63.0), fbits(1e300), fbits(-1e300), fbits(123456.789),
]))

STRINGS = ["", "a", "b", "ab", "abc", "A", "ä", "äb", "bä", "€", "𝄞", "İ", "ß", "é", " a ", "　x ",
           "//", "/*", "*/", "\"", "\\", "\n", "1", "true", "Straße", "ǅ",
           "ΟΔΟΣ", "Σ", "ΑΣ ΑΣ", "Привет", "a b  c", "\ta\u00a0", "ﬁ", "ŉ"]

BOOLS = [True, False]


def vI(i):
    return "I%d" % i


def vF(bits):
    return "F%016x" % bits


def vS(s):
    return "S" + hexs(s)


def vB(b):
    return "B1" if b else "B0"


def vT(items):
    return "T(" + ",".join(items) + ")"


TUPLES = [vT([]), vT([vI(1)]), vT([vI(1), vI(2)]), vT([vI(1), vF(fbits(2.0)), vS("a")]), vT([vT([vI(1)]), "E"]),
          vT([vS("a"), vS("b")]), vT([vB(True), vB(False), vI(0)]), vT([vF(0x7ff8000000000000)]),
          # pairs that differ in one aspect only: Int / Float of the same number, the sign of a zero, order, length, nesting
          vT([vI(1), vF(fbits(2.0))]), vT([vI(2), vI(1)]), vT([vI(1), vI(2), "E"]), vT([vF(0)]), vT([vF(0x8000000000000000)]), vT([vI(0)]),
          vT([vT([vF(fbits(1.0))]), "E"]), vT([vT([vI(1)]), vT([])]), vT([vI(1), vS("2")])]


def pool():
    return ([vI(i) for i in INTS] + [vF(b) for b in FLOAT_BITS] + [vS(s) for s in STRINGS] + [vB(b) for b in BOOLS]
            + ["E"] + TUPLES)


def small_pool():
    return ([vI(i) for i in (0, 1, -1, 7, I64_MAX, I64_MIN)] + [vF(b) for b in (0, 0x8000000000000000, fbits(1.5), fbits(-2.5), 0x7ff0000000000000, 0x7ff8000000000000, fbits(1e19))]
            + [vS(s) for s in ("", "a", "äb")] + [vB(True), vB(False), "E", vT([]), vT([vI(1), vI(2)])])


def rand_int(r):
    k = r.random()
    if k < 0.3:
        return r.choice(INTS)
    if k < 0.6:
        return r.randint(-20, 20)
    if k < 0.8:
        return r.choice([I64_MAX, I64_MIN, 2 ** 62, -2 ** 62, 2 ** 32]) + r.randint(-3, 3) if r.random() < 0.5 else r.randint(I64_MIN, I64_MAX)
    return r.randint(-2 ** 40, 2 ** 40)


def clamp_i64(i):
    return max(I64_MIN, min(I64_MAX, i))


def rand_float_bits(r):
    k = r.random()
    if k < 0.35:
        return r.choice(FLOAT_BITS)
    if k < 0.6:
        return fbits(float(r.randint(-1000, 1000)) / r.choice([1, 2, 4, 8, 10, 3]))
    if k < 0.8:
        b = r.getrandbits(64)
        f = bits_to_float(b)
        return 0x7ff8000000000000 if f != f else b
    return fbits(r.choice(FLOAT_BITS and [bits_to_float(x) for x in FLOAT_BITS if bits_to_float(x) == bits_to_float(x)]) * r.choice([1.0, 2.0, 0.5, -1.0, 1.0000000000000002]))


def rand_string(r, maxlen=6):
    alphabet = "abAB01 _.:äß€𝄞İ\"\\/*+-\n\t　é"
    return "".join(r.choice(alphabet) for _ in range(r.randint(0, maxlen)))


def rand_value(r, depth=0):
    k = r.random()
    if k < 0.3:
        return vI(clamp_i64(rand_int(r)))
    if k < 0.55:
        return vF(rand_float_bits(r))
    if k < 0.7:
        return vS(rand_string(r))
    if k < 0.8:
        return vB(r.random() < 0.5)
    if k < 0.85 or depth >= 2:
        return "E"
    return vT([rand_value(r, depth + 1) for _ in range(r.randint(0, 3))])


# ---------------------------------------------------------------------------------------------
# script cases
# ---------------------------------------------------------------------------------------------
BINOPS = ["+", "-", "*", "/", "%", "^", "==", "!=", ">", "<", ">=", "<=", "&&", "||"]
UNOPS = ["-", "!"]
ASSIGNOPS = ["=", "+=", "-=", "*=", "/=", "%=", "^=", "&&=", "||="]


def script(kind, ops):
    return "SCRIPT\t%s\t%s" % (kind, ";".join(ops))


def op_case_vars(op, a, b=None):
    """operands bound as variables a, b in a HashMapContext; evaluated read-only"""
    ops = ["init %s %s" % (hexs("a"), a)]
    if b is not None:
        ops.append("init %s %s" % (hexs("b"), b))
        ops.append("ev srv %s" % hexs("a %s b" % op))
    else:
        ops.append("ev srv %s" % hexs("%s a" % op))
    return script("H", ops)


def literal_of(v):
    """source text of a value where expressible as a literal expression, else None"""
    t = v[0]
    if t == "I":
        i = int(v[1:])
        if i >= 0:
            return str(i)
        if i == I64_MIN:
            return "(-9223372036854775807 - 1)"
        return "(-%d)" % -i
    if t == "F":
        bits = int(v[1:], 16)
        f = bits_to_float(bits)
        if f != f or f in (float("inf"), float("-inf")):
            return None
        s = repr(abs(f))
        if "e" not in s and "." not in s:
            s += ".0"
        if "inf" in s or "nan" in s:
            return None
        if bits >> 63:
            return "(-%s)" % s
        return s
    if t == "S":
        s = bytes.fromhex(v[1:]).decode("utf-8")
        return '"' + s.replace("\\", "\\\\").replace('"', '\\"') + '"'
    if t == "B":
        return "true" if v == "B1" else "false"
    if t == "E":
        return "()"
    if t == "T":
        return None
    return None


def op_case_literals(op, a, b=None):
    la = literal_of(a)
    lb = literal_of(b) if b is not None else ""
    if la is None or lb is None:
        return None
    src = "%s %s %s" % (la, op, lb) if b is not None else "%s %s" % (op, la)
    return script("H", ["ev sfv %s" % hexs(src)])


def call_case(name, arg):
    """builtin `name` applied to the value arg (bound as x)"""
    return script("H", ["init %s %s" % (hexs("x"), arg), "ev srv %s" % hexs("%s(x)" % name)])


# ---------------------------------------------------------------------------------------------
# token sequences, character soup
# ---------------------------------------------------------------------------------------------
TOKEN_ALPHABET16 = ["1", "a", "+", "-", "*", "^", "!", "=", "+=", "(", ")", ",", ";", "==", "&&", "2.5"]
TOKEN_ALPHABET_FULL = ["1", "a", "b", "f", "2.5", "true", '"s"', "+", "-", "*", "/", "%", "^", "==", "!=", ">", "<", ">=",
                       "<=", "&&", "||", "!", "(", ")", "=", "+=", "-=", "*=", "/=", "%=", "^=", "&&=", "||=", ",", ";"]


def token_sequences_exhaustive(alphabet, maxlen):
    out = [[]]
    frontier = [[]]
    for _ in range(maxlen):
        frontier = [s + [t] for s in frontier for t in alphabet]
        out += frontier
    return out


def token_sequences_of_length(alphabet, n):
    """lazy: all sequences of exactly n tokens"""
    import itertools
    for t in itertools.product(alphabet, repeat=n):
        yield list(t)


def blocks(it, size=150000):
    buf = []
    for x in it:
        buf.append(x)
        if len(buf) >= size:
            yield buf
            buf = []
    if buf:
        yield buf


def token_sequences_random(r, n, maxlen=12, alphabet=None):
    alphabet = alphabet or TOKEN_ALPHABET_FULL
    return [[r.choice(alphabet) for _ in range(r.randint(1, maxlen))] for _ in range(n)]


SOUP = list("+-*/%^=!<>&|(),; \t\n\"\\/*aAeExX01239._:#") + ["ä", "€", "𝄞", "　", " ", " ", "\u0085", "inf", "nan",
                                                               "0x", "1e", "e-", "true", "false", "//", "/*", "*/", "&&", "||"]


def char_soup(r, n, maxlen=14):
    return ["".join(r.choice(SOUP) for _ in range(r.randint(0, maxlen))) for _ in range(n)]


def rand_unicode_string(r, maxlen=10):
    def ch():
        k = r.random()
        if k < 0.5:
            return chr(r.randint(32, 126))
        if k < 0.7:
            return r.choice('"\\/*\n\t ')
        if k < 0.85:
            return chr(r.choice([r.randint(0xA0, 0x7FF), r.randint(0x800, 0xD7FF), r.randint(0xE000, 0xFFFF)]))
        return chr(r.randint(0x10000, 0x10FFFF))
    return "".join(ch() for _ in range(r.randint(0, maxlen)))


# ---------------------------------------------------------------------------------------------
# expression ASTs: generation, required parentheses (the `ok` rule of Spec/Grammar.v), rendering,
# reference tree
# ---------------------------------------------------------------------------------------------
# AST nodes are tuples:
#   ("lit", text, valuetext) ("var", name) ("bin", op, l, r) ("pre", op, e) ("asg", op, name, e)
#   ("call", f, arg) ("paren", e_or_None_or_seq) ("tuple", [elems]) ("chain", [elems])   elem may be None (absent)
DOC_PREC = {"^": 120, "neg": 110, "!": 110, "*": 100, "/": 100, "%": 100, "+": 95, "-": 95,
            "<": 80, ">": 80, "<=": 80, ">=": 80, "==": 80, "!=": 80, "&&": 75, "||": 70,
            "=": 50, "+=": 50, "-=": 50, "*=": 50, "/=": 50, "%=": 50, "^=": 50, "&&=": 50, "||=": 50,
            "call": 190}
BIN_NAME = {"+": "Add", "-": "Sub", "*": "Mul", "/": "Div", "%": "Mod", "^": "Exp", "==": "Eq", "!=": "Neq", ">": "Gt",
            "<": "Lt", ">=": "Geq", "<=": "Leq", "&&": "And", "||": "Or"}
ASG_NAME = {"=": "Assign", "+=": "AddAssign", "-=": "SubAssign", "*=": "MulAssign", "/=": "DivAssign",
            "%=": "ModAssign", "^=": "ExpAssign", "&&=": "AndAssign", "||=": "OrAssign"}


def e_prec(e):
    k = e[0]
    if k in ("lit", "var", "paren"):
        return 200
    if k == "call":
        return 190
    if k == "pre":
        return 110
    if k == "bin":
        return DOC_PREC[e[1]]
    if k == "asg":
        return 50
    raise ValueError(k)


def e_rtl(e):
    return e[0] == "call" or (e[0] == "asg" and e[1] == "=")


def f_prec(f):
    return DOC_PREC[f]


def f_rtl(f):
    return f in ("=", "call")


def below_f(f, e):
    """frame operator f binds weaker than expression e's top construct"""
    return f_prec(f) < e_prec(e) or (f_prec(f) == e_prec(e) and f_rtl(f) and e_rtl(e))


def below_e(l, o):
    """expression l binds weaker than the binary operator o"""
    return e_prec(l) < DOC_PREC[o] or (e_prec(l) == DOC_PREC[o] and e_rtl(l) and f_rtl(o))


def e_key(e):
    return {"bin": lambda: e[1], "pre": lambda: "neg" if e[1] == "-" else "!", "asg": lambda: e[1], "call": lambda: "call"}[e[0]]()


def ok(F, e):
    k = e[0]
    if k in ("lit", "var"):
        return True
    if k == "paren":
        return e[1] is None or ok_seq(e[1])
    if k == "pre":
        return ok(F + [e_key(e)], e[2])
    if k == "call":
        return e[2][0] in ("lit", "var", "paren", "call") and ok(F + ["call"], e[2])
    if k == "bin":
        return ok(F, e[2]) and all(below_f(f, e) for f in F) and not below_e(e[2], e[1]) and ok(F + [e[1]], e[3])
    if k == "asg":
        return all(below_f(f, e) for f in F) and ok(F + [e[1]], e[3])
    return False


def ok_seq(s):
    if s[0] == "chain":
        return all(x is None or (ok_seq(x) if x[0] == "tuple" else ok([], x)) for x in s[1])
    if s[0] == "tuple":
        return all(x is None or ok([], x) for x in s[1])
    return ok([], s)


def parenthesize(e, F=None):
    """inserts exactly the parentheses the table requires"""
    F = F or []
    k = e[0]
    if k in ("lit", "var"):
        return e
    if k == "paren":
        return ("paren", None if e[1] is None else parenthesize_seq(e[1]))
    if k == "pre":
        return ("pre", e[1], parenthesize(e[2], F + [e_key(e)]))
    if k == "call":
        a = e[2]
        if a[0] not in ("lit", "var", "paren", "call"):
            a = ("paren", a)
        return ("call", e[1], parenthesize(a, F + ["call"]))
    if k == "bin":
        if not all(below_f(f, e) for f in F):
            return ("paren", parenthesize(e, []))
        l = parenthesize(e[2], F)
        if below_e(l, e[1]):
            l = ("paren", parenthesize(e[2], []))
        return ("bin", e[1], l, parenthesize(e[3], F + [e[1]]))
    if k == "asg":
        if not all(below_f(f, e) for f in F):
            return ("paren", parenthesize(e, []))
        return ("asg", e[1], e[2], parenthesize(e[3], F + [e[1]]))
    if k in ("tuple", "chain"):
        return ("paren", parenthesize_seq(e))
    raise ValueError(k)


def parenthesize_seq(s):
    if s[0] == "chain":
        return ("chain", [None if x is None else (parenthesize_seq(x) if x[0] == "tuple" else parenthesize(x)) for x in s[1]])
    if s[0] == "tuple":
        return ("tuple", [None if x is None else parenthesize(x) for x in s[1]])
    return parenthesize(s)


def flatten(e):
    """token texts, in order"""
    k = e[0]
    if k == "lit":
        return [e[1]]
    if k == "var":
        return [e[1]]
    if k == "paren":
        return ["("] + ([] if e[1] is None else flatten(e[1])) + [")"]
    if k == "pre":
        return [e[1]] + flatten(e[2])
    if k == "call":
        return [e[1]] + flatten(e[2])
    if k == "bin":
        return flatten(e[2]) + [e[1]] + flatten(e[3])
    if k == "asg":
        return [e[2], e[1]] + flatten(e[3])
    if k in ("tuple", "chain"):
        sep = "," if k == "tuple" else ";"
        out = []
        for i, x in enumerate(e[1]):
            if i:
                out.append(sep)
            if x is not None:
                out += flatten(x)
        return out
    raise ValueError(k)


def tree_of(e):
    """reference tree text of an expression (without the outermost RootNode)"""
    k = e[0]
    if k == "lit":
        return "(Const:%s)" % e[2]
    if k == "var":
        return "(Read:%s)" % hexs(e[1])
    if k == "paren":
        return "(RootNode)" if e[1] is None else "(RootNode %s)" % tree_of(e[1])
    if k == "pre":
        return "(%s %s)" % ("Neg" if e[1] == "-" else "Not", tree_of(e[2]))
    if k == "call":
        return "(Fn:%s %s)" % (hexs(e[1]), tree_of(e[2]))
    if k == "bin":
        return "(%s %s %s)" % (BIN_NAME[e[1]], tree_of(e[2]), tree_of(e[3]))
    if k == "asg":
        return "(%s (Write:%s) %s)" % (ASG_NAME[e[1]], hexs(e[2]), tree_of(e[3]))
    if k == "tuple":
        return "(Tuple %s)" % " ".join(elem_root(x) for x in e[1])
    if k == "chain":
        return "(Chain %s)" % " ".join(tree_of(x) if (x is not None and x[0] == "tuple") else elem_root(x) for x in e[1])
    raise ValueError(k)


def elem_root(x):
    return "(RootNode)" if x is None else "(RootNode %s)" % tree_of(x)


def tree_of_top(e):
    return "(RootNode %s)" % tree_of(e)


IDENTS = ["a", "b", "c", "x", "y", "foo", "_z", "a1"]
FUNCS = ["f", "g", "h", "min", "max", "len", "typeof", "str::from", "math::abs"]


def rand_lit(r):
    k = r.random()
    if k < 0.04:     # digit strings beyond the integer range are floats; hexadecimal integers; leading zeros
        txt, val = r.choice([("9223372036854775808", vF(fbits(2.0 ** 63))), ("18446744073709551616", vF(fbits(2.0 ** 64))), ("99999999999999999999", vF(fbits(1e20))),
                             ("0x10", vI(16)), ("0xfF", vI(255)), ("0x7fffffffffffffff", vI(I64_MAX)), ("007", vI(7)), ("9223372036854775807", vI(I64_MAX))])
        return ("lit", txt, val)
    if k < 0.45:
        i = r.choice([0, 1, 2, 3, 7, 10, 42, 255, 2 ** 31, I64_MAX]) if r.random() < 0.8 else r.randint(0, 10 ** 6)
        return ("lit", str(i), vI(i))
    if k < 0.65:
        f = r.choice([0.5, 1.5, 2.0, 2.5, 0.1, 10.0, 1e3, 1e-3, 123.456])
        txt = r.choice([repr(f), "%.3f" % f, ("%e" % f), ("%E" % f).replace("E+0", "E").replace("E-0", "E-")]) if r.random() < 0.5 else repr(f)
        try:
            val = float(txt)
        except ValueError:
            txt, val = repr(f), f
        return ("lit", txt, vF(fbits(val)))
    if k < 0.8:
        b = r.random() < 0.5
        return ("lit", "true" if b else "false", vB(b))
    s = r.choice(["", "a", "b c", "x+y", "//", "/* */", "ä€", "1", ";", ",", "(", ")", "((", "C:\\", "\\", "a\"", "/*", "*/"])
    return ("lit", '"' + s.replace("\\", "\\\\").replace('"', '\\"') + '"', vS(s))


def rand_expr(r, depth, allow_asg=True, allow_seq=True):
    if depth <= 0 or r.random() < 0.18:
        return rand_lit(r) if r.random() < 0.6 else ("var", r.choice(IDENTS))
    k = r.random()
    if k < 0.5:
        return ("bin", r.choice(BINOPS), rand_expr(r, depth - 1, allow_asg, allow_seq), rand_expr(r, depth - 1, allow_asg, allow_seq))
    if k < 0.62:
        return ("pre", r.choice(UNOPS), rand_expr(r, depth - 1, allow_asg, allow_seq))
    if k < 0.74:
        return ("call", r.choice(FUNCS), rand_expr(r, depth - 1, allow_asg, allow_seq))
    if k < 0.84 and allow_asg:
        return ("asg", r.choice(ASSIGNOPS), r.choice(IDENTS), rand_expr(r, depth - 1, allow_asg, allow_seq))
    if k < 0.92:
        if r.random() < 0.1:
            return ("paren", None)
        return ("paren", rand_expr(r, depth - 1, allow_asg, allow_seq))
    if allow_seq:
        return ("paren", rand_seq(r, depth - 1, allow_asg))
    return ("paren", rand_expr(r, depth - 1, allow_asg, allow_seq))


def rand_elem(r, depth, allow_asg):
    if r.random() < 0.12:
        return None
    return rand_expr(r, depth, allow_asg, True)


def seq_len(r):
    """mostly 2-4 elements, now and then up to 9"""
    return r.randint(2, 4) if r.random() < 0.9 else r.randint(5, 9)


def rand_seq(r, depth, allow_asg=True):
    k = r.random()
    if k < 0.4:
        return ("tuple", [rand_elem(r, depth, allow_asg) for _ in range(seq_len(r))])
    if k < 0.7:
        return ("chain", [rand_elem(r, depth, allow_asg) for _ in range(seq_len(r))])
    elems = []
    for _ in range(seq_len(r)):
        if r.random() < 0.5:
            elems.append(("tuple", [rand_elem(r, depth, allow_asg) for _ in range(r.randint(2, 3))]))
        else:
            elems.append(rand_elem(r, depth, allow_asg))
    return ("chain", elems)


def add_redundant_parens(r, e, p=0.15):
    """wraps random sub-expressions in redundant parentheses (the meaning of the tree does not change)"""
    if e is None:
        return None
    k = e[0]
    if k in ("tuple", "chain"):
        return (k, [add_redundant_parens(r, x, p) for x in e[1]])
    if k == "lit" or k == "var":
        out = e
    elif k == "paren":
        out = ("paren", add_redundant_parens(r, e[1], p))
    elif k == "pre":
        out = ("pre", e[1], add_redundant_parens(r, e[2], p))
    elif k == "call":
        out = ("call", e[1], add_redundant_parens(r, e[2], p))
    elif k == "bin":
        out = ("bin", e[1], add_redundant_parens(r, e[2], p), add_redundant_parens(r, e[3], p))
    else:
        out = ("asg", e[1], e[2], add_redundant_parens(r, e[3], p))
    if r.random() < p:
        out = ("paren", out)
    return out


# ---- separators (C07) ----
WHITESPACE = [0x9, 0xA, 0xB, 0xC, 0xD, 0x20, 0x85, 0xA0, 0x1680, 0x2000, 0x2001, 0x2002, 0x2003, 0x2004, 0x2005, 0x2006,
              0x2007, 0x2008, 0x2009, 0x200A, 0x2028, 0x2029, 0x202F, 0x205F, 0x3000]
WORD_START = None


def is_word(tok):
    return tok and tok[0] not in "+-*/%^=!<>&|(),;\"" 


def fuses(t1, t2):
    """would the two token texts fuse when written without a separator"""
    if is_word(t1) and is_word(t2):
        return True
    if t1 in ("+", "-", "*", "/", "%", "^", "=", "!", ">", "<", "&&", "||") and t2.startswith("="):
        return True
    if t1 == "/" and (t2.startswith("/") or t2.startswith("*")):
        return True
    if t1 in ("&", "|"):
        return True
    return False


def sci_risk(t1, t2, t3):
    """t1 t2 t3 written without separators would be read as one scientific literal (price-tax is not: the glued text is no number)"""
    if not (is_word(t1) and t2 in ("+", "-") and is_word(t3) and t1[-1:] in "eE"):
        return False
    try:
        float(t1 + t2 + t3)
        return True
    except ValueError:
        return False


def rand_separator(r, must, after_slash, comments=True):
    """a separator text; `must`: non-empty required"""
    items = []
    n = r.choice([0, 1, 1, 1, 2, 3]) if not must else r.choice([1, 1, 2, 3])
    for i in range(n):
        k = r.random()
        if k < 0.6 or not comments or (i == 0 and after_slash):
            items.append(chr(r.choice(WHITESPACE)) if r.random() < 0.5 else " ")
        elif k < 0.85:
            body = r.choice(["", "c", " x + 1 ", "*", "/", "**", "\"", "a*b", "//", "\n", "\r\n + 2", "* /", "/*", "***", " \n// x \n",
                            "é", " 日本語 ", "𝄞*", "ä/", "€ + 1", "\u00a0", "ααα βββ", "*é*", "\U0010ffff"])
            items.append("/*" + body + "*/")
        else:
            body = r.choice(["", " note", "/* x", "\"", "1 + 2", "\r + 9", "\r", " x \r y", "\t*/", "\u2028 + 1", "\x0b7", "\x0c", "\u0085 - 2", " // again",
                            " é", "日本", "𝄞 + 1", "ä*/"])
            items.append("//" + body + "\n")
    return "".join(items)


def render(tokens, r=None, style="space", comments=True):
    """joins token texts; style: space | tight (no separator where legal) | random"""
    if style == "space" or r is None:
        return " ".join(tokens)
    out = []
    for i, t in enumerate(tokens):
        if i:
            must = fuses(tokens[i - 1], t)
            if i + 1 < len(tokens) and sci_risk(tokens[i - 1], t, tokens[i + 1]):
                must = True
            if i >= 2 and sci_risk(tokens[i - 2], tokens[i - 1], t) and not out[-2]:
                must = True
            if style == "tight":
                sep = " " if must else ""
            else:
                sep = rand_separator(r, must, tokens[i - 1] == "/", comments)
            out.append(sep)
        out.append(t)
    return "".join(out)


# ---------------------------------------------------------------------------------------------
# hand-built trees (any shape reachable through Node::operator_mut / children_mut)
# ---------------------------------------------------------------------------------------------
PLAIN_OPS = ["RootNode", "Add", "Sub", "Neg", "Mul", "Div", "Mod", "Exp", "Eq", "Neq", "Gt", "Lt", "Geq", "Leq", "And", "Or", "Not",
             "Assign", "AddAssign", "SubAssign", "MulAssign", "DivAssign", "ModAssign", "ExpAssign", "AndAssign", "OrAssign",
             "Tuple", "Chain"]
OP_ARITY = {"RootNode": 1, "Neg": 1, "Not": 1, "Tuple": None, "Chain": None}
ASSIGN_OPS = {"Assign", "AddAssign", "SubAssign", "MulAssign", "DivAssign", "ModAssign", "ExpAssign", "AndAssign", "OrAssign"}


def hand_arity(op):
    if op.startswith("Const:") or op.startswith("Write:") or op.startswith("Read:"):
        return 0
    if op.startswith("Fn:"):
        return 1
    return OP_ARITY.get(op, 2)


def rand_hand_tree(r, depth):
    """returns (op, [children]) ; mostly arity-correct, sometimes not"""
    k = r.random()
    if depth <= 0 or k < 0.3:
        k2 = r.random()
        if k2 < 0.5:
            op = "Const:" + r.choice(small_pool())
        elif k2 < 0.75:
            op = "Read:" + hexs(r.choice(["a", "b", "c", "x", "y", "q"]))
        elif k2 < 0.85:
            op = "Write:" + hexs(r.choice(["a", "b", "x", "q", "z"]))
        else:
            op = r.choice(PLAIN_OPS)
    elif k < 0.4:
        op = "Fn:" + hexs(r.choice(["f", "h", "len", "min", "typeof", "str::from", "nosuch"]))
    else:
        op = r.choice(PLAIN_OPS)
    ar = hand_arity(op)
    if ar is None:
        n = r.randint(0, 3)
    elif r.random() < 0.88:
        n = ar
    else:
        n = r.randint(0, 3)
    if depth <= 0:
        n = min(n, 1) if ar != 0 or r.random() < 0.9 else n
    return (op, [rand_hand_tree(r, depth - 1) for _ in range(n)])


def hand_text(t):
    return "(" + " ".join([t[0]] + [hand_text(c) for c in t[1]]) + ")"


def hand_preorder(t):
    out = []
    for c in t[1]:
        out.append(c[0])
        out += hand_preorder(c)
    return out


def hand_has_assign(t):
    return t[0] in ASSIGN_OPS or any(hand_has_assign(c) for c in t[1])


def hand_bad_arity(t):
    ar = hand_arity(t[0])
    bad = False
    if t[0] == "RootNode":
        bad = False
    elif ar is not None and len(t[1]) != ar:
        bad = True
    elif t[0] == "Chain" and not t[1]:
        bad = True
    return bad or any(hand_bad_arity(c) for c in t[1])


def hand_roots_small(t):
    return (t[0] != "RootNode" or len(t[1]) <= 1) and all(hand_roots_small(c) for c in t[1])
