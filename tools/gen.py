#!/usr/bin/env python3
"""Case generators.  Every random choice comes from one random.Random(seed)."""
import random
import struct

from vplib import hexs

# ---------------------------------------------------------------------------------------------
# the edge-value pool P
# ---------------------------------------------------------------------------------------------
I64_MAX = 2 ** 63 - 1
I64_MIN = -2 ** 63

INTS = [0, 1, -1, 2, -2, 3, 5, 7, 10, 62, 63, 64, 65, -63, -64, -65, 127, 255, 256, 2 ** 31 - 1, 2 ** 31, -2 ** 31,
        2 ** 32, 2 ** 53 - 1, 2 ** 53, 2 ** 53 + 1, -(2 ** 53) - 1, 2 ** 62, 3037000499, 3037000500, -3037000500,
        I64_MAX, I64_MAX - 1, I64_MIN, I64_MIN + 1, 9007199254740993, 4611686018427387904, -4611686018427387905]


def fbits(x):
    return struct.unpack(">Q", struct.pack(">d", x))[0]


def bits_to_float(b):
    return struct.unpack(">d", struct.pack(">Q", b))[0]


FLOAT_BITS = sorted(set([
    0x0000000000000000, 0x8000000000000000,  # +-0
    0x0000000000000001, 0x8000000000000001, 0x000fffffffffffff,  # subnormals
    0x0010000000000000, 0x8010000000000000,  # MIN_POSITIVE
    0x7fefffffffffffff, 0xffefffffffffffff,  # +-MAX
    0x7ff0000000000000, 0xfff0000000000000,  # +-inf
    0x7ff8000000000000,  # NaN
    fbits(1.0), fbits(-1.0), fbits(0.5), fbits(-0.5), fbits(1.5), fbits(2.5), fbits(-2.5), fbits(3.5), fbits(0.1),
    fbits(0.2), fbits(0.3), fbits(2.0), fbits(3.0), fbits(10.0), fbits(-7.25), fbits(1e19), fbits(2e19), fbits(-1e19),
    fbits(-2e19), fbits(2.0 ** 53), fbits(2.0 ** 53 + 2), fbits(2.0 ** 63), fbits(-(2.0 ** 63)), fbits(2.0 ** 64),
    fbits(9007199254740992.0), fbits(0.49999999999999994), fbits(4503599627370496.5), fbits(1e308), fbits(1e-308),
    fbits(64.0), fbits(63.0), fbits(1e300), fbits(-1e300), fbits(123456.789),
]))

STRINGS = ["", "a", "b", "ab", "abc", "A", "ä", "äb", "bä", "€", "𝄞", "İ", "ß", "é", " a ", "　x ",
           "//", "/*", "*/", "\"", "\\", "\n", "1", "true", "Straße", "ǅ"]

BOOLS = [True, False]


def vI(i):
    return "I%d" % i


def vF(bits):
    return "F%016x" % bits


def vS(s):
    return "S" + hexs(s)


def vB(b):
    return "B1" if b else "B0"


def vT(items):
    return "T(" + ",".join(items) + ")"


TUPLES = [vT([]), vT([vI(1)]), vT([vI(1), vI(2)]), vT([vI(1), vF(fbits(2.0)), vS("a")]), vT([vT([vI(1)]), "E"]),
          vT([vS("a"), vS("b")]), vT([vB(True), vB(False), vI(0)]), vT([vF(0x7ff8000000000000)])]


def pool():
    return ([vI(i) for i in INTS] + [vF(b) for b in FLOAT_BITS] + [vS(s) for s in STRINGS] + [vB(b) for b in BOOLS]
            + ["E"] + TUPLES)


def small_pool():
    return ([vI(i) for i in (0, 1, -1, 7, I64_MAX, I64_MIN)] + [vF(b) for b in (0, 0x8000000000000000, fbits(1.5), fbits(-2.5), 0x7ff0000000000000, 0x7ff8000000000000, fbits(1e19))]
            + [vS(s) for s in ("", "a", "äb")] + [vB(True), vB(False), "E", vT([]), vT([vI(1), vI(2)])])


def rand_int(r):
    k = r.random()
    if k < 0.3:
        return r.choice(INTS)
    if k < 0.6:
        return r.randint(-20, 20)
    if k < 0.8:
        return r.choice([I64_MAX, I64_MIN, 2 ** 62, -2 ** 62, 2 ** 32]) + r.randint(-3, 3) if r.random() < 0.5 else r.randint(I64_MIN, I64_MAX)
    return r.randint(-2 ** 40, 2 ** 40)


def clamp_i64(i):
    return max(I64_MIN, min(I64_MAX, i))


def rand_float_bits(r):
    k = r.random()
    if k < 0.35:
        return r.choice(FLOAT_BITS)
    if k < 0.6:
        return fbits(float(r.randint(-1000, 1000)) / r.choice([1, 2, 4, 8, 10, 3]))
    if k < 0.8:
        b = r.getrandbits(64)
        f = bits_to_float(b)
        return 0x7ff8000000000000 if f != f else b
    return fbits(r.choice(FLOAT_BITS and [bits_to_float(x) for x in FLOAT_BITS if bits_to_float(x) == bits_to_float(x)]) * r.choice([1.0, 2.0, 0.5, -1.0, 1.0000000000000002]))


def rand_string(r, maxlen=6):
    alphabet = "abAB01 _.:äß€𝄞İ\"\\/*+-\n\t　é"
    return "".join(r.choice(alphabet) for _ in range(r.randint(0, maxlen)))


def rand_value(r, depth=0):
    k = r.random()
    if k < 0.3:
        return vI(clamp_i64(rand_int(r)))
    if k < 0.55:
        return vF(rand_float_bits(r))
    if k < 0.7:
        return vS(rand_string(r))
    if k < 0.8:
        return vB(r.random() < 0.5)
    if k < 0.85 or depth >= 2:
        return "E"
    return vT([rand_value(r, depth + 1) for _ in range(r.randint(0, 3))])


# ---------------------------------------------------------------------------------------------
# script cases
# ---------------------------------------------------------------------------------------------
BINOPS = ["+", "-", "*", "/", "%", "^", "==", "!=", ">", "<", ">=", "<=", "&&", "||"]
UNOPS = ["-", "!"]
ASSIGNOPS = ["=", "+=", "-=", "*=", "/=", "%=", "^=", "&&=", "||="]


def script(kind, ops):
    return "SCRIPT\t%s\t%s" % (kind, ";".join(ops))


def op_case_vars(op, a, b=None):
    """operands bound as variables a, b in a HashMapContext; evaluated read-only"""
    ops = ["init %s %s" % (hexs("a"), a)]
    if b is not None:
        ops.append("init %s %s" % (hexs("b"), b))
        ops.append("ev srv %s" % hexs("a %s b" % op))
    else:
        ops.append("ev srv %s" % hexs("%s a" % op))
    return script("H", ops)


def literal_of(v):
    """source text of a value where expressible as a literal expression, else None"""
    t = v[0]
    if t == "I":
        i = int(v[1:])
        if i >= 0:
            return str(i)
        if i == I64_MIN:
            return "(-9223372036854775807 - 1)"
        return "(-%d)" % -i
    if t == "F":
        bits = int(v[1:], 16)
        f = bits_to_float(bits)
        if f != f or f in (float("inf"), float("-inf")):
            return None
        s = repr(abs(f))
        if "e" not in s and "." not in s:
            s += ".0"
        if "inf" in s or "nan" in s:
            return None
        if bits >> 63:
            return "(-%s)" % s
        return s
    if t == "S":
        s = bytes.fromhex(v[1:]).decode("utf-8")
        return '"' + s.replace("\\", "\\\\").replace('"', '\\"') + '"'
    if t == "B":
        return "true" if v == "B1" else "false"
    if t == "E":
        return "()"
    if t == "T":
        return None
    return None


def op_case_literals(op, a, b=None):
    la = literal_of(a)
    lb = literal_of(b) if b is not None else ""
    if la is None or lb is None:
        return None
    src = "%s %s %s" % (la, op, lb) if b is not None else "%s %s" % (op, la)
    return script("H", ["ev sfv %s" % hexs(src)])


def call_case(name, arg):
    """builtin `name` applied to the value arg (bound as x)"""
    return script("H", ["init %s %s" % (hexs("x"), arg), "ev srv %s" % hexs("%s(x)" % name)])
