#!/usr/bin/env python3
"""Rewrites the table of seeded changes in DESIGN.md (section 11.6) from seeded/*/meta.json and seeded/results.json."""
import json
import os
import re

ROOT = os.path.dirname(os.path.dirname(os.path.abspath(__file__)))


def cell(s, n):
    return re.sub(r"\s+", " ", s).replace("|", "/")[:n]


def main():
    res = json.load(open(os.path.join(ROOT, "seeded", "results.json")))
    rows = ["| id | change | property | reported as | first line of the replay |", "|---|---|---|---|---|"]
    stats = {"failing input": 0, "no-failing-input-found": 0, "MISSED": 0}
    for sid in sorted(d for d in os.listdir(os.path.join(ROOT, "seeded")) if os.path.isdir(os.path.join(ROOT, "seeded", d))):
        meta = json.load(open(os.path.join(ROOT, "seeded", sid, "meta.json")))
        p = meta["property"]
        r = res.get(sid, {}).get(p)
        if r is None:
            how, why = "not run", ""
        elif not r["violation_line"]:
            how, why = "MISSED", ""
        else:
            how = "no-failing-input-found" if r["violation_line"].rstrip().endswith("no-failing-input-found") else "failing input"
            why = r["why"]
        stats[how] = stats.get(how, 0) + 1
        rows.append("| %s | %s | %s | %s | %s |" % (sid, cell(meta["summary"], 150), p, how, cell(why, 140)))
    path = os.path.join(ROOT, "DESIGN.md")
    text = open(path).read()
    start = text.index("| id | change | property | reported as |")
    end = text.index("\n\n", start)
    text = text[:start] + "\n".join(rows) + text[end:]
    open(path, "w").write(text)
    print(stats)


if __name__ == "__main__":
    main()
