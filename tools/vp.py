#!/usr/bin/env python3
"""vp.py setup | check <Cxx> [--tier quick|thorough] | replay <path>

A check of one property: rebuild the harness against /repo's working tree, regenerate the Coq tables
from it, rebuild the Coq development up to Props/<Cxx>.vo (the theorems), audit axioms, rebuild the
extracted model, run implementation and model on the property's cases, and -- when a proof obligation or
the correspondence breaks -- search for a concrete input on which the property itself fails."""
import hashlib
import json
import os
import random
import re
import sys
import time

sys.path.insert(0, os.path.dirname(os.path.abspath(__file__)))
import vplib as L  # noqa: E402
import props  # noqa: E402


def theorem_names(prop_file):
    text = L.strip_comments(open(os.path.join(L.COQ, prop_file)).read())
    return re.findall(r"^\s*(?:Theorem|Corollary)\s+([A-Za-z_][\w']*)", text, re.M)


def assumptions_of(pid, thms):
    """compiles a scratch file printing the assumptions of every theorem of Props/<pid>.v"""
    os.makedirs(L.WORK, exist_ok=True)
    src = os.path.join(L.WORK, "Assume_%s.v" % pid)
    with open(src, "w") as f:
        f.write("Require Import Props.%s.\n" % pid)
        for t in thms:
            f.write('Print Assumptions Props.%s.%s.\n' % (pid, t))
    args = ["coqc", "-q"]
    for d in ("Model", "Gen", "Spec", "Proofs", "Props", "Extract"):
        args += ["-Q", os.path.join(L.COQ, d), d]
    rc, out, err = L.sh(args + [src], timeout=600, cwd=L.WORK)
    blocks = L.parse_assumptions(out)
    if rc != 0 or len(blocks) != len(thms):
        return None, (err or out)[-1500:]
    return dict(zip(thms, blocks)), ""


def setup():
    t0 = time.time()
    with L.Lock():
        for profile in ("debug", "release"):
            ok, hooks, lg = L.ensure_harness(profile)
            if not ok:
                print(lg[-3000:])
                print("setup: harness build failed (%s)" % profile)
                return 1
        tb = L.gen_tables(hooks)
        if not tb["ok"]:
            print("setup: table generation failed:", tb["problems"])
            return 1
        props.generate_interface()
        r = L.coq_build(["all"], timeout=6000)
        if not r["ok"]:
            print(r["error"])
            print("setup: Coq build failed at", r["failing_file"])
            return 1
        ok, lg = L.build_driver()
        if not ok:
            print(lg)
            print("setup: driver build failed")
            return 1
        ok, hooks, lg = L.ensure_harness("debug", serde=True)
        if not ok:
            print("setup: note: harness with the serde feature does not build (C16 will report it)")
        ok, hooks, lg = L.ensure_harness("release", sendsync=True)
        if not ok:
            print("setup: note: harness with the Send + Sync assertions does not build (C15 will report it)")
    print("setup ok in %.0fs" % (time.time() - t0))
    return 0


def load_known():
    try:
        return json.load(open(os.path.join(L.ROOT, "known_findings.json")))
    except FileNotFoundError:
        return {"findings": [], "fixed": []}


def write_replay(pid, payload):
    os.makedirs(os.path.join(L.ROOT, "replays"), exist_ok=True)
    h = hashlib.sha256(json.dumps(payload, sort_keys=True).encode()).hexdigest()[:12]
    path = os.path.join(L.ROOT, "replays", "%s-%s.json" % (pid, h))
    with open(path, "w") as f:
        json.dump(payload, f, indent=1, sort_keys=True)
    return path


def check(pid, tier, seed):
    t0 = time.time()
    P = props.PROPS[pid]
    rng = random.Random(seed * 1000003 + int(pid[1:]))
    report = {"pid": pid, "tier": tier, "seed": seed, "notes": []}
    violations = []  # list of (payload, no_failing_input_found)
    with L.Lock():
        # 1. harness from /repo's working tree
        ok, hooks, lg = L.ensure_harness("debug")
        if not ok:
            report["notes"].append("harness does not build against /repo")
            path = write_replay(pid, {"property": pid, "kind": "build-failure", "what": "the harness does not compile against /repo's working tree", "log": lg[-4000:]})
            print("VIOLATION property=%s replay=%s no-failing-input-found" % (pid, path))
            L.write_evidence(pid, tier, seed, "proof", {"obligations": 1, "discharged": 0, "checker_cmd": "cargo build", "trusted_base": [], "explanation": "harness build failed"}, [], time.time() - t0, 1)
            return 1
        need_release = P.get("release", False)
        if need_release:
            okr, _, lgr = L.ensure_harness("release")
            if not okr:
                report["notes"].append("release harness does not build")
                need_release = False
        # 2. regenerated tables
        tb = L.gen_tables(hooks)
        report["tables_ok"] = tb["ok"]
        report["tables_problems"] = tb["problems"]
        iface = props.generate_interface()
        report["interface_translated"] = iface["ok"]
        report["notes"] += iface["problems"]
        # 3. Coq: model + extraction, then the theorems of this property
        audit = L.audit_sources()
        rmodel = L.coq_build(["Extract/Extract.vo"])
        rprops = L.coq_build(["Props/%s.vo" % pid]) if rmodel["ok"] else {"ok": False, "failing_file": rmodel["failing_file"], "error": rmodel["error"]}
        thms = theorem_names("Props/%s.v" % pid)
        assum, assum_err = (None, "")
        if rprops["ok"]:
            assum, assum_err = assumptions_of(pid, thms)
        # theorems shared by several properties (e.g. the IEEE-754 bridge), kept in their own Props file
        for extra in P.get("extra_props", []):
            rx = L.coq_build(["Props/%s.vo" % extra])
            if not rx["ok"]:
                rprops = {"ok": False, "failing_file": rx["failing_file"], "error": rx["error"]}
                continue
            xt = theorem_names("Props/%s.v" % extra)
            xa, xerr = assumptions_of(extra, xt)
            if xa is None:
                assum, assum_err = None, xerr
            elif assum is not None:
                assum.update({"%s.%s" % (extra, k): v for k, v in xa.items()})
            thms = thms + ["%s.%s" % (extra, t) for t in xt]
        bad_axioms = []
        if assum:
            for t, axs in assum.items():
                for a in axs:
                    if a not in L.ALLOWED_AXIOMS:
                        bad_axioms.append("%s depends on %s" % (t, a))
        # thorough tier: the independent checker re-checks the compiled theorems and everything they depend on
        coqchk = None
        if tier == "thorough" and rprops["ok"]:
            args = ["coqchk", "-o", "-silent"]
            for d in ("Model", "Gen", "Spec", "Proofs", "Props", "Extract"):
                args += ["-Q", os.path.join(L.COQ, d), d]
            rcc, outc, errc = L.sh(args + ["Props.%s" % pid] + ["Props.%s" % x for x in P.get("extra_props", [])], timeout=3000, cwd=L.COQ)
            text = outc + errc
            m = re.search(r"\* Axioms:(.*?)\n\s*\n\* Constants/Inductives relying on type-in-type:(.*?)\n", text, re.S)
            axl = [a.strip() for a in (m.group(1).split("\n") if m else []) if a.strip() and a.strip() != "<none>"]
            coqchk = {"exit": rcc, "axioms": axl, "type_in_type": (m.group(2).strip() if m else "?")}
            bad = [a for a in axl if not any(a.startswith("Coq.") and a.split(".")[-1] == al.split(".")[-1] for al in L.ALLOWED_AXIOMS)]
            if rcc != 0 or bad:
                bad_axioms.append("coqchk: exit %d, axioms outside the allowlist: %s" % (rcc, bad[:5]))
        proof_ok = rprops["ok"] and not audit and assum is not None and not bad_axioms and tb["ok"]
        report["proof_ok"] = proof_ok
        # 4. extracted model
        drv_ok, drv_log = (False, "model does not compile")
        if rmodel["ok"]:
            drv_ok, drv_log = L.build_driver()
        # 5. correspondence + 6. the property's own oracle, chunk by chunk (a generator may yield several chunks)
        gen = P["gen"](tier, rng)
        chunks = [gen] if isinstance(gen, list) else gen
        known = load_known()
        known_here = [k for k in known.get("findings", []) if k["property"] == pid]
        oracle = P.get("oracle")
        ncases = 0
        disagreements = []      # (caseline, impl, model, profile)   first 50
        ndis = 0
        oracle_fail = []        # (caseline, meta, profile, out, why, model_out)  first 200
        nfail = 0
        ierr, merr = [], []
        nontrivial = set()
        hist, kinds = {}, {}
        samples = []
        nt = P.get("nontrivial", props.default_nontrivial)
        for cases in chunks:
            lines = ["%d\t%s" % (i, c[0]) for i, c in enumerate(cases)]
            impl, e1 = L.run_impl(lines, "debug")
            ierr += e1
            impl_rel = {}
            if need_release:
                impl_rel, e2 = L.run_impl(lines, "release")
                ierr += e2
            mlines = [l for l, c in zip(lines, cases) if not c[1].get("impl_only")]
            if drv_ok:
                model, e3 = L.run_model(mlines, env_extra=P.get("model_env"))
                merr += e3
            else:
                model = {}
                merr = ["driver unavailable: " + drv_log[-300:]]
            for i, c in enumerate(cases):
                k = str(i)
                a = impl.get(k)
                m = model.get(k)
                cls = props.outcome_class(a or "")
                hist[cls] = hist.get(cls, 0) + 1
                kd = c[1].get("kind", c[0].split("\t")[0])
                kinds[kd] = kinds.get(kd, 0) + 1
                if nt(c, a or ""):
                    nontrivial.add(hash(c[0]))
                if c[1].get("impl_only"):
                    if a is None:
                        ndis += 1
                        if len(disagreements) < 50:
                            disagreements.append((c[0], a, m, "missing"))
                elif a is None or m is None:
                    ndis += 1
                    if len(disagreements) < 50:
                        disagreements.append((c[0], a, m, "missing"))
                elif not L.same_outcome(a, m):
                    ndis += 1
                    if len(disagreements) < 50:
                        disagreements.append((c[0], a, m, "debug"))
                elif need_release and not L.same_outcome(impl_rel.get(k, ""), m):
                    ndis += 1
                    if len(disagreements) < 50:
                        disagreements.append((c[0], impl_rel.get(k), m, "release"))
                if oracle and a is not None:
                    for prof, out in (("debug", a), ("release", impl_rel.get(k))):
                        if out is None:
                            continue
                        why = oracle(c, out, m)
                        if why:
                            nfail += 1
                            if len(oracle_fail) < 200:
                                oracle_fail.append((c[0], c[1], prof, out, why, m))
                            break
            if P.get("post"):
                for (i, why) in P["post"](cases, impl, model):
                    nfail += 1
                    if len(oracle_fail) < 200:
                        oracle_fail.append((cases[i][0], cases[i][1], "debug", impl.get(str(i), ""), why, model.get(str(i))))
            if len(samples) < 8:
                step = max(1, len(cases) // 4)
                samples += [{"case": c[0][:300], "impl": impl.get(str(i), "")[:300]} for i, c in list(enumerate(cases))[::step][:4]]
            ncases += len(cases)
            del impl, model, impl_rel, lines, mlines, cases
        corr_ok = drv_ok and not ndis and not ierr and not merr
        report["cases"] = ncases
        report["disagreements"] = ndis
        special = {"failures": [], "coverage": {}}
        if P.get("special"):
            special = P["special"](tier, rng, hooks)
        # 7. verdict
        real_fail = []
        for (cl, meta, prof, out, why, mo) in oracle_fail:
            if not props.match_known(known_here, (cl, meta), out):
                real_fail.append((cl, meta, prof, out, why, mo))
        kf_lines = props.replay_known(known_here, impl_runner=L.run_impl)
        for kfl in kf_lines:
            print(kfl)
        real_fail.sort(key=lambda f: len(f[0]))  # report the shortest failing case
        rc = 0
        if special["failures"] and not real_fail:
            sf = special["failures"][0]
            payload = {"property": pid, "kind": sf.get("kind", "failing-input"), "why": sf["why"], "detail": sf.get("detail"),
                       "case": sf.get("case"), "observed": sf.get("observed"), "more": len(special["failures"]) - 1}
            path = write_replay(pid, payload)
            print("VIOLATION property=%s replay=%s%s" % (pid, path, "" if sf.get("has_input", True) else " no-failing-input-found"))
            rc = 1
        elif real_fail:
            cl, meta, prof, out, why, mo = real_fail[0]
            payload = {"property": pid, "kind": "failing-input", "case": cl, "meta": meta, "profile": prof,
                       "observed": out, "model": mo, "why": why, "more": len(real_fail) - 1,
                       "how_to_replay": "python3 tools/vp.py replay <this file>"}
            path = write_replay(pid, payload)
            print("VIOLATION property=%s replay=%s" % (pid, path))
            rc = 1
        elif not proof_ok or not corr_ok:
            what = []
            if not rprops["ok"]:
                what.append("theorem file Props/%s.v no longer checks: %s" % (pid, rprops.get("failing_file")))
            if audit:
                what.append("source audit: " + "; ".join(audit[:5]))
            if bad_axioms:
                what.append("axioms outside the allowlist: " + "; ".join(bad_axioms[:5]))
            if rprops["ok"] and assum is None:
                what.append("Print Assumptions could not be evaluated: " + assum_err[-300:])
            if not tb["ok"]:
                what.append("tables could not be regenerated: " + "; ".join(tb["problems"]))
            if not drv_ok:
                what.append("extracted model unavailable: " + drv_log[-300:])
            if ierr or merr:
                what.append("runner errors: %s %s" % (ierr[:2], merr[:2]))
            if disagreements:
                what.append("correspondence: %d case(s) disagree, first: %s" % (ndis, disagreements[0][0][:300]))
            payload = {"property": pid, "kind": "obligation-broken", "what": what,
                       "theorems": thms, "coq_error": rprops.get("error", "")[-3000:],
                       "first_disagreements": [{"case": cl[:2000], "impl": a, "model": m, "profile": prof} for (cl, a, m, prof) in disagreements[:10]]}
            path = write_replay(pid, payload)
            print("VIOLATION property=%s replay=%s no-failing-input-found" % (pid, path))
            rc = 1
        # 8. evidence
        trusted = ["Coq 8.16.1 kernel (coqc, vm_compute; no native_compute)",
                   "axioms: " + (", ".join(sorted({a for axs in (assum or {}).values() for a in axs})) or "none (closed under the global context)"),
                   "table translator tools/vplib.py gen_tables + hooks verif::{operator_props,token_props,char_class,tokenize,partial_token_view}; wrapper translator tools/translate_interface.py",
                   "extraction ExtrOcamlBasic only (no Extract Constant / Extract Inductive of our own); OCaml 4.13.1; driver/driver.ml; harness canonical printer (rustc 1.81.0); std oracle (Rust 1.81 std)",
                   "tools/audit.py with the baselines tools/panic_sites.json and tools/arithmetic_sites.json (C01, C15); the Python verdict path of tools/vp.py, vplib.py, props.py"]
        cov = {"obligations": len(thms) + P.get("lemma_count", 0), "discharged": (len(thms) + P.get("lemma_count", 0)) if proof_ok else 0,
               "checker_cmd": "make -C coq Props/%s.vo (coqc 8.16.1) + Print Assumptions allowlist + Admitted/Axiom grep" % pid,
               "trusted_base": trusted,
               "theorems": thms,
               "assumptions_per_theorem": assum or {},
               "programs": ncases, "disagreements_checked": ncases, "disagreements": ndis, "oracle_failures": nfail,
               "evaluations": ncases * (2 if need_release else 1), "distinct_nontrivial": len(nontrivial),
               "rule": P.get("rule", ""),
               "outcome_histogram": hist,
               "case_kinds": kinds,
               "samples": samples[:8],
               "exhaustive": bool(P.get("exhaustive", False)),
               "coqchk": coqchk,
               "tables_regenerated": tb["ok"], "interface_translated": iface["ok"], "hooks": hooks,
               "profiles": ["debug"] + (["release"] if need_release else []),
               "known_findings_replayed": len(kf_lines),
               "notes": report["notes"]}
        if not proof_ok:
            # the schema wants discharged >= 1 for a proof-level claim: say plainly that nothing is discharged
            cov.pop("discharged", None)
            cov["proof_failed"] = True
        cov.update(special["coverage"])
        if P.get("explanation"):
            cov["explanation"] = P["explanation"]
        L.write_evidence(pid, tier, seed, P.get("level", "proof"), cov, P.get("assumptions", []), time.time() - t0, 1 if rc else 0)
    return rc


def corr(pid, tier, seed):
    """development aid: cases + implementation + model + oracle, no Coq build"""
    P = props.PROPS[pid]
    rng = random.Random(seed * 1000003 + int(pid[1:]))
    t0 = time.time()
    ok, hooks, lg = L.ensure_harness("debug")
    if not ok:
        print(lg[-2000:])
        return 2
    okd, dlog = L.build_driver()
    if not okd:
        print("driver does not build:", dlog[-2000:])
        return 2
    g = P["gen"](tier, rng)
    cases = g if isinstance(g, list) else [c for ch in g for c in ch]
    lines = ["%d\t%s" % (i, c[0]) for i, c in enumerate(cases)]
    impl, ierr = L.run_impl(lines, "debug")
    model, merr = L.run_model([l for l, c in zip(lines, cases) if not c[1].get("impl_only")], env_extra=P.get("model_env"))
    dis = [(i, impl.get(str(i)), model.get(str(i))) for i in range(len(cases)) if not cases[i][1].get("impl_only") and not L.same_outcome(impl.get(str(i), "?"), model.get(str(i), "??"))]
    if P.get("special"):
        sp = P["special"](tier, rng, hooks)
        print("special:", sp["coverage"], [f["why"][:300] for f in sp["failures"][:3]])
    fails = []
    if P.get("oracle"):
        for i, c in enumerate(cases):
            why = P["oracle"](c, impl.get(str(i), ""), model.get(str(i)))
            if why:
                fails.append((i, why))
    if P.get("post"):
        fails += P["post"](cases, impl, model)
    hist = {}
    for i in range(len(cases)):
        k = props.outcome_class(impl.get(str(i), ""))
        hist[k] = hist.get(k, 0) + 1
    print("cases", len(cases), "time %.1fs" % (time.time() - t0), "errors", ierr[:1], merr[:1])
    print("disagreements", len(dis), "oracle failures", len(fails))
    print("histogram", hist)
    for i, a, m in dis[:5]:
        print("DIS", cases[i][0][:300], "\n   impl ", (a or "")[:300], "\n   model", (m or "")[:300])
    for i, why in fails[:5]:
        print("FAIL", why[:600])
    return 1 if dis or fails else 0


def main():
    if len(sys.argv) < 2:
        print(__doc__)
        return 2
    cmd = sys.argv[1]
    if cmd == "setup":
        return setup()
    if cmd == "check":
        pid = sys.argv[2]
        tier = os.environ.get("VERIF_TIER", "quick")
        if "--tier" in sys.argv:
            tier = sys.argv[sys.argv.index("--tier") + 1]
        seed = int(os.environ.get("VERIF_SEED", "1"))
        try:
            return check(pid, tier, seed)
        except Exception:
            # the check itself failed while judging this tree (an output it cannot interpret, a build step that behaves
            # unexpectedly): the property is not shown to hold, and no failing input was produced
            import traceback
            tb = traceback.format_exc()
            sys.stderr.write(tb)
            path = write_replay(pid, {"property": pid, "kind": "obligation-broken", "has_input": False,
                                      "why": "the check could not be completed on this tree: " + tb.strip().splitlines()[-1][:300], "traceback": tb[-4000:]})
            print("VIOLATION property=%s replay=%s no-failing-input-found" % (pid, path))
            try:      # the evidence file of this run: nothing was covered
                P = props.PROPS[pid]
                L.write_evidence(pid, tier, seed, P.get("level", "proof"), {"obligations": 1, "proof_failed": True, "checker_crashed": tb.strip().splitlines()[-1][:300],
                                                                            "cases": 0, "distinct_cases": 0, "nontrivial_cases": 0}, P.get("assumptions", []), 0.0, 1)
            except Exception:
                pass
            return 1
    if cmd == "replay":
        return props.replay(sys.argv[2])
    if cmd == "corr":
        return corr(sys.argv[2], os.environ.get("VERIF_TIER", "quick"), int(os.environ.get("VERIF_SEED", "1")))
    print(__doc__)
    return 2


if __name__ == "__main__":
    sys.exit(main())
