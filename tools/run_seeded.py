#!/usr/bin/env python3
"""Applies every seeded change under seeded/<id>/ to /repo (git apply), runs the registered quick check of the
property it breaks (and optionally others), records what was reported, and undoes it (git checkout -- .).
usage: run_seeded.py [ids...] [--also C01,C03]"""
import json
import os
import subprocess
import sys
import time

ROOT = os.path.dirname(os.path.dirname(os.path.abspath(__file__)))
REPO = "/repo"


def sh(cmd, **kw):
    return subprocess.run(cmd, shell=True, capture_output=True, text=True, **kw)


def main():
    args = [a for a in sys.argv[1:] if not a.startswith("--")]
    also = []
    for a in sys.argv[1:]:
        if a.startswith("--also"):
            also = a.split("=", 1)[1].split(",") if "=" in a else sys.argv[sys.argv.index(a) + 1].split(",")
    ids = args or sorted(d for d in os.listdir(os.path.join(ROOT, "seeded")) if os.path.isdir(os.path.join(ROOT, "seeded", d)))
    results = {}
    try:
        results = json.load(open(os.path.join(ROOT, "seeded", "results.json")))
    except FileNotFoundError:
        pass
    assert sh("git -C %s status --porcelain" % REPO).stdout.strip() == "", "/repo is not clean"
    for sid in ids:
        meta = json.load(open(os.path.join(ROOT, "seeded", sid, "meta.json")))
        prop = meta["property"]
        patch = os.path.join(ROOT, "seeded", sid, "patch.diff")
        r = sh("git -C %s apply %s" % (REPO, patch))
        if r.returncode != 0:
            print(sid, "patch does not apply:", r.stderr[:200])
            continue
        try:
            for p in [prop] + [a for a in also if a != prop]:
                t0 = time.time()
                c = sh("python3 tools/vp.py check %s --tier quick" % p, cwd=ROOT)
                lines = [l for l in c.stdout.splitlines() if l.startswith("VIOLATION")]
                why = ""
                if lines:
                    path = lines[0].split("replay=")[1].split()[0]
                    try:
                        rp = json.load(open(path))
                        why = (rp.get("why") or "; ".join(rp.get("what", [])))[:300]
                    except Exception:
                        pass
                results.setdefault(sid, {})[p] = {"exit": c.returncode, "violation_line": lines[0] if lines else None,
                                                   "why": why, "seconds": round(time.time() - t0, 1)}
                print(sid, p, "exit", c.returncode, (lines[0] if lines else "no violation line")[:120], "|", why[:160], flush=True)
        finally:
            sh("git -C %s checkout -- ." % REPO)
        json.dump(results, open(os.path.join(ROOT, "seeded", "results.json"), "w"), indent=1, sort_keys=True)
    json.dump(results, open(os.path.join(ROOT, "seeded", "results.json"), "w"), indent=1, sort_keys=True)
    # restore generated files and the evidence of the unchanged tree (the runs above rewrote evidence/<id>.json with what
    # they saw on the changed trees)
    for p in sorted({json.load(open(os.path.join(ROOT, "seeded", sid, "meta.json")))["property"] for sid in ids} | {"C12"}):
        sh("python3 tools/vp.py check %s --tier quick" % p, cwd=ROOT)


if __name__ == "__main__":
    main()
