#!/bin/bash
# usage: seed_verify.sh <id> <patch> <demo.rs> <meta.json from the proposing agent>
# Confirms, in a scratch worktree, that the change applies, compiles (also with serde), passes the existing
# tests, and that the demonstration fails with the change and passes without it.  Then files it under seeded/<id>/.
set -u
ID=$1; PATCH=$2; DEMO=$3; META=$4
WT=/tmp/wt-verify-$ID
rm -rf $WT; git -C /repo worktree prune; git -C /repo worktree add -q --detach $WT HEAD || exit 2
cd $WT
R="{}"
git apply $PATCH || { echo "$ID: patch does not apply"; git -C /repo worktree remove --force $WT; exit 1; }
T1=$(cargo test --offline 2>&1 | grep -E "^test result" | awk '{p+=$4; f+=$6} END {print p" passed "f" failed"}')
B1=$(cargo build --offline --features serde 2>&1 | tail -1)
DN=$(basename $DEMO .rs)
cp $DEMO tests/$DN.rs
FEAT=""
case $ID in C16*) FEAT="--features serde";; esac
D1=$(cargo test --offline $FEAT --test $DN 2>&1 | grep -E "^test result|^error(\[E[0-9]+\])?:" | head -1)
git apply -R $PATCH
D0=$(cargo test --offline $FEAT --test $DN 2>&1 | grep -E "^test result" | head -1)
echo "$ID: with change: suite [$T1], serde build [$B1], demo [$D1]; without change: demo [$D0]"
OK=1
echo "$T1" | grep -q " 0 failed" || OK=0
echo "$D1" | grep -qE "FAILED|^error" || OK=0
echo "$D0" | grep -q "test result: ok" || OK=0
if [ $OK = 1 ]; then
  mkdir -p /verif/seeded/$ID
  cp $PATCH /verif/seeded/$ID/patch.diff
  cp $DEMO /verif/seeded/$ID/demo.rs
  python3 - "$ID" "$META" "$T1" "$D1" "$D0" <<'PY'
import json, sys
i, meta, t1, d1, d0 = sys.argv[1:6]
m = json.load(open(meta))
out = {"id": i, "property": m.get("property", i.split("_")[0]), "summary": m.get("summary"), "needs": m.get("needs"),
       "proposed_by": "independent sub-agent given only the property text and a scratch worktree",
       "confirmed": {"suite_with_change": t1, "demo_with_change": d1, "demo_without_change": d0,
                     "how": "tools/seed_verify.sh in a scratch worktree of /repo HEAD: git apply, cargo test --offline, cargo build --offline --features serde, cargo test --offline --test demo, git apply -R, demo again"}}
json.dump(out, open("/verif/seeded/%s/meta.json" % i, "w"), indent=1)
PY
  echo "$ID: CONFIRMED"
else
  echo "$ID: NOT CONFIRMED"
fi
cd /; git -C /repo worktree remove --force $WT
