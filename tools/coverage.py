#!/usr/bin/env python3
"""Measures which lines of /repo/src the correspondence cases of the quick tier execute (a measure of the
quality of the tie between model and implementation, not a check).  Builds the harness with
`-C instrument-coverage` on the nightly toolchain (harness-cov/), runs it on the quick cases of all
properties, and writes coverage/impl_coverage.json + coverage/uncovered.txt.
usage: python3 tools/coverage.py [C01 C02 ...]"""
import json
import os
import random
import subprocess
import sys

sys.path.insert(0, os.path.dirname(os.path.abspath(__file__)))
import vplib as L  # noqa: E402
import props  # noqa: E402

BIN = os.path.expanduser("~/.rustup/toolchains/nightly-x86_64-unknown-linux-gnu/lib/rustlib/x86_64-unknown-linux-gnu/bin")
COV = os.path.join(L.ROOT, "harness-cov")
OUT = os.path.join(L.ROOT, "coverage")


def main():
    pids = [a for a in sys.argv[1:]] or sorted(props.PROPS)
    env = dict(L.ENV)
    env["RUSTFLAGS"] = "-C instrument-coverage"
    r = subprocess.run(["cargo", "+nightly", "build", "--offline"], cwd=COV, env=env, capture_output=True, text=True)
    if r.returncode != 0:
        print(r.stderr[-2000:])
        return 1
    exe = os.path.join(COV, "target", "debug", "evx-harness")
    os.makedirs(OUT, exist_ok=True)
    prof = os.path.join(L.WORK, "cov")
    os.makedirs(prof, exist_ok=True)
    for f in os.listdir(prof):
        os.remove(os.path.join(prof, f))
    total = 0
    for pid in pids:
        rng = random.Random(1 * 1000003 + int(pid[1:]))
        g = props.PROPS[pid]["gen"]("quick", rng)
        cases = g if isinstance(g, list) else [c for ch in g for c in ch]
        lines = ["%d\t%s" % (i, c[0]) for i, c in enumerate(cases) if not c[0].startswith("SERDE")]
        total += len(lines)
        shards = 16
        procs = []
        for k in range(shards):
            path = os.path.join(prof, "%s.%d.cases" % (pid, k))
            open(path, "w").write("\n".join(lines[k::shards]) + "\n")
            e = dict(os.environ)
            e["LLVM_PROFILE_FILE"] = os.path.join(prof, "%s-%d.profraw" % (pid, k))
            procs.append(subprocess.Popen([exe, "run", path], stdout=subprocess.DEVNULL, stderr=subprocess.DEVNULL, env=e))
        for p in procs:
            p.wait()
    raws = [os.path.join(prof, f) for f in os.listdir(prof) if f.endswith(".profraw")]
    merged = os.path.join(prof, "merged.profdata")
    subprocess.run([os.path.join(BIN, "llvm-profdata"), "merge", "-sparse", "-o", merged] + raws, check=True)
    exp = subprocess.run([os.path.join(BIN, "llvm-cov"), "export", "-format=text", "-instr-profile=" + merged, exe,
                          "-ignore-filename-regex=(rustc|harness|registry)"], capture_output=True, text=True)
    data = json.loads(exp.stdout)
    summary = {}
    uncovered = []
    for f in data["data"][0]["files"]:
        name = f["filename"]
        if "/repo/src/" not in name:
            continue
        rel = name.split("/repo/")[1]
        ls = f["summary"]["lines"]
        summary[rel] = {"lines": ls["count"], "covered": ls["covered"], "percent": round(ls["percent"], 1),
                        "regions_percent": round(f["summary"]["regions"]["percent"], 1)}
        # uncovered line numbers from segments: (line, col, count, has_count, is_region_entry, is_gap)
        src = open(name).read().splitlines()
        zero = set()
        segs = f["segments"]
        for i, s in enumerate(segs):
            line, col, count, has_count = s[0], s[1], s[2], s[3]
            if has_count and count == 0 and s[4]:
                zero.add(line)
        for ln in sorted(zero):
            if ln - 1 < len(src):
                uncovered.append("%s:%d: %s" % (rel, ln, src[ln - 1].strip()[:110]))
    tot_l = sum(v["lines"] for v in summary.values())
    tot_c = sum(v["covered"] for v in summary.values())
    res = {"cases": total, "properties": pids, "files": summary,
           "total": {"lines": tot_l, "covered": tot_c, "percent": round(100.0 * tot_c / max(1, tot_l), 1)}}
    json.dump(res, open(os.path.join(OUT, "impl_coverage.json"), "w"), indent=1, sort_keys=True)
    open(os.path.join(OUT, "uncovered.txt"), "w").write("\n".join(uncovered) + "\n")
    print(json.dumps(res["total"]), len(uncovered), "uncovered region entries")
    for k, v in sorted(summary.items()):
        print("%-60s %5d lines %5.1f%%" % (k, v["lines"], v["percent"]))
    return 0


if __name__ == "__main__":
    sys.exit(main())
