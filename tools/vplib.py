#!/usr/bin/env python3
"""Infrastructure of the evalexpr verification framework: builds (harness, generated Coq tables,
Coq development, extracted OCaml driver), paired runs of implementation and model, evidence files."""
import fcntl
import hashlib
import json
import os
import re
import subprocess
import sys
import time

ROOT = os.path.dirname(os.path.dirname(os.path.abspath(__file__)))
REPO = os.environ.get("EVX_REPO", "/repo")
WORK = os.path.join(ROOT, "work")
COQ = os.path.join(ROOT, "coq")
DRIVER = os.path.join(ROOT, "driver")
HARNESS = os.path.join(ROOT, "harness")
NCPU = min(16, os.cpu_count() or 4)

ENV = dict(os.environ)
ENV.update({"CARGO_NET_OFFLINE": "true", "RUSTFLAGS": ENV.get("RUSTFLAGS", ""), "LC_ALL": "C"})


def log(*a):
    print("[vp]", *a, file=sys.stderr, flush=True)


def sh(cmd, timeout=1800, cwd=None, env=None, stdin=None):
    """run a command; returns (returncode, stdout, stderr); returncode 124 on timeout"""
    try:
        p = subprocess.run(cmd, cwd=cwd, env=env or ENV, input=stdin, capture_output=True, text=True,
                           timeout=timeout, shell=isinstance(cmd, str))
        return p.returncode, p.stdout, p.stderr
    except subprocess.TimeoutExpired as e:
        return 124, (e.stdout or b"").decode() if isinstance(e.stdout, bytes) else (e.stdout or ""), "TIMEOUT"


class Lock:
    def __enter__(self):
        os.makedirs(WORK, exist_ok=True)
        self.f = open(os.path.join(WORK, "lock"), "w")
        fcntl.flock(self.f, fcntl.LOCK_EX)
        return self

    def __exit__(self, *a):
        fcntl.flock(self.f, fcntl.LOCK_UN)
        self.f.close()


def hexs(s):
    return s.encode("utf-8").hex()


def unhex(h):
    return bytes.fromhex(h).decode("utf-8")


def write_if_changed(path, text):
    try:
        if open(path).read() == text:
            return False
    except FileNotFoundError:
        pass
    os.makedirs(os.path.dirname(path), exist_ok=True)
    with open(path, "w") as f:
        f.write(text)
    return True


# ---------------------------------------------------------------------------------------------
# harness
# ---------------------------------------------------------------------------------------------

def harness_bin(profile="debug", serde=False, sendsync=False):
    tdir = os.path.join(HARNESS, "target-serde" if serde else ("target-sendsync" if sendsync else "target"))
    return os.path.join(tdir, profile, "evx-harness")


def build_harness(profile="debug", serde=False, hooks=True, sendsync=False):
    """cargo build of the harness against /repo's working tree. returns (ok, log)"""
    # the lockfile is the repository's own (the locked registry is the only one available offline)
    try:
        lock = open(os.path.join(REPO, "Cargo.lock")).read()
        write_if_changed(os.path.join(HARNESS, "Cargo.lock.repo"), lock)
        if not os.path.exists(os.path.join(HARNESS, "Cargo.lock")):
            open(os.path.join(HARNESS, "Cargo.lock"), "w").write(lock)
    except FileNotFoundError:
        pass
    feats = []
    if hooks:
        feats.append("hooks")
    if serde:
        feats.append("serde")
    if sendsync:
        feats.append("sendsync")
    cmd = ["cargo", "build", "--offline", "--no-default-features"]
    if feats:
        cmd += ["--features", ",".join(feats)]
    if profile == "release":
        cmd.append("--release")
    cmd += ["--target-dir", "target-serde" if serde else ("target-sendsync" if sendsync else "target")]
    rc, out, err = sh(cmd, timeout=1200, cwd=HARNESS)
    if rc != 0 and "Cargo.lock" in err and "lock" in err:
        # lockfile needs the repo's; re-copy and retry once
        open(os.path.join(HARNESS, "Cargo.lock"), "w").write(open(os.path.join(REPO, "Cargo.lock")).read())
        rc, out, err = sh(cmd, timeout=1200, cwd=HARNESS)
    return rc == 0, err


def ensure_harness(profile="debug", serde=False, sendsync=False):
    """builds with hooks, falling back to a build without them. returns (ok, hooks_on, log)"""
    ok, lg = build_harness(profile, serde, hooks=True, sendsync=sendsync)
    if ok:
        return True, True, lg
    ok2, lg2 = build_harness(profile, serde, hooks=False, sendsync=sendsync)
    return ok2, False, lg + "\n---- without hooks ----\n" + lg2


# ---------------------------------------------------------------------------------------------
# generated Coq tables
# ---------------------------------------------------------------------------------------------
OPS = ["RootNode", "Add", "Sub", "Neg", "Mul", "Div", "Mod", "Exp", "Eq", "Neq", "Gt", "Lt", "Geq", "Leq", "And", "Or",
       "Not", "Assign", "AddAssign", "SubAssign", "MulAssign", "DivAssign", "ModAssign", "ExpAssign", "AndAssign",
       "OrAssign", "Tuple", "Chain", "Const", "VariableIdentifierWrite", "VariableIdentifierRead", "FunctionIdentifier"]
TOKS = ["Plus", "Minus", "Star", "Slash", "Percent", "Hat", "Eq", "Neq", "Gt", "Lt", "Geq", "Leq", "And", "Or", "Not",
        "LBrace", "RBrace", "Assign", "PlusAssign", "MinusAssign", "StarAssign", "SlashAssign", "PercentAssign",
        "HatAssign", "AndAssign", "OrAssign", "Comma", "Semicolon", "Identifier", "Float", "Int", "Boolean", "String"]
CCLASS = {"Plus": "CPlus", "Minus": "CMinus", "Star": "CStar", "Slash": "CSlash", "Percent": "CPercent", "Hat": "CHat",
          "Token(LBrace)": "CLBrace", "Token(RBrace)": "CRBrace", "Token(Comma)": "CComma",
          "Token(Semicolon)": "CSemicolon", "Eq": "CEq", "ExclamationMark": "CExclamationMark", "Gt": "CGt",
          "Lt": "CLt", "Ampersand": "CAmpersand", "VerticalBar": "CVerticalBar", "Whitespace": "CWhitespace",
          "Literal": "CLiteral"}

DOCUMENTED_BUILTINS = """math::ln math::log math::log2 math::log10 math::exp math::exp2 math::pow math::cos math::acos
math::cosh math::acosh math::sin math::asin math::sinh math::asinh math::tan math::atan math::tanh math::atanh math::atan2
math::sqrt math::cbrt math::hypot floor round ceil math::is_nan math::is_finite math::is_infinite math::is_normal
math::abs typeof min max if contains contains_any len str::to_lowercase str::to_uppercase str::trim str::from
str::substring bitand bitor bitxor bitnot shl shr""".split()
FEATURE_BUILTINS = ["str::regex_matches", "str::regex_replace", "random"]


def candidate_builtin_names():
    names = set(DOCUMENTED_BUILTINS) | set(FEATURE_BUILTINS)
    try:
        src = open(os.path.join(REPO, "src/function/builtin.rs")).read()
        names |= set(re.findall(r'"([A-Za-z_:0-9]+)"\s*=>', src))
    except FileNotFoundError:
        pass
    base = sorted(names)
    extra = set()
    for n in base:
        extra.add(n.upper())
        extra.add(n + "s")
        extra.add(n[:-1])
        if "::" in n:
            extra.add(n.split("::", 1)[1])
            extra.add(n.replace("::", ":"))
        else:
            extra.add("math::" + n)
            extra.add("str::" + n)
    extra |= {"abs", "sqrt", "pow", "log", "ln", "sin", "cos", "substring", "trim", "from", "to_lowercase", "print",
              "f", "g", "foo", "", "math::", "str::", "math::log1p", "math::floor", "math::round", "math::ceil",
              "math::min", "math::max", "minimum", "maximum", "length", "str::len", "bitshl", "bitshr", "shl2", "not",
              "and", "or", "xor", "math::atan3", "math::cot", "math::sec"}
    return sorted(n for n in (names | extra))


def coq_bool(b):
    return "true" if b else "false"


def gen_tables(hooks_on=True):
    """runs `harness dump` and writes coq/Gen/Tables.v and coq/Gen/BuiltinNames.v.
    returns dict(ok, changed, problems, tables)"""
    names = candidate_builtin_names()
    rc, out, err = sh([harness_bin("debug"), "dump"], stdin="\n".join(hexs(n) for n in names if n != "") + "\n",
                      timeout=300)
    res = {"ok": rc == 0, "problems": [], "changed": False, "tables": {}}
    if rc != 0:
        res["problems"].append("harness dump failed: " + err[-400:])
        return res
    ops, toks, cc, builtins = {}, {}, [], {}
    for line in out.splitlines():
        f = line.split("\t")
        if f[0] == "OP":
            ops[f[1]] = dict(prec=int(f[2]), ltr=f[3] == "1", seq=f[4] == "1", maxargs=None if f[5] == "None" else int(f[5]),
                             unary=f[6] == "1", leaf=f[7] == "1")
            if f[8] != "uniform":
                res["problems"].append("operator properties of %s depend on its payload" % f[1])
        elif f[0] == "TOKP":
            toks[f[1]] = dict(left=f[2] == "1", right=f[3] == "1", assign=f[4] == "1")
        elif f[0] == "CC":
            cc.append((int(f[1]), int(f[2]), f[3]))
        elif f[0] == "BUILTIN":
            builtins[unhex(f[1])] = f[2] == "1"
    res["tables"] = dict(ops=ops, toks=toks, cc=cc, builtins=builtins)
    if not hooks_on or not ops:
        res["problems"].append("hooks unavailable: tables cannot be regenerated from this tree")
        res["ok"] = False
        return res
    missing = [o for o in OPS if o not in ops] + [t for t in TOKS if t not in toks]
    if missing:
        res["problems"].append("dump lacks entries: %s" % missing)
        res["ok"] = False
        return res
    L = []
    L.append("(* GENERATED by tools/vplib.py from %s on every run (hooks verif::operator_props, verif::token_props," % REPO)
    L.append("   verif::char_class over all Unicode scalar values).  Do not edit. *)")
    L.append("Require Import Model.Base Model.Syntax.\n")
    L.append("Definition impl_char_class (c : N) : cclass :=")
    default = "CLiteral"
    for lo, hi, cls in cc:
        if cls not in CCLASS:
            res["problems"].append("unknown character class %s" % cls)
            res["ok"] = False
            return res
        if CCLASS[cls] == default:
            continue
        if lo == hi:
            L.append("  if (c =? %d)%%N then %s else" % (lo, CCLASS[cls]))
        else:
            L.append("  if ((%d <=? c) && (c <=? %d))%%N then %s else" % (lo, hi, CCLASS[cls]))
    L.append("  %s.\n" % default)

    def table(name, ty, dom, prefix, f):
        L.append("Definition %s (k : %s) : %s :=\n  match k with" % (name, dom, ty))
        for o in (OPS if dom == "op_kind" else TOKS):
            L.append("  | %s%s => %s" % (prefix, o, f(o)))
        L.append("  end.\n")

    table("impl_prec", "Z", "op_kind", "Q", lambda o: "(%d)" % ops[o]["prec"])
    table("impl_ltr", "bool", "op_kind", "Q", lambda o: coq_bool(ops[o]["ltr"]))
    table("impl_is_sequence", "bool", "op_kind", "Q", lambda o: coq_bool(ops[o]["seq"]))
    table("impl_max_args", "option N", "op_kind", "Q",
          lambda o: "None" if ops[o]["maxargs"] is None else "Some %d%%N" % ops[o]["maxargs"])
    table("impl_is_unary", "bool", "op_kind", "Q", lambda o: coq_bool(ops[o]["unary"]))
    table("impl_is_leaf", "bool", "op_kind", "Q", lambda o: coq_bool(ops[o]["leaf"]))
    table("impl_tok_leftsided", "bool", "tok_kind", "K", lambda t: coq_bool(toks[t]["left"]))
    table("impl_tok_rightsided", "bool", "tok_kind", "K", lambda t: coq_bool(toks[t]["right"]))
    table("impl_tok_assignment", "bool", "tok_kind", "K", lambda t: coq_bool(toks[t]["assign"]))
    changed = write_if_changed(os.path.join(COQ, "Gen/Tables.v"), "\n".join(L) + "\n")

    # builtin names: which of the probed candidate names the implementation resolves
    B = ["(* GENERATED by tools/vplib.py: the candidate builtin names that the implementation resolves,",
         "   probed through EmptyContextWithBuiltinFunctions (candidates: string literals of builtin.rs,",
         "   documented names, one-edit neighbours).  Do not edit. *)",
         "From Coq Require Import Strings.String List.", "Import ListNotations.", "Open Scope string_scope.\n",
         "Definition impl_builtin_names : list string :=", "  ["]
    present = sorted(n for n, b in builtins.items() if b)
    B.append(";\n".join('    "%s"' % n for n in present))
    B.append("  ].\n")
    B.append("Definition probed_absent_names : list string :=\n  [")
    absent = sorted(n for n, b in builtins.items() if not b and n and all(32 < ord(ch) < 127 and ch != '"' for ch in n))
    B.append(";\n".join('    "%s"' % n for n in absent))
    B.append("  ].")
    changed |= write_if_changed(os.path.join(COQ, "Gen/BuiltinNames.v"), "\n".join(B) + "\n")
    res["changed"] = changed
    return res


# ---------------------------------------------------------------------------------------------
# Coq build
# ---------------------------------------------------------------------------------------------
FORBIDDEN = re.compile(r"\b(Admitted|admit|Axiom|Axioms|Parameter|Parameters|Conjecture|Hypothesis|Hypotheses|Variable|Variables|give_up)\b|^\s*(?:Local\s+|Global\s+)?Context\b|^\s*Abort\b|Unset Guard|Unset Positivity|Unset Universe|bypass_check|Admit Obligations|type-in-type|impredicative-set")
ALLOWED_AXIOMS = {
    "ClassicalDedekindReals.sig_not_dec", "ClassicalDedekindReals.sig_forall_dec",
    "FunctionalExtensionality.functional_extensionality_dep", "Classical_Prop.classic",
}


def strip_comments(text):
    out, depth, i = [], 0, 0
    while i < len(text):
        if text.startswith("(*", i):
            depth += 1
            i += 2
        elif text.startswith("*)", i) and depth:
            depth -= 1
            i += 2
        else:
            if not depth:
                out.append(text[i])
            i += 1
    return "".join(out)


def audit_sources():
    """no Admitted/admit/Axiom/Parameter/... anywhere; Variable/Hypothesis only inside sections"""
    problems = []
    for d, _, files in os.walk(COQ):
        for fn in files:
            if not fn.endswith(".v"):
                continue
            p = os.path.join(d, fn)
            text = strip_comments(open(p).read())
            depth = 0
            for ln, line in enumerate(text.splitlines(), 1):
                if re.match(r"\s*Section\b", line):
                    depth += 1
                if re.match(r"\s*End\b", line) and depth:
                    depth -= 1
                for m in FORBIDDEN.finditer(line):
                    w = m.group(0).strip()
                    if w.split()[-1] in ("Variable", "Hypothesis", "Variables", "Hypotheses", "Context") and depth > 0:
                        continue
                    problems.append("%s:%d: %s" % (os.path.relpath(p, ROOT), ln, w))
    return problems


def coq_makefile():
    mk = os.path.join(COQ, "Makefile")
    cp = os.path.join(COQ, "_CoqProject")
    if not os.path.exists(mk) or os.path.getmtime(mk) < os.path.getmtime(cp):
        sh(["coq_makefile", "-f", "_CoqProject", "-o", "Makefile"], cwd=COQ)


def coq_build(targets, timeout=3000):
    """make the given .vo targets. returns dict(ok, failing_file, error, assumptions{thm: [axioms]}, out)"""
    coq_makefile()
    rc, out, err = sh(["make", "-j%d" % NCPU] + targets, timeout=timeout, cwd=COQ)
    res = {"ok": rc == 0, "failing_file": None, "error": "", "out": out}
    if rc != 0:
        m = re.search(r'File "\./([^"]+)", line (\d+)', err)
        if m:
            res["failing_file"] = m.group(1) + ":" + m.group(2)
        res["error"] = err[-3000:]
    return res


def print_assumptions(prop_file):
    """recompiles nothing: reads the Print Assumptions output captured at build time from the .out file"""
    p = os.path.join(COQ, prop_file.replace(".v", ".assumptions"))
    try:
        return open(p).read()
    except FileNotFoundError:
        return ""


def parse_assumptions(text):
    """splits coqc output of `Print Assumptions` commands into a list of axiom-name lists"""
    blocks = []
    cur = None
    for line in text.splitlines():
        if line.startswith("Closed under the global context"):
            blocks.append([])
            cur = None
        elif line.startswith("Axioms:"):
            cur = []
            blocks.append(cur)
        elif cur is not None:
            m = re.match(r"^([A-Za-z_][\w.']*)\s*(:|$)", line)
            if m:
                cur.append(m.group(1))
    return blocks


def build_driver():
    """extraction output (coq/model.ml) -> driver binary; rebuilt when model.ml or driver.ml changed"""
    src = os.path.join(COQ, "model.ml")
    if not os.path.exists(src):
        return False, "coq/model.ml missing (extraction did not run)"
    stamp = os.path.join(DRIVER, ".stamp")
    h = hashlib.sha256()
    for p in (src, os.path.join(COQ, "model.mli"), os.path.join(DRIVER, "driver.ml")):
        h.update(open(p, "rb").read())
    digest = h.hexdigest()
    binp = os.path.join(DRIVER, "driver")
    if os.path.exists(binp) and os.path.exists(stamp) and open(stamp).read() == digest:
        return True, "cached"
    for f in ("model.ml", "model.mli"):
        open(os.path.join(DRIVER, f), "w").write(open(os.path.join(COQ, f)).read())
    rc, out, err = sh(["ocamlfind", "ocamlopt", "-O2", "-package", "unix", "-linkpkg", "-w", "-a", "model.mli",
                       "model.ml", "driver.ml", "-o", "driver"], cwd=DRIVER, timeout=600)
    if rc == 0:
        open(stamp, "w").write(digest)
    return rc == 0, err[-2000:]


# ---------------------------------------------------------------------------------------------
# paired runs
# ---------------------------------------------------------------------------------------------

def _run_sharded(cmd_for_shard, lines, shards, tag, timeout, env=None, one_per_shard=False):
    os.makedirs(WORK, exist_ok=True)
    shards = max(1, min(shards, len(lines) if one_per_shard else (len(lines) + 199) // 200))
    parts = [lines[i::shards] for i in range(shards)]
    procs = []
    for i, part in enumerate(parts):
        path = os.path.join(WORK, "%s.%d.cases" % (tag, i))
        with open(path, "w") as f:
            f.write("\n".join(part) + "\n")
        outp = os.path.join(WORK, "%s.%d.out" % (tag, i))
        procs.append((subprocess.Popen(cmd_for_shard(path), stdout=open(outp, "w"), stderr=subprocess.PIPE,
                                       env=env or ENV), outp, path))
    res = {}
    errs = []
    deadline = time.time() + timeout
    for p, outp, path in procs:
        try:
            _, err = p.communicate(timeout=max(1, deadline - time.time()))
        except subprocess.TimeoutExpired:
            p.kill()
            errs.append("timeout")
            continue
        if p.returncode != 0:
            errs.append((err or b"").decode()[-500:])
        for line in open(outp):
            line = line.rstrip("\n")
            if "\t" in line:
                k, v = line.split("\t", 1)
                res[k] = v
        os.remove(outp)
        os.remove(path)
    return res, errs


def run_impl(lines, profile="debug", serde=False, timeout=900, tag="impl", shards=None):
    return _run_sharded(lambda p: [harness_bin(profile, serde), "run", p], lines, shards or NCPU, tag + profile, timeout,
                        one_per_shard=shards is not None)


def run_model(lines, timeout=900, tag="model", env_extra=None):
    env = dict(ENV)
    env["EVX_ORACLE"] = harness_bin("debug")
    env.update(env_extra or {})
    return _run_sharded(lambda p: [os.path.join(DRIVER, "driver"), p], lines, NCPU, tag, timeout, env=env)


def is_panic(s):
    return s.startswith("PANIC")


def same_outcome(a, b):
    if a == b:
        return True
    return is_panic(a) and is_panic(b)


# ---------------------------------------------------------------------------------------------
# evidence
# ---------------------------------------------------------------------------------------------

def write_evidence(pid, tier, seed, level, coverage, assumptions, wall, violations):
    os.makedirs(os.path.join(ROOT, "evidence"), exist_ok=True)
    ev = {"property_id": pid, "tier": tier, "seed": seed, "level": level, "coverage": coverage,
          "assumptions": assumptions, "wall_s": round(wall, 2), "violations": violations}
    with open(os.path.join(ROOT, "evidence", pid + ".json"), "w") as f:
        json.dump(ev, f, indent=1, sort_keys=True)
    return ev
