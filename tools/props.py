#!/usr/bin/env python3
"""Per-property configuration: case generators, the property's own oracle (evaluated on the
implementation's outputs: a test that supports the search for a failing input, never a proof),
known-finding matching, replay."""
import json
import math
import os
import re
import struct

import gen as G
import vplib as L
from vplib import hexs, unhex

# ---------------------------------------------------------------------------------------------
# generic helpers
# ---------------------------------------------------------------------------------------------
ARITH = ("AdditionError", "SubtractionError", "NegationError", "MultiplicationError", "DivisionError", "ModulationError")
TYPEERR = ("ExpectedString", "ExpectedInt", "ExpectedFloat", "ExpectedNumber", "ExpectedNumberOrString", "ExpectedBoolean",
           "ExpectedTuple", "ExpectedFixedLengthTuple", "ExpectedRangedLengthTuple", "ExpectedEmpty", "TypeError",
           "WrongTypeCombination")


def outcome_class(out):
    """coarse class of an outcome line body (of its last step for scripts)"""
    if out.startswith("PANIC"):
        return "panic"
    body = out.split(" || ")[0].split(" | ")[-1] if " || " in out else out
    if body.startswith("CTX{"):
        return "dump"
    if body.startswith("OK"):
        return "ok"
    if body.startswith("ERR "):
        name = re.match(r"ERR (\w+)", body).group(1)
        if name in ARITH:
            return "err-arith"
        if name in TYPEERR:
            return "err-type"
        return "err-" + name
    return body.split(" ")[0]


def step_outputs(out):
    """the per-step outputs of a SCRIPT outcome"""
    return out.split(" || ")[0].split(" | ")


def default_nontrivial(case, out):
    """non-trivial: not the plain OK of a single literal / empty input"""
    return len(case[0]) > 30 or not out.startswith("OK")


def kind_histogram(cases):
    h = {}
    for c in cases:
        k = c[1].get("kind", c[0].split("\t")[0])
        h[k] = h.get(k, 0) + 1
    return h


def match_known(known, case, out):
    for k in known:
        pat = k.get("match_case_regex")
        if pat and re.search(pat, case[0] + " ## " + json.dumps(case[1], sort_keys=True)):
            return k
    return None


def replay_known(known, impl_runner):
    """replays the listed witnesses of known findings; one KNOWN-FINDING line per witness that still fails"""
    lines = []
    for k in known:
        cases = ["%d\t%s" % (i, w["case"]) for i, w in enumerate(k.get("witnesses", []))]
        if not cases:
            continue
        outs, _ = impl_runner(cases, "debug", tag="known")
        for i, w in enumerate(k["witnesses"]):
            got = outs.get(str(i), "")
            if re.search(w["fails_if_regex"], got):
                lines.append("KNOWN-FINDING: property=%s %s (witness: %s)" % (k["property"], k["what"], w["note"]))
    return lines


def replay(path):
    payload = json.load(open(path))
    case = payload.get("case")
    if not case:
        print(json.dumps(payload, indent=1)[:4000])
        return 0
    outs, errs = L.run_impl(["0\t" + case], "debug", tag="replay")
    mouts, merrs = L.run_model(["0\t" + case], tag="replaym")
    print("case     :", case)
    print("impl     :", outs.get("0"))
    print("model    :", mouts.get("0"))
    print("recorded :", payload.get("observed"))
    print("why      :", payload.get("why"))
    return 0


def generate_interface():
    try:
        import translate_interface
        return translate_interface.generate()
    except ImportError:
        return {"ok": True, "problems": []}


# ---------------------------------------------------------------------------------------------
# value text <-> python
# ---------------------------------------------------------------------------------------------
NAN = 0x7ff8000000000000


def parse_value(s):
    v, rest = _pv(s)
    assert rest == "", s
    return v


def _pv(s):
    t = s[0]
    if t in "IFS":
        m = re.match(r"[^,)]*", s[1:])
        body = m.group(0)
        rest = s[1 + len(body):]
        if t == "I":
            return ("I", int(body)), rest
        if t == "F":
            return ("F", int(body, 16)), rest
        return ("S", unhex(body)), rest
    if t == "B":
        return ("B", s[1] == "1"), s[2:]
    if t == "E":
        return ("E", None), s[1:]
    if t == "T":
        rest = s[2:]
        items = []
        if rest.startswith(")"):
            return ("T", items), rest[1:]
        while True:
            v, rest = _pv(rest)
            items.append(v)
            if rest.startswith(","):
                rest = rest[1:]
            else:
                return ("T", items), rest[1:]
    raise ValueError(s)


def value_text(v):
    t, x = v
    if t == "I":
        return "I%d" % x
    if t == "F":
        return "F%016x" % x
    if t == "S":
        return "S" + hexs(x)
    if t == "B":
        return "B1" if x else "B0"
    if t == "E":
        return "E"
    return "T(" + ",".join(value_text(i) for i in x) + ")"


def to_f(v):
    t, x = v
    if t == "I":
        return float(x)
    return G.bits_to_float(x)


def f_bits(f):
    return NAN if f != f else G.fbits(f)


# ---------------------------------------------------------------------------------------------
# C03: reference table for operators (python ints are exact, python floats are IEEE doubles)
# ---------------------------------------------------------------------------------------------

def veq(a, b):
    if a[0] != b[0]:
        return False
    t = a[0]
    if t == "F":
        return G.bits_to_float(a[1]) == G.bits_to_float(b[1])
    if t == "T":
        return len(a[1]) == len(b[1]) and all(veq(x, y) for x, y in zip(a[1], b[1]))
    return a[1] == b[1]


def trunc_div(a, b):
    q = abs(a) // abs(b)
    return q if (a >= 0) == (b >= 0) else -q


def c03_reference(op, a, b):
    """returns a set of allowed classes: 'arith', 'type', or ('val', text); None = not constrained (^)"""
    num = lambda v: v[0] in "IF"
    if b is None:
        if op == "-":
            if a[0] == "I":
                return {("val", "I%d" % -a[1])} if -a[1] <= G.I64_MAX else {"arith"}
            if a[0] == "F":
                return {("val", "F%016x" % (a[1] ^ (1 << 63) if a[1] != NAN else NAN))}
            return {"type"}
        if op == "!":
            return {("val", "B%d" % (not a[1]))} if a[0] == "B" else {"type"}
    if op in ("==", "!="):
        r = veq(a, b)
        return {("val", "B%d" % (r if op == "==" else not r))}
    if op in ("&&", "||"):
        if a[0] == "B" and b[0] == "B":
            return {("val", "B%d" % ((a[1] and b[1]) if op == "&&" else (a[1] or b[1])))}
        return {"type"}
    if op in (">", "<", ">=", "<="):
        import operator as O
        f = {">": O.gt, "<": O.lt, ">=": O.ge, "<=": O.le}[op]
        if a[0] == "S" and b[0] == "S":
            return {("val", "B%d" % f(a[1].encode(), b[1].encode()))}
        if a[0] == "I" and b[0] == "I":
            return {("val", "B%d" % f(a[1], b[1]))}
        if num(a) and num(b):
            return {("val", "B%d" % f(to_f(a), to_f(b)))}
        return {"type"}
    if op == "+" and a[0] == "S" and b[0] == "S":
        return {("val", "S" + hexs(a[1] + b[1]))}
    if op in ("+", "-", "*", "/", "%", "^"):
        if not (num(a) and num(b)):
            return {"type"}
        if op == "^":
            return None
        if a[0] == "I" and b[0] == "I":
            x, y = a[1], b[1]
            if op in ("/", "%") and y == 0:
                return {"arith"}
            r = {"+": lambda: x + y, "-": lambda: x - y, "*": lambda: x * y, "/": lambda: trunc_div(x, y),
                 "%": lambda: x - y * trunc_div(x, y)}[op]()
            if op == "%" and x == G.I64_MIN and y == -1:
                return {"arith", ("val", "I0")}
            return {("val", "I%d" % r)} if G.I64_MIN <= r <= G.I64_MAX else {"arith"}
        x, y = to_f(a), to_f(b)
        try:
            if op == "+":
                r = x + y
            elif op == "-":
                r = x - y
            elif op == "*":
                r = x * y
            elif op == "/":
                if y == 0.0:
                    if x != x or x == 0.0:
                        r = float("nan")
                    else:
                        r = math.copysign(float("inf"), x) * math.copysign(1.0, y)
                else:
                    r = x / y
            else:
                if math.isinf(x) or y == 0.0 or x != x or y != y:
                    r = float("nan")
                else:
                    r = math.fmod(x, y)
        except OverflowError:
            return None
        return {("val", "F%016x" % f_bits(r))}
    return {"type"}


def c03_oracle(case, out, model_out):
    m = case[1]
    if m.get("kind") not in ("op-vars", "op-lits"):
        return None
    a = parse_value(m["a"])
    b = parse_value(m["b"]) if m.get("b") is not None else None
    allowed = c03_reference(m["op"], a, b)
    if allowed is None:
        # `^`: always a float, the std function powf on the converted operands (the model routes it to the std oracle)
        if m["op"] == "^" and model_out is not None and not out.startswith("PANIC") and not model_out.startswith("PANIC"):
            got, want = step_outputs(out)[-1], step_outputs(model_out)[-1]
            if got != want:
                return "%s ^ %s = %s, f64::powf on the converted operands gives %s" % (m["a"], m["b"], got, want)
        return None
    last = step_outputs(out)[-1]
    cls = outcome_class(last)
    if cls == "ok":
        got = ("val", last[3:])
    elif cls == "err-arith":
        got = "arith"
    elif cls == "err-type":
        got = "type"
    else:
        got = cls
    if got not in allowed:
        return "operator %s on (%s, %s): observed %s, the reference table allows %s" % (m["op"], m["a"], m.get("b"), got, sorted(map(str, allowed)))
    return None


def c03_gen(tier, rng):
    cases = []
    P = G.pool()
    pairs = [(a, b) for a in P for b in P]
    SP = G.small_pool()
    numeric = []
    if tier == "quick":
        SP = G.small_pool() + ["Ffff0000000000000", "F3fe0000000000000", "Fbfe0000000000000", "Fbff0000000000000", "F4000000000000000", "F4008000000000000", "I2", "I-2"]
        keep = set()
        # complete small pool, plus all same-type pairs of the full pool for the numeric rows
        pairs = [(a, b) for a in P for b in P if (a in SP and b in SP) or (a[0] in "IF" and b[0] in "IF" and rng.random() < 0.25)
                 or (a[0] == "S" and b[0] == "S")]
        numeric = [(a, b) for a in P for b in P if a[0] in "IF" and b[0] in "IF"]

        def boundary(v):     # where integer and double arithmetic part ways, and the special doubles
            if v[0] == "I":
                return abs(int(v[1:])) >= 2 ** 53 - 1 or abs(int(v[1:])) <= 1
            f = G.bits_to_float(int(v[1:], 16))
            return f != f or f == 0.0 or abs(f) >= 2.0 ** 52 or abs(f) in (0.5, 1.0)
        B = [v for v in P if v[0] in "IF" and boundary(v)]
        pairs = sorted(set(pairs) | set((a, b) for a in B for b in B) | set((a, b) for a in G.TUPLES + ["E"] for b in G.TUPLES + ["E"]))
    def rebound(case_text, a, b, r):
        """the same case, but a (or b) first holds another value of its type and is then overwritten"""
        alt = {"I": ["I0", "I7", "I-1"], "F": ["F0000000000000000", "F8000000000000000", "F3ff0000000000000", "F7ff8000000000000"], "S": ["S", "S61"], "B": ["B0", "B1"],
               "T": ["T()", "T(I1,I2)"], "E": ["E"]}
        kind, ops = case_text.split("\t")[1], case_text.split("\t")[2].split(";")
        pre = []
        for nm, v in (("a", a), ("b", b)):
            if v is not None and r.random() < 0.7:
                pre.append("init %s %s" % (hexs(nm), r.choice(alt[v[0]])))
        ops = pre + [o.replace("init ", "set ", 1) if o.startswith("init ") else o for o in ops]
        return G.script(kind, ops)
    for op in G.BINOPS:
        # `^` (routed to std), `/` and `%` (zero and infinite operands): the numeric rows completely, also in the quick tier
        ints_only = [(a, b) for a, b in numeric if a[0] == "I" and b[0] == "I"] if tier == "quick" else []
        for a, b in (sorted(set(pairs) | set(numeric)) if tier == "quick" and op in ("^", "/", "%") else sorted(set(pairs) | set(ints_only)) if tier == "quick" and op in ("+", "-", "*") else pairs):
            cases.append((G.op_case_vars(op, a, b), {"kind": "op-vars", "op": op, "a": a, "b": b}))
            if rng.random() < 0.06 or (a[0] == "F" and b[0] == "F" and a in SP and b in SP):
                cases.append((rebound(G.op_case_vars(op, a, b), a, b, rng), {"kind": "op-vars", "op": op, "a": a, "b": b}))
            if rng.random() < (1.0 if tier == "thorough" else 0.15):
                lc = G.op_case_literals(op, a, b)
                if lc:
                    cases.append((lc, {"kind": "op-lits", "op": op, "a": a, "b": b}))
    for op in G.UNOPS:
        for a in P:
            cases.append((G.op_case_vars(op, a), {"kind": "op-vars", "op": op, "a": a, "b": None}))
            if a[0] == "F" or rng.random() < 0.2:
                cases.append((rebound(G.op_case_vars(op, a), a, None, rng), {"kind": "op-vars", "op": op, "a": a, "b": None}))
            lc = G.op_case_literals(op, a)
            if lc:
                cases.append((lc, {"kind": "op-lits", "op": op, "a": a, "b": None}))
    n_rand = 20000 if tier == "quick" else 100000
    for _ in range(n_rand):
        op = rng.choice(G.BINOPS)
        k = rng.random()
        if k < 0.45:
            a, b = G.vI(G.clamp_i64(G.rand_int(rng))), G.vI(G.clamp_i64(G.rand_int(rng)))
        elif k < 0.8:
            a = G.vF(G.rand_float_bits(rng)) if rng.random() < 0.7 else G.vI(G.clamp_i64(G.rand_int(rng)))
            b = G.vF(G.rand_float_bits(rng)) if rng.random() < 0.7 else G.vI(G.clamp_i64(G.rand_int(rng)))
        else:
            a, b = G.rand_value(rng), G.rand_value(rng)
        cases.append((G.op_case_vars(op, a, b), {"kind": "op-vars", "op": op, "a": a, "b": b}))
    # wrong arity reaches evaluation through incomplete expressions
    for src in ["1 +", "!", "-", "1 <", "true &&", "a =", "1 ==", "2 ^"]:
        cases.append((G.script("H", ["ev sfv " + hexs(src)]), {"kind": "arity", "src": src}))
    return cases


PROPS = {
    "C03": {
        "gen": c03_gen, "oracle": c03_oracle, "release": True, "extra_props": ["FloatIEEE", "FloatIEEE2"],
        "rule": "complete edge-value pool P x P (quick: complete small pool + sampled numeric/string pairs) for the 14 binary and 2 prefix operators, operands bound as variables and as literals where expressible, plus random boundary-biased pairs; a case is non-trivial if it has two operands or does not evaluate to a plain literal; distinct = distinct case line",
        "assumptions": ["the Coq model of Operator::eval equals the Rust code: checked by this run's correspondence (sampled, both build profiles)",
                        "std oracle: f64::powf of Rust's std for `^`",
                        "Props/FloatIEEE.v: the model's SpecFloat operations are the correctly rounded (nearest-even) IEEE-754 binary64 operations on the reals, proved through Flocq 4.1 BinarySingleNaN; these theorems (and only these) depend on the four axioms of Coq's real numbers: ClassicalDedekindReals.sig_not_dec, ClassicalDedekindReals.sig_forall_dec, FunctionalExtensionality.functional_extensionality_dep, Classical_Prop.classic"],
    },
}


# ---------------------------------------------------------------------------------------------
# C12: all entry points are views of one evaluator
# ---------------------------------------------------------------------------------------------
TYPES = "vsifnbte"
TYPE_OF_VALUE = {"S": "s", "I": "i", "F": "f", "B": "b", "T": "t", "E": "e"}
EXPECTED = {"s": "ExpectedString", "i": "ExpectedInt", "f": "ExpectedFloat", "n": "ExpectedNumber", "b": "ExpectedBoolean",
            "t": "ExpectedTuple", "e": "ExpectedEmpty"}


def project_text(ty, untyped):
    """what the typed entry point must return, given the untyped outcome text"""
    if not untyped.startswith("OK "):
        return untyped
    v = untyped[3:]
    if ty == "v":
        return untyped
    k = TYPE_OF_VALUE[v[0]]
    if ty == k:
        return untyped
    if ty == "n" and k == "f":
        return untyped
    if ty == "n" and k == "i":
        return "OK F%016x" % f_bits(float(int(v[1:])))
    return "ERR %s(%s)" % (EXPECTED[ty], v)


C12_SETUP = ["init %s I3" % hexs("a"), "init %s F4004000000000000" % hexs("b"), "init %s S%s" % (hexs("c"), hexs("xy")),
             "init %s B1" % hexs("x"), "init %s T(I1,I2)" % hexs("y"), "init %s E" % hexs("z"),
             "setfn %s id" % hexs("f"), "setfn %s swap" % hexs("g"), "setfn %s fail:%s" % (hexs("h"), hexs("boom")),
             "setfn %s needfloat" % hexs("nf"), "setfn %s neednumber" % hexs("nn"), "setfn %s konst:I-7" % hexs("min"),
             "init %s T()" % hexs("e0"), "init %s T(I7)" % hexs("t1"), "init %s T(T(I1,E),S,T())" % hexs("t3"), "init %s F7ff8000000000000" % hexs("qn"),
             "init %s S" % hexs("s0"), "init %s I-9223372036854775808" % hexs("mn"), "init %s F8000000000000000" % hexs("nz"), "init %s Ffff0000000000000" % hexs("ni"),
             "setfn %s konst:T()" % hexs("mk0"), "setfn %s konst:T(E)" % hexs("mk1"),
             "init %s I40" % hexs("true"), "init %s I41" % hexs("7"), "init %s I42" % hexs("1 + 1"), "init %s I43" % hexs("a + b"), "init %s I44" % hexs(" a"), "init %s I45" % hexs("f(a)")]
C12_STRINGS = ["a = 1; a", "1", "1.5", '"s"', "true", "(1,2)", "()", "", "a", "b", "c", "x", "y", "z", "1 +", ")", "(",
               "a += 1", "a + b", "f(a)", "g(1,2)", "h(1)", "a = 5", "q = 1; q", "q", "9223372036854775807", "2^62",
               "1/0", "a; b; c", "a,b", "y == (1,2)", "c + \"z\"", "!x", "-a", "\"", "1e400", "0x10", "a = \"s\"",
               "f g h 1", "max(1, 2.5)", "min(4.0, 3)", "len(c)", "typeof(z)", "a /* c */ + 1", "1;", ";", ",",
               "x && false", "a % 2 == 1", "str::from(y)", "math::sqrt(16)", "if(x, a, b)",
               # strings a wrapper might be tempted to pre-process or to parse by itself
               "+5", "-5", " 7 ", "\t7\n", "-9223372036854775808", "9223372036854775808", "+1.5", "-0.0", " true ", "TRUE", "007",
               "1_000", "0x10 ", "-0x10", "1e3", "+1e3", "inf", "-inf", "nan", " \"s\" ", "\"\"", "()", " ( ) ", "(1,)", "1,", "(,)",
               "5;", "5 ;", ";5", " ", "\n", "\u3000", "1 // c", "/* c */ 1", "true ", "- 5", "--5", "!true", "! true",
               # user functions answering with the typed-accessor errors a wrapper might confuse with its own
               "a = 1 / 0", "a = missing", "1 / 0; a = 2", "b = nosuch(1)", "a += true + 1", "missing; a = 1", "h(1); a = 2",
               '"a" = 3; a', '"x" += 1', "3 = 4", '("a" + "b") = true; ab', '"c" = "s"; c', '"q" = 1; q', "(a) = 4; a",
               "false && 1", "true || missing", "false && 1/0", "true || 1/0", "false && missing", "x || 1", "!x && 1", "false && (a = 1)",
               "\ufeff1 + 2", "\ufeffx", "\ufeff", "\ufeff a", "a\ufeff", "\u200b1", "1 +\ufeff 2",
               "e0", "t1", "t3", "qn", "s0", "mn", "nz", "ni", "mk0()", "mk1()", "f(e0)", "(e0, t1)", "e0 == t1", "qn == qn", "s0 + s0", "-mn", "mn - 1", "nz * 1", "len(e0)", "len(s0)",
               "str::from(t3)", "typeof(e0)", "q2 = e0; q2", "q3 = mk0(); q3", "math::abs(mn)", "nz + nz", "min(1, 2)", "typeof(min)",
               "zz += 1", "zz *= 2", "a /= 0", "a %= 0", "c -= 1", "x += 1", "a &&= true", "mn -= 1", "a ^= 0.5",
               "7", "1 + 1", " a", "a ", "f(a)", "a+b", " 7 ", "true ",
               "PI", "2 * PI", "E", "E = 3; E + 1", "TAU", "SQRT_2 * SQRT_2", "LN_2", "FRAC_PI_2", "pi", "math::pi",
               "1 / 0; (", "a = 1; )", "k = 8; b =", "missing; 1 +", "h(1); )", "a = 2; 1 2", "a = 2; (1,", "f(1); a = 3; \"",
               "nf(1)", "nf(1.5)", "nf(a)", "nf(b)", "nf(c)", "nn(c)", "nn(a)", "nf a", "nf(1) + 1", "nf(x)", "nn(y)", "nf(())"]
# consecutive evaluations of strings that differ only in separators inside or between tokens: each is evaluated on its own
C12_PAIRS = [('"a b" + "c"', '"ab" + "c"'), ("1 2", "12"), ("a b", "ab"), ("1 + 2", "1+2"), ("12", "1 2"), ('"x"', '" x"'),
             ("1 - 1", "1 -1"), ("a = 1; a", "a=1;a"), ("1\n2", "12"), ("tr ue", "true"), ("true", "tr ue"), ("1 .5", "1.5"), ("1.5", "1 .5"),
             ("3", "3"), ("a", "a"), ('"q"', '"q" '), ("1 /* c */ 2", "12"), ("0x1 0", "0x10"), ("! true", "!true"), ("= =", "==")]


C12_RO_REFUSED = {"a += 1", "a = 5", "q = 1; q", "a = 1; a", '"x" += 1', "3 = 4", '"a" = 3; a', "a = \"s\"", "zz += 1", "zz *= 2", "a /= 0", "a %= 0", "c -= 1", "x += 1", "a &&= true",
                  "mn -= 1", "a ^= 0.5", '"q" = 1; q', '"c" = "s"; c'}      # only sources whose operands evaluate in EVERY context (literals, string targets)


def c12_case(kind, setup, src, then=None):
    """all entry points on `src`; with `then`, the same on a second source in the same process straight afterwards"""
    ops = list(setup)
    codes = []
    for k, s1 in enumerate([src] if then is None else [src, then]):
        for lvl in "sn":
            for mode in "frm":
                if mode == "m" and kind in ("E", "EB"):
                    continue
                for ty in TYPES:
                    code = lvl + mode + ty
                    if k == 0:
                        codes.append(code)
                    ops.append("evc %s %s" % (code, hexs(s1)))
        ops.append("evc build %s" % hexs(s1))
    return G.script(kind, ops), {"kind": "all-entries", "src": src, "then": then, "ctx": kind, "codes": codes, "nsetup": len(setup)}


def c12_gen(tier, rng):
    cases = []
    srcs = list(C12_STRINGS)
    n = 400 if tier == "quick" else 6000
    for _ in range(n):
        raw = G.rand_seq(rng, 3) if rng.random() < 0.25 else G.rand_expr(rng, rng.randint(1, 4))
        e = G.parenthesize_seq(raw) if raw[0] in ("tuple", "chain") else G.parenthesize(raw)
        toks = G.flatten(e)
        if rng.random() < 0.2 and toks:
            toks.pop(rng.randrange(len(toks)))  # near miss
        srcs.append(G.render(toks, rng, "space"))
    for s in G.char_soup(rng, 100 if tier == "quick" else 1000):
        srcs.append(s)
    for s in srcs:
        kind = rng.choice(["H", "H", "H", "N", "E", "EB"])
        setup = C12_SETUP if kind in ("H", "N") else []
        cases.append(c12_case(kind, setup, s))
    # ONE precompiled tree evaluated again and again while the context changes: always what the string gives then
    muts = ["set %s I9" % hexs("a"), "setfn %s konst:I7" % hexs("f"), "setfn %s id" % hexs("g"), "off 1", "off 0", "clrf", "setfn %s konst:I1" % hexs("max"),
            "set %s S%s" % (hexs("c"), hexs("pq")), "clrv", "init %s S%s" % (hexs("a"), hexs("str")), "setfn %s fail:%s" % (hexs("f"), hexs("no")),
            "init %s I5" % hexs("q"), "setfn %s swap" % hexs("f"), "set %s F4004000000000000" % hexs("b"), "clr", "setfn %s id" % hexs("len")]
    stored_srcs = ["f(1) + a", "f(a)", "max(1, 2)", "g(1,2)", "a + 1", "c", "len(c)", "typeof(a)", "h(1)", "a; b", "min(a, 4)", "f(f(a))", "q", "f g (1, 2)",
                   "a = a + 1; a", "if(x, a, b)", "str::from(a) + c", "f(1)", "1 + 2", "max(a, b)", "len(\"abc\")"]
    for _ in range(n // 4):
        raw = G.rand_expr(rng, rng.randint(1, 3))
        stored_srcs.append(G.render(G.flatten(G.parenthesize(raw)), None, "space"))
    for src in stored_srcs:
        for rep in range(2 if tier == "quick" else 6):
            ops = list(C12_SETUP) + ["pre " + hexs(src)]
            nblocks = rng.randint(2, 5)
            for _b in range(nblocks):
                ty = rng.choice("visnbte")
                ops += ["evc smv " + hexs(src), "evpc mv", "evc srv " + hexs(src), "evpc rv", "evc sm%s %s" % (ty, hexs(src)), "evpc m" + ty, rng.choice(muts)]
            cases.append((G.script("H", ops), {"kind": "stored-tree", "src": src, "nsetup": len(C12_SETUP) + 1, "nblocks": nblocks, "ops": ops}))
    # repeating an evaluation gives the same result, however many evaluations failed in between (in this process, this thread)
    for valid in ["1 + (2 * 3)", "a + 1", "f(1)", "(1, (2, (3, 4)))", "len(\"abc\")"]:
        for failing, nfail in (("1 + (2 / 0)", 120), ("((((1 / 0))))", 80), ("f(g(h(1)))", 150), ("1 + (2 + (3 + (4 + missing)))", 100), ("(", 50), ("\"", 50)):
            ops = C12_SETUP + ["evc smv " + hexs(valid), "evc nrv " + hexs(valid)] + ["evc %s %s" % (rng.choice(["smv", "srv", "nmv", "sfv", "nfi", "srn"]), hexs(failing)) for _ in range(nfail)] + \
                  ["evc smv " + hexs(valid), "evc nrv " + hexs(valid), "evc sfv " + hexs("1 + (2 * 3)")]
            cases.append((G.script("H", ops), {"kind": "repeat", "src": valid, "failing": failing, "nfail": nfail, "nsetup": len(C12_SETUP)}))
    # one evaluation per call of an entry point: every user function call of the program is made exactly once
    for src, want_log in [("q9 = f(1); q9", "66(I1)"), ("f(1); q9 = 2", "66(I1)"), ("g(1, 2); q8 = f(3); q8", "67(T(I1,I2)),66(I3)"), ("q7 = (f(1), f(2)); q7", "66(I1),66(I2)"),
                          ("f(1) + (q6 = 2; f(q6))", "66(I1),66(I2)"), ("f(5)", "66(I5)"), ("q5 = 1; q5 += f(2); q5", "66(I2)")]:
        for code in ("smv", "nmv", "smi", "nmn", "sme", "smt", "srv"):
            ops = C12_SETUP + ["ev %s %s" % (code, hexs(src))]
            cases.append((G.script("H", ops), {"kind": "once", "src": src, "code": code, "want_log": want_log if code != "srv" or "=" not in src else None}))
    # a source that does not precompile has no effect at all, through any entry point
    for src in ["a = 1; )", "k = 8; (b =", "a = 2; 1 2", "a = 2; (1,", "q = 1; f(q); \"", "a += 1; a += 1; (", "f(1); g(1, 2); 1 +; )", "c = \"z\"; ))"]:
        for code in ("smv", "nmv", "smi", "sme", "nmt", "smn"):
            ops = C12_SETUP + ["dump", "ev %s %s" % (code, hexs(src)), "dump"]
            cases.append((G.script("H", ops), {"kind": "noeffect", "src": src, "code": code}))
    for s1, s2 in C12_PAIRS:
        for kind in ("H", "EB"):
            cases.append(c12_case(kind, C12_SETUP if kind == "H" else [], s1, then=s2))
    for _ in range(n // 8):     # a generated program, then the same tokens rendered with other separators, then (thorough) a neighbour
        raw = G.rand_expr(rng, rng.randint(1, 3))
        toks = G.flatten(G.parenthesize(raw))
        cases.append(c12_case("H", C12_SETUP, G.render(toks, rng, "space"), then=G.render(toks, rng, "space")))
        cases.append(c12_case("H", C12_SETUP, G.render(toks, None, "space"), then="".join(toks)))
    return cases


def c12_oracle(case, out, model_out):
    m = case[1]
    if m.get("kind") == "once" and not out.startswith("PANIC") and m.get("want_log") is not None and "LOG[" in out:
        lg = out[out.index("LOG[") + 4:out.rindex("]")]
        if lg != m["want_log"]:
            return "one call of entry point %s on %r makes the user function calls [%s]; the program calls [%s], each once" % (m["code"], m["src"], lg, m["want_log"])
        return None
    if m.get("kind") == "repeat" and not out.startswith("PANIC"):
        st = step_outputs(out)[m["nsetup"]:]
        if st[0] != st[-3] or st[1] != st[-2] or st[-1] != "OK I7":
            return "%r evaluated before and after %d failing evaluations of %r in the same thread: %s / %s before, %s / %s after; context-free 1 + (2 * 3) gives %s" % (m["src"], m["nfail"], m["failing"], st[0], st[1], st[-3], st[-2], st[-1])
        return None
    if m.get("kind") == "noeffect" and not out.startswith("PANIC"):
        steps = step_outputs(out)
        d0, r, d1 = steps[-3:]
        lg = out[out.index("LOG[") + 4:out.rindex("]")] if "LOG[" in out else ""
        if d0 != d1 or lg or not r.startswith("ERR"):
            return "%r does not precompile, yet %s on it gives %s, calls [%s] and leaves the context %s (before: %s)" % (m["src"], m["code"], r, lg, d1, d0)
        return None
    if m.get("kind") == "stored-tree" and not out.startswith("PANIC"):
        steps = step_outputs(out)[m["nsetup"]:]
        for b in range(m["nblocks"]):
            blk = steps[7 * b:7 * b + 7]
            for k in (0, 2, 4):
                if blk[k] != blk[k + 1]:
                    done = [o for o in m["ops"][m["nsetup"]:m["nsetup"] + 7 * b] if not o.startswith("ev")]
                    return "the tree precompiled from %r, evaluated after the context changes %s, gives %s; evaluating the string at that moment gives %s" % (m["src"], done, blk[k + 1], blk[k])
        return None
    if m.get("kind") != "all-entries":
        return None
    if out.startswith("PANIC"):
        return "panic: " + out
    allsteps = step_outputs(out)[m["nsetup"]:]
    codes = m["codes"]
    for k, src in enumerate([m["src"]] if m.get("then") is None else [m["src"], m["then"]]):
        steps = allsteps[k * (len(codes) + 1):(k + 1) * (len(codes) + 1)]
        after = "" if k == 0 else " (evaluated straight after %r)" % m["src"]
        res = dict(zip(codes, steps))
        build = steps[len(codes)] if len(steps) > len(codes) else None
        # the majority answer among the untyped entries of one context mode is the reference: a single deviating entry is named
        for code in codes:
            lvl, mode, ty = code
            base = res.get("s" + mode + "v")
            other = res.get("n" + mode + "v")
            if base != other:
                return "string-level and tree-level untyped entry points disagree on %r%s in context %s (%s): %s vs %s" % (src, after, m["ctx"], mode, base, other)
            want = project_text(ty, base)
            if res[code] != want:
                return "entry point %s on %r%s in context %s: returned %s, the projection of the untyped result %s is %s" % (code, src, after, m["ctx"], res[code], base, want)
        # the shared entry points evaluate the operands and then refuse the assignment, whatever the target is or holds
        if src in C12_RO_REFUSED and "srv" in res and res["srv"] != "ERR ContextNotMutable":
            return "%r%s through eval_with_context in context %s gives %s; a shared context refuses every assignment with ContextNotMutable once its operands are evaluated" % (src, after, m["ctx"], res["srv"])
        # one evaluator: without an assignment operator in the source, shared and mutable evaluation are the same evaluation
        if "srv" in res and "smv" in res and not re.search(r"(?<![=!<>])=(?!=)", src) and res["srv"] != res["smv"]:
            return "%r%s has no assignment operator but eval_with_context gives %s and eval_with_context_mut gives %s (context %s)" % (src, after, res["srv"], res["smv"], m["ctx"])
        if build is not None and build.startswith("ERR"):
            for code in codes:
                if res[code] != build:
                    return "build_operator_tree fails with %s but entry point %s returns %s on %r%s" % (build, code, res[code], src, after)
    return None


PROPS["C12"] = {
    "level": "translation_validation",
    "gen": c12_gen, "oracle": c12_oracle, "release": False, "model_env": {"EVX_WRAPPERS": "1"},
    "rule": "every case runs all 48 evaluation entry points (2 levels x 3 context modes x 8 result types; the mutable ones only on contexts that implement ContextWithMutableVariables) plus build_operator_tree on clones of one context; sources: fixed distinguishing strings, generated programs, near misses (one token deleted), character soup; contexts: populated HashMapContext, NoStore, EmptyContext, EmptyContextWithBuiltinFunctions; the model side runs the wrappers TRANSLATED from the source; non-trivial = at least one entry point returns a value",
    "nontrivial": lambda c, out: " OK " in out or out.startswith("OK "),
    "assumptions": ["translator tools/translate_interface.py (syntactic translation of the 49 wrapper bodies; refuses unknown shapes)",
                    "the interpreter of translated wrappers (Model/InterfaceGen.v) reads a wrapper body the way Rust executes it",
                    "the two evaluators eval_ro / eval_mut of the model equal the Rust ones: correspondence of this run"],
}


# ---------------------------------------------------------------------------------------------
# C02 / C05: trees of generated ASTs against the reference tree
# ---------------------------------------------------------------------------------------------

def ast_tree_case(e, rng, style):
    toks = G.flatten(e)
    src = G.render(toks, rng, style, comments=False)
    return ("TREE\t" + hexs(src), {"kind": "ast-tree", "src": src, "want": "OK " + G.tree_of_top(e)})


def tree_oracle(case, out, model_out):
    m = case[1]
    if m.get("kind") != "ast-tree":
        return None
    if out != m["want"]:
        return "precompiling %r gives %s, the tree dictated by the table is %s" % (m["src"], out[:400], m["want"][:400])
    return None


def all_two_operator_asts():
    """a o1 b o2 c for every ordered pair of binary operators, in both groupings, plus prefix/assign/call mixes"""
    out = []
    A, B, C = ("var", "a"), ("var", "b"), ("lit", "3", "I3")
    for o1 in G.BINOPS:
        for o2 in G.BINOPS:
            out.append(("bin", o2, ("bin", o1, A, B), C))
            out.append(("bin", o1, A, ("bin", o2, B, C)))
        for u in G.UNOPS:
            out.append(("bin", o1, ("pre", u, A), B))
            out.append(("bin", o1, A, ("pre", u, B)))
            out.append(("pre", u, ("bin", o1, A, B)))
        out.append(("bin", o1, ("call", "f", A), B))
        out.append(("bin", o1, A, ("call", "f", B)))
        out.append(("call", "f", ("bin", o1, A, B)))
        for asg in G.ASSIGNOPS:
            out.append(("asg", asg, "x", ("bin", o1, A, B)))
            out.append(("bin", o1, A, ("asg", asg, "x", B)))
    for a1 in G.ASSIGNOPS:
        for a2 in G.ASSIGNOPS:
            out.append(("asg", a1, "x", ("asg", a2, "y", C)))
    for u1 in G.UNOPS:
        for u2 in G.UNOPS:
            out.append(("pre", u1, ("pre", u2, A)))
        out.append(("pre", u1, ("call", "f", A)))
        out.append(("call", "f", ("pre", u1, A)))
        out.append(("call", "f", ("call", "g", ("pre", u1, A))))
    return out


def excluded_c02(e):
    """`x ^ -y ^ z`: a prefix operator as right operand of `^` whose own operand is followed by `^` (not claimed)"""
    if e is None or e[0] in ("lit", "var"):
        return False
    if e[0] == "bin" and e[1] == "^" and e[3][0] == "pre" and e[3][2][0] == "bin" and e[3][2][1] == "^":
        return True
    kids = {"bin": e[2:4], "pre": e[2:3], "asg": e[3:4], "call": e[2:3], "paren": e[1:2], "tuple": e[1] if e[0] == "tuple" else [], "chain": e[1] if e[0] == "chain" else []}.get(e[0], [])
    return any(excluded_c02(k) for k in kids)


def deep_ast(kind, d):
    """an AST of nesting depth d of one of six shapes"""
    e = ("var", "z%d" % d)
    for i in range(d):
        if kind == "right":
            e = ("bin", "+", ("var", "a%d" % i), ("paren", e))
        elif kind == "left":
            e = ("bin", "*", ("paren", e), ("var", "b%d" % i))
        elif kind == "neg":
            e = ("pre", "-", e)
        elif kind == "call":
            e = ("call", "f%d" % (i % 3), e)
        elif kind == "paren":
            e = ("paren", e)
        elif kind == "chainr":      # a ^ b ^ c ... without parentheses is left-associative: ((a ^ b) ^ c)
            e = ("bin", "-", e, ("var", "c%d" % i))
        elif kind == "assign":      # x = y = z ... groups to the right
            e = ("asg", "=", "w%d" % i, e)
        else:
            e = ("paren", ("tuple", [("var", "t%d" % i), e]))
    return e


def c02_gen(tier, rng):
    cases = []
    for raw in all_two_operator_asts():
        e = G.parenthesize(raw)
        cases.append(ast_tree_case(e, rng, "space"))
        cases.append(ast_tree_case(G.add_redundant_parens(rng, e, 0.3), rng, "tight"))
    n = 15000 if tier == "quick" else 100000
    for _ in range(n):
        # a quarter with parenthesised sequences as operands and arguments: -f(a, b), f(a; b) ^ 2, x = (a, b) * c
        raw = G.rand_expr(rng, rng.randint(1, 6), allow_seq=rng.random() < 0.25)
        e = G.parenthesize(raw)
        if rng.random() < 0.4:
            e = G.add_redundant_parens(rng, e)
        cases.append(ast_tree_case(e, rng, rng.choice(["space", "tight", "random"])))
    # long chains at one precedence level and deep nesting
    for kind in ("right", "left", "neg", "call", "paren", "tuple", "chainr", "assign"):
        for d in (8, 15, 33, 63, 64, 65, 70, 140, 255, 256, 257, 400) if tier == "quick" else range(8, 600, 7):
            cases.append(ast_tree_case(G.parenthesize(deep_ast(kind, d)), rng, "tight"))
    for op in G.BINOPS:
        for d in (9, 40):
            e = ("var", "a")
            for i in range(d):
                e = ("bin", op, e, ("var", "b%d" % i)) if op != "^" or True else e
            cases.append(ast_tree_case(G.parenthesize(e), rng, "space"))
    # exhaustive short token sequences: model vs implementation only
    for seq in G.token_sequences_exhaustive(G.TOKEN_ALPHABET16, 4):
        cases.append(("TREE\t" + hexs(" ".join(seq)), {"kind": "token-seq"}))
    yield cases
    if tier == "thorough":
        for n in (5, 6):
            for blk in G.blocks(G.token_sequences_of_length(G.TOKEN_ALPHABET16, n), 400000):
                yield [("TREE\t" + hexs(" ".join(seq)), {"kind": "token-seq"}) for seq in blk]
        for _ in range(6):
            blk = []
            for _ in range(150000):
                raw = G.rand_expr(rng, rng.randint(1, 7), allow_seq=False)
                e = G.parenthesize(raw)
                if rng.random() < 0.4:
                    e = G.add_redundant_parens(rng, e)
                blk.append(ast_tree_case(e, rng, rng.choice(["space", "tight", "random"])))
            yield blk


def c05_gen(tier, rng):
    cases = []
    n = 15000 if tier == "quick" else 200000
    for _ in range(n):
        raw = G.rand_seq(rng, rng.randint(0, 3))
        e = G.parenthesize_seq(raw)
        if rng.random() < 0.3:
            e = G.add_redundant_parens(rng, e)
        cases.append(ast_tree_case(e, rng, rng.choice(["space", "tight"])))
    # open chains and tuples on every level of deep parenthesis nesting
    for shape in range(4):
        for d in (5, 9, 10, 11, 12, 16, 17, 18, 31, 32, 33, 34, 64, 65, 100, 127, 128, 129, 255, 256, 257) if tier == "quick" else range(3, 300, 2):
            e = ("lit", "7", "I7")
            for i in range(d):
                inner = ("paren", e)
                if shape == 0:
                    e = ("chain", [("var", "a"), ("tuple", [("var", "b"), inner])])
                elif shape == 1:
                    e = ("tuple", [("var", "a"), inner, ("var", "b")])
                elif shape == 2:
                    e = ("chain", [inner, ("var", "c")])
                else:
                    e = ("chain", [("tuple", [("var", "a"), ("var", "b")]), ("tuple", [inner, None])])
            cases.append(ast_tree_case(G.parenthesize_seq(e), rng, "tight"))
    alphabet = [",", ";", "(", ")", "1", "a", "="]
    for seq in G.token_sequences_exhaustive(alphabet, 5):
        cases.append(("TREE\t" + hexs(" ".join(seq)), {"kind": "token-seq"}))
    if tier == "thorough":
        for n in (6, 7, 8):
            for blk in G.blocks(G.token_sequences_of_length(alphabet, n), 400000):
                yield [("TREE\t" + hexs(" ".join(seq)), {"kind": "token-seq"}) for seq in blk]
    # values: chains/tuples of simple elements with effects, against a small reference evaluation
    for _ in range(4000 if tier == "quick" else 60000):
        cases.append(c05_value_case(rng))
    yield cases


def c05_value_case(rng):
    """chain of tuples of simple elements: n | 2.5 | "s" | x | x = n | x += n | rec(n) | 1/0 | (nested seq); reference value,
    final context and call log computed here; evaluated with a mutable or (without assignments) a shared context.
    Elements are generated in evaluation order; after a failing element nothing has an effect any more."""
    env = {}
    log = []
    readonly = rng.random() < 0.35
    st = {"dead": None}
    long_seq = rng.random() < 0.25

    def elem(depth):
        k = rng.random()
        live = st["dead"] is None
        if k < 0.1:
            return None, ("E", None)
        if k < 0.26:
            n = rng.randint(0, 9)
            return ("lit", str(n), "I%d" % n), ("I", n)
        if k < 0.30:
            return ("lit", "2.5", "F4004000000000000"), ("F", 0x4004000000000000)
        if k < 0.34:
            return ("lit", '"s"', "S73"), ("S", "s")
        if k < 0.45:
            n = rng.randint(0, 9)
            if live:
                log.append(n)
            return ("call", "rec", ("lit", str(n), "I%d" % n)), ("I", n)
        if k < 0.6 and not readonly:
            x = rng.choice(["p", "q"])
            n = rng.randint(0, 9)
            if live:
                env[x] = n
            return ("asg", "=", x, ("lit", str(n), "I%d" % n)), ("E", None)
        if k < 0.7 and env and live:
            x = rng.choice(sorted(env))
            return ("var", x), ("I", env[x])
        if k < 0.8 and env and not readonly and live:
            x = rng.choice(sorted(env))
            n = rng.randint(0, 9)
            env[x] += n
            return ("asg", "+=", x, ("lit", str(n), "I%d" % n)), ("E", None)
        if k < 0.83:
            if live:
                st["dead"] = "DivisionError"
            return ("bin", "/", ("lit", "1", "I1"), ("lit", "0", "I0")), ("E", None)
        if depth < 2:
            s, v = seq(depth + 1)
            return ("paren", s), v
        n = rng.randint(0, 9)
        return ("lit", str(n), "I%d" % n), ("I", n)

    def tup(depth):
        items = [elem(depth) for _ in range(rng.randint(2, 6) if long_seq else rng.randint(2, 3))]
        return ("tuple", [i[0] for i in items]), ("T", [i[1] for i in items])

    def seq(depth):
        k = rng.random()
        if k < 0.3:
            return tup(depth)
        parts = []
        for _ in range(rng.randint(2, 7) if long_seq else rng.randint(2, 4)):
            parts.append(tup(depth) if rng.random() < 0.4 else elem(depth))
        return ("chain", [p[0] for p in parts]), parts[-1][1]

    s, v = seq(0)
    src = G.render(G.flatten(s), None, "space")
    want_ctx = ",".join("%s=I%d" % (hexs(k), env[k]) for k in sorted(env, key=hexs))
    want_log = ",".join("%s(I%d)" % (hexs("rec"), n) for n in log)
    entry = rng.choice(["srv", "nrv"]) if readonly else rng.choice(["smv", "nmv"])
    want = "OK " + value_text(v) if st["dead"] is None else "ERR " + st["dead"]
    if rng.random() < 0.5:   # a typed entry point (any of the eight): the same evaluation and effects, the result projected
        ty = rng.choice("teinsfb" + {"T": "ttt", "E": "eee", "I": "iin", "F": "ffn", "S": "sss", "B": "bbb"}[v[0]])
        entry = entry[:2] + ty
        want = strip_payload(project_text(ty, want)) if want.startswith("OK") else want
    return (G.script("H", ["setfn %s id" % hexs("rec"), "ev %s %s" % (entry, hexs(src))]),
            {"kind": "seq-value", "src": src, "entry": entry, "want": want,
             "want_tail": "CTX{%s;off=0;fns=%s} LOG[%s]" % (want_ctx, hexs("rec"), want_log)})


def c05_oracle(case, out, model_out):
    m = case[1]
    if m.get("kind") == "ast-tree":
        return tree_oracle(case, out, model_out)
    if m.get("kind") == "seq-value":
        steps = step_outputs(out)
        tail = out.split(" || ")[1] if " || " in out else ""
        got = steps[-1] if not m["want"].startswith("ERR") else strip_payload(steps[-1])
        if out.startswith("PANIC"):
            return "evaluating %r (%s) panics: %s" % (m["src"], m["entry"], out[:200])
        if got != m["want"] or tail != m["want_tail"]:
            return "evaluating %r (%s) gives %s with %s; every element is evaluated in order, a chain yields its last element and a tuple all of them: %s with %s" % (m["src"], m["entry"], steps[-1], tail, m["want"], m["want_tail"])
    return None


PROPS["C02"] = {
    "gen": c02_gen, "oracle": tree_oracle, "extra_props": ["EndToEnd", "EndToEndF"],
    "rule": "all ASTs a o1 b o2 c over the 14x14 ordered binary-operator pairs in both groupings, with prefix, call and the 9 assignment operators, rendered with exactly the required parentheses and with redundant ones; random ASTs of depth <= 6 over all operators with random separators; all token sequences of length <= 4 (quick) / 5 (thorough) over a 16-token alphabet (model vs implementation); non-trivial = more than one token",
    "nontrivial": lambda c, out: len(c[0]) > 16,
    "assumptions": ["the reference tree of tools/gen.py (tree_of) is the Python twin of Spec/Grammar.v tree_of; used only to search for failing inputs",
                    "model of the tree builder equals the Rust code: correspondence of this run"],
}
PROPS["C05"] = {
    "gen": c05_gen, "oracle": c05_oracle,
    "rule": "random sequences mixing `,` and `;` with absent elements, assignments and nested parenthesised sequences (depth <= 3), reference tree = chain of tuples; all token sequences of length <= 5 (quick) / 7 (thorough) over {, ; ( ) 1 a =} (model vs implementation); chains/tuples of effectful elements evaluated and compared with a reference value and final context; non-trivial = contains a separator",
    "nontrivial": lambda c, out: True,
    "assumptions": ["reference tree / value computed by tools/props.py, used only to search for failing inputs",
                    "model of the tree builder and of Tuple/Chain/RootNode evaluation equals the Rust code: correspondence of this run"],
}


# ---------------------------------------------------------------------------------------------
# C13: an independent recogniser of ill-formed token sequences
# ---------------------------------------------------------------------------------------------
BINARY_TOKENS = {"+", "*", "/", "%", "^", "==", "!=", ">", "<", ">=", "<=", "&&", "||"} | set(G.ASSIGNOPS)


def tok_class(t):
    if t in ("(", ")", ",", ";", "-", "!"):
        return t
    if t in BINARY_TOKENS:
        return "bin"
    if t in ("true", "false") or t[0].isdigit() or t[0] == '"' or t[0] == ".":
        return "lit"
    return "id"


def recognise(tokens):
    """returns (balanced, reason) with reason in None (grammatical) | 'MissingOperand' | 'Juxtaposed'.
    Two states: operand expected (E0 at the start of a sequence element, where an absent element is allowed;
    E1 after an operator, where an operand is required) and operator expected (O)."""
    depth = 0
    balanced = True
    state = "E0"
    reason = None
    n = len(tokens)
    for i, t in enumerate(tokens):
        c = tok_class(t)
        nxt = tok_class(tokens[i + 1]) if i + 1 < n else None
        if c == "(":
            if state == "O" and reason is None:
                reason = "Juxtaposed"
            depth += 1
            state = "E0"
        elif c == ")":
            if depth == 0:
                balanced = False
            else:
                depth -= 1
            if state == "E1" and reason is None:
                reason = "MissingOperand"
            state = "O"
        elif c in (",", ";"):
            if state == "E1" and reason is None:
                reason = "MissingOperand"
            state = "E0"
        elif c == "lit":
            if state == "O" and reason is None:
                reason = "Juxtaposed"
            state = "O"
        elif c == "id":
            if state == "O" and reason is None:
                reason = "Juxtaposed"
            # function application: the argument follows, an operand is still expected
            state = "E1" if nxt in ("(", "lit", "id") else "O"
        elif c == "!":
            if state == "O" and reason is None:
                reason = "Juxtaposed"
            state = "E1"
        elif c == "-":
            state = "E1"  # binary after an operand, prefix otherwise: an operand must follow either way
        elif c == "bin":
            if state != "O" and reason is None:
                reason = "MissingOperand"
            state = "E1"
    if state == "E1" and reason is None:
        reason = "MissingOperand"
    if depth != 0:
        balanced = False
    return balanced, reason


# every identifier the generators use is bound (as a variable AND as an identity function), so that an accepted
# ill-formed input is not hidden behind an unknown name
C13_SETUP = (["init %s I3" % hexs("a"), "setfn %s id" % hexs("a"), "init %s I4" % hexs("b"), "setfn %s id" % hexs("f")]
             + ["init %s I%d" % (hexs(nm), 5 + k) for k, nm in enumerate(["c", "x", "y", "foo", "_z", "a1"])] + ["init %s B1" % hexs("bt")]
             + ["setfn %s id" % hexs(nm) for nm in ["g", "h", "b", "c", "x", "y", "foo", "_z", "a1"]])


def tree_arity_defect(tree_text):
    """True if some operator of the printed tree has a number of operands it cannot be evaluated with"""
    toks = re.findall(r"\(|\)|[^\s()]+", tree_text)
    stack = []
    bad = False
    for t in toks:
        if t == "(":
            stack.append(None)
        elif t == ")":
            op, n = stack.pop()
            name = op.split(":")[0]
            if name in ("Const", "Read", "Write"):
                bad |= n != 0
            elif name in ("Neg", "Not", "Fn"):
                bad |= n != 1
            elif name == "RootNode":
                bad |= n > 1
            elif name in ("Tuple", "Chain"):
                pass
            else:
                bad |= n != 2
            if stack:
                stack[-1] = (stack[-1][0], stack[-1][1] + 1)
        elif stack and stack[-1] is None:
            stack[-1] = (t, 0)
    return bad


def c13_case(tokens):
    src = " ".join(tokens)
    balanced, reason = recognise(tokens)
    ops = C13_SETUP + ["evc build " + hexs(src), "evc smv " + hexs(src), "evc sfv " + hexs(src), "evc srv " + hexs(src)]
    if len(tokens) <= 3:      # every typed entry point must reject what the untyped ones reject, however the tokens are spaced
        tight = G.render(tokens, G.random.Random(0), "tight")
        for text in ([src] if tight == src else [src, tight, " " + tight + " "]):
            ops += ["evc %s%s%s %s" % (lv, mo, ty, hexs(text)) for lv in "sn" for mo in "fr" for ty in "ifnbste"]
    return (G.script("H", ops), {"kind": "token-seq-eval", "src": src, "balanced": balanced, "reason": reason})


def c13_gen(tier, rng):
    if tier == "thorough":
        for n in (5, 6):
            for blk in G.blocks(G.token_sequences_of_length(G.TOKEN_ALPHABET16, n)):
                yield [c13_case(seq) for seq in blk]
    cases = []
    for seq in G.token_sequences_exhaustive(G.TOKEN_ALPHABET16, 4):
        cases.append(c13_case(seq))
    for seq in G.token_sequences_random(rng, 20000 if tier == "quick" else 300000, maxlen=10):
        cases.append(c13_case(seq))
    # longer sequences, completely, over small alphabets (a call, an operand, parentheses, a binary and a prefix operator)
    import itertools
    for alpha, lens in ((["f", "1", "(", ")", "+", "-"], (5, 6)), (["f", "1", "(", ")", "+", "-", ",", "!"], (5,)), (["f", "a", "(", ")", "*", "!", ";"], (5,))):
        for n in lens:
            for seq in itertools.product(alpha, repeat=n):
                cases.append(c13_case(list(seq)))
    for alpha, lens in ((["false", "true", "&&", "||", "!", "(", ")"], (4, 5)), (["0", "1", "*", "^", "(", ")", "!", "-"], (5,)),
                        (["f", "typeof", "!", "-", "true", "1", "(", ")"], (3, 4, 5)),
                        (['"s"', "1", "a", "<", "=", "(", ")", "f"], (2, 3, 4, 5)), (['"("', '")"', '"(("', "(", ")", "+", "f", "1"], (1, 2, 3, 4)),
                        (["+", "-", "!", "1", "2.5", "true", '"s"', "a", "0x1f", "1e3"], (1, 2, 3)), (["&&=", "||=", '"bt"', "true", "bt", "(", ")", "="], (1, 2, 3, 4)), (['"s"', '"t"', "+", "%", "/", "!=", ",", "x"], (2, 3, 4))):
        for n in lens:
            for seq in itertools.product(alpha, repeat=n):
                cases.append(c13_case(list(seq)))
    # a defective fragment inside an otherwise well-formed context that might not need its value: branches of `if`,
    # right operands of `&&` / `||` with a deciding left operand, factors of 0, arguments of builtins and user functions
    frags = ["!", "-", "1 +", "* 2", "( * )", "( ! )", "+", "1 2", "( 1 2 )", "a =", "! !", "( )  1", "1 ( )", "&& true", "1 <"]
    ctxs = ["if ( true , 1 , {} )", "if ( false , {} , 2 )", "if ( true , {} , 2 )", "if ( {} , 1 , 2 )", "false && {}", "true || {}", "{} && false", "{} || true",
            "1 > 2 && ( {} )", "0 * ( {} )", "( {} ) * 0", "( {} ) ^ 0", "1 ^ ( {} )", "typeof ( {} )", "len ( ( {} , 1 ) )", "contains ( ( 1 , 2 ) , {} )",
            '"" + ( {} )', "f ( {} )", "f ( 1 , {} )", "min ( 1 , {} )", "( 1 , {} )", "1 ; {}", "{} ; 1", "a = ( {} )", "a = 1 ; {}", "str::from ( {} )",
            "if ( true , 1 , ( {} ) )", "if ( true , 1 , f ( {} ) )", "true || ( false && {} )", "math::abs ( {} )", "- ( {} )", "! ( {} )"]
    for cx in ctxs:
        for fr in frags:
            cases.append(c13_case(cx.format(fr).split()))
    r0 = G.random.Random(0)
    for alpha, lens in ((["true", "false", "&&", "||", "*", "<", "==", "(", ")", "!"], (2, 3, 4)), (["1", "a", "+", "-", "/", "%", "^", ",", ";", "!="], (2, 3, 4))):
        for n_ in lens:
            for seq in itertools.product(alpha, repeat=n_):
                toks = list(seq)
                tight = G.render(toks, r0, "tight")
                if tight == " ".join(toks):
                    continue
                case = c13_case(toks)
                ops = C13_SETUP + ["evc build " + hexs(tight), "evc smv " + hexs(tight), "evc sfv " + hexs(tight), "evc srv " + hexs(tight)]
                meta = dict(case[1]); meta["src"] = tight
                cases.append((G.script("H", ops), meta))
    for a_, b_ in (("=", "="), ("!", "="), ("<", "="), (">", "="), ("+", "="), ("-", "="), ("*", "="), ("/", "="), ("%", "="), ("^", "="), ("&&", "="), ("||", "=")):
        for sep in ("/**/", "/* c */", "//\n", "/**//**/"):
            if a_ == "/" and sep.startswith("/"):
                continue
            for l_, r_ in (("1", "1"), ("a", "2"), ("true", "true"), ("x", "b")):
                toks = [l_, a_, b_, r_]
                case = c13_case(toks)
                src = l_ + " " + a_ + sep + b_ + " " + r_
                ops = C13_SETUP + ["evc build " + hexs(src), "evc smv " + hexs(src), "evc sfv " + hexs(src), "evc srv " + hexs(src)]
                meta = dict(case[1]); meta["src"] = src
                cases.append((G.script("H", ops), meta))
    # deep nesting: balanced input is never reported as unbalanced, whatever the depth; one parenthesis too many or too few always is
    for d in (20, 40, 63, 64, 65, 70, 127, 128, 129, 255, 256, 257, 300, 600, 1000):
        for inner in (["1"], ["a", "+", "1"], ["f", "(", "1", ")"], ["1", ",", "2"], []):
            cases.append(c13_case(["("] * d + inner + [")"] * d))
            cases.append(c13_case(["("] * (d + 1) + inner + [")"] * d))
            cases.append(c13_case(["("] * d + inner + [")"] * (d + 1)))
        cases.append(c13_case(["f", "("] * d + ["1"] + [")"] * d))
        cases.append(c13_case(["(", "1", ","] * d + ["2"] + [")"] * d))
        cases.append(c13_case(["-", "("] * d + ["1", "+"] + [")"] * d))
    # an operator directly after an operator, followed by two operands
    ops_all = sorted(BINARY_TOKENS) + ["-", "!", ",", ";"]
    for o1 in ops_all:
        for o2 in ops_all:
            for tail in (["2", "3"], ["( 2 )", "( 3 )"], ["a", "b"], ["2"], ["2", "3", "4"]):
                cases.append(c13_case(["1", o1, o2] + " ".join(tail).split(" ")))
                cases.append(c13_case(["a", o1, o2] + " ".join(tail).split(" ")))
    # near misses of well-formed programs
    for _ in range(10000 if tier == "quick" else 100000):
        raw = G.rand_seq(rng, 2) if rng.random() < 0.3 else G.rand_expr(rng, rng.randint(1, 4))
        e = G.parenthesize_seq(raw) if raw[0] in ("tuple", "chain") else G.parenthesize(raw)
        toks = G.flatten(e)
        k = rng.random()
        if toks and k < 0.3:
            toks.pop(rng.randrange(len(toks)))
        elif toks and k < 0.6:
            toks.insert(rng.randrange(len(toks) + 1), rng.choice(G.TOKEN_ALPHABET_FULL))
        elif len(toks) > 1 and k < 0.8:
            i = rng.randrange(len(toks) - 1)
            toks[i], toks[i + 1] = toks[i + 1], toks[i]
        cases.append(c13_case(toks))
    yield cases


def c13_oracle(case, out, model_out):
    m = case[1]
    if m.get("kind") != "token-seq-eval":
        return None
    if out.startswith("PANIC"):
        return None
    steps = step_outputs(out)[len(C13_SETUP):]
    build, evals = steps[0], steps[1:]
    if not m["balanced"] and build.startswith("OK"):
        return "unbalanced parentheses in %r are accepted: %s" % (m["src"], build[:200])
    if m["balanced"] and (build.startswith("ERR UnmatchedLBrace") or build.startswith("ERR UnmatchedRBrace")):
        return "balanced input %r is reported as unbalanced: %s" % (m["src"], build)
    if m["reason"] is not None:
        for e in evals:
            if e.startswith("OK"):
                return "%r is ill-formed (%s) but evaluates: %s" % (m["src"], m["reason"], e[:200])
        if build.startswith("OK ") and not tree_arity_defect(build[3:]):
            return "%r is ill-formed (%s) but precompiles to a tree in which every operator has a legal number of operands: %s" % (m["src"], m["reason"], build[:300])
    return None


PROPS["C13"] = {
    "gen": c13_gen, "oracle": c13_oracle, "extra_props": ["C13Eval"],
    "rule": "all token sequences of length <= 4 (quick) / 6 (thorough) over a 16-token alphabet, all of length 5-6 over {f 1 ( ) + -} and of length 5 over two 7/8-token alphabets, random sequences up to 10 tokens over the full alphabet, near misses of well-formed programs (token deleted / inserted / swapped); each is classified by an independent recogniser (parenthesis counter + operand/operator automaton with the function-application and empty-element rules) and precompiled and evaluated in an empty and a populated context; non-trivial = classified ill-formed or unbalanced",
    "nontrivial": lambda c, out: c[1].get("reason") is not None or not c[1].get("balanced", True),
    "exhaustive": True,
    "assumptions": ["the Python recogniser of tools/props.py is the twin of Spec/Recognizer.v; used only to search for failing inputs",
                    "model of the tree builder equals the Rust code: correspondence of this run"],
}


# ---------------------------------------------------------------------------------------------
# C10: builtins.  Reference for the non-transcendental builtins computed here; the math functions are
# compared with the model, which routes them to the very same std functions (argument order, conversion).
# ---------------------------------------------------------------------------------------------
MATH1 = {"math::ln", "math::log2", "math::log10", "math::exp", "math::exp2", "math::cos", "math::acos", "math::cosh",
         "math::acosh", "math::sin", "math::asin", "math::sinh", "math::asinh", "math::tan", "math::atan", "math::tanh",
         "math::atanh", "math::sqrt", "math::cbrt", "floor", "round", "ceil"}
MATH2 = {"math::log", "math::pow", "math::atan2", "math::hypot"}


def is_num(v):
    return v[0] in "IF"


def num_lt(a, b):
    if a[0] == "I" and b[0] == "I":
        return a[1] < b[1]
    return to_f(a) < to_f(b)


def has_nan(vs):
    return any(v[0] == "F" and to_f(v) != to_f(v) for v in vs)


def utf8len(s):
    return len(s.encode("utf-8"))


def wrap64(z):
    z &= (1 << 64) - 1
    return z - (1 << 64) if z >> 63 else z


def c10_reference(name, arg):
    """returns ('val', text) | 'err' | ('oneof', [texts]) | None (not constrained here)"""
    t, x = arg
    if name in MATH1:
        if not is_num(arg):
            return "err"
        f = to_f(arg)
        if name in ("floor", "ceil"):
            if f != f or math.isinf(f):
                r = f
            else:
                r = float(math.floor(f) if name == "floor" else math.ceil(f))
                if r == 0.0:
                    r = math.copysign(0.0, f)
            return ("val", "F%016x" % f_bits(r))
        return None
    if name in MATH2:
        if t != "T" or len(x) != 2 or not all(is_num(v) for v in x):
            return "err"
        return None
    if name in ("math::is_nan", "math::is_finite", "math::is_infinite", "math::is_normal"):
        if not is_num(arg):
            return "err"
        f = to_f(arg)
        r = {"math::is_nan": f != f, "math::is_finite": not (f != f or math.isinf(f)), "math::is_infinite": math.isinf(f),
             "math::is_normal": (f == f and not math.isinf(f) and abs(f) >= 2.2250738585072014e-308)}[name]
        return ("val", "B%d" % r)
    if name == "math::abs":
        if t == "I":
            return "err" if x == G.I64_MIN else ("val", "I%d" % abs(x))
        if t == "F":
            return ("val", "F%016x" % (x & ~(1 << 63) if x != NAN else NAN))
        return "err"
    if name == "typeof":
        return ("val", "S" + hexs({"S": "string", "F": "float", "I": "int", "B": "boolean", "T": "tuple", "E": "empty"}[t]))
    if name in ("min", "max"):
        items = x if t == "T" else [arg]
        if t not in "TIF":
            return "err"
        if not items or not all(is_num(v) for v in items):
            return "err"
        if has_nan(items):
            return None
        if name == "min":
            best = [v for v in items if not any(num_lt(w, v) for w in items)]
        else:
            best = [v for v in items if not any(num_lt(v, w) for w in items)]
        return ("oneof", [value_text(v) for v in best])
    if name == "if":
        if t != "T" or len(x) != 3 or x[0][0] != "B":
            return "err"
        return ("val", value_text(x[1] if x[0][1] else x[2]))
    if name == "contains":
        if t != "T" or len(x) != 2 or x[0][0] != "T" or x[1][0] in "TE":
            return "err"
        return ("val", "B%d" % any(veq(e, x[1]) for e in x[0][1]))
    if name == "contains_any":
        if t != "T" or len(x) != 2 or x[0][0] != "T" or x[1][0] != "T" or any(e[0] in "TE" for e in x[1][1]):
            return "err"
        return ("val", "B%d" % any(veq(e, w) for e in x[0][1] for w in x[1][1]))
    if name == "len":
        # the unit (bytes or characters) is not claimed; consistency with str::substring is (see c10 consistency cases)
        if t == "S":
            return ("oneof", sorted({"I%d" % utf8len(x), "I%d" % len(x)}))
        if t == "T":
            return ("val", "I%d" % len(x))
        return "err"
    if name == "str::trim":
        return ("val", "S" + hexs(x.strip("".join(chr(c) for c in G.WHITESPACE)))) if t == "S" else "err"
    if name in ("str::to_lowercase", "str::to_uppercase"):
        return None if t == "S" else "err"
    if name == "str::from":
        if t == "S":
            return ("val", "S" + hexs(x))
        if t == "I":
            return ("val", "S" + hexs(str(x)))
        if t == "B":
            return ("val", "S" + hexs("true" if x else "false"))
        if t == "E":
            return ("val", "S" + hexs("()"))
        return None
    if name == "str::substring":
        if t != "T" or len(x) not in (2, 3) or x[0][0] != "S" or x[1][0] != "I" or (len(x) == 3 and x[2][0] != "I"):
            return "err"
        def sub(unit_bytes):
            start = x[1][1]
            if unit_bytes:
                b = x[0][1].encode("utf-8")
                end = x[2][1] if len(x) == 3 else len(b)
                if start < 0 or end < 0 or start > end or end > len(b):
                    return "err"
                try:
                    b[:start].decode("utf-8")
                    mid = b[start:end].decode("utf-8")
                    b[end:].decode("utf-8")
                except UnicodeDecodeError:
                    return "err"
                return "S" + hexs(mid)
            end = x[2][1] if len(x) == 3 else len(x[0][1])
            if start < 0 or end < 0 or start > end or end > len(x[0][1]):
                return "err"
            return "S" + hexs(x[0][1][start:end])
        rb, rc = sub(True), sub(False)
        if rb == rc:
            return "err" if rb == "err" else ("val", rb)
        return ("oneof-or-err", [r for r in (rb, rc) if r != "err"], "err" in (rb, rc))
    if name in ("bitand", "bitor", "bitxor", "shl", "shr"):
        if t != "T" or len(x) != 2 or x[0][0] != "I" or x[1][0] != "I":
            return "err"
        a, b = x[0][1], x[1][1]
        if name == "bitand":
            return ("val", "I%d" % (a & b))
        if name == "bitor":
            return ("val", "I%d" % (a | b))
        if name == "bitxor":
            return ("val", "I%d" % (a ^ b))
        if not 0 <= b <= 63:
            return None
        return ("val", "I%d" % (wrap64(a << b) if name == "shl" else a >> b))
    if name == "bitnot":
        return ("val", "I%d" % (~x)) if t == "I" else "err"
    return "err-notfound"


def c10_oracle(case, out, model_out):
    m = case[1]
    if m.get("kind") == "len-substring-unit":
        last = step_outputs(out)[-1]
        if last != "OK B1":
            return "len and str::substring disagree on the indexing unit: with x = %s, `%s` gives %s" % (m["arg"], m["src"], last)
        return None
    if m.get("kind") != "builtin":
        return None
    if out.startswith("PANIC"):
        return "panic in builtin %s(%s)" % (m["name"], m["arg"])
    last = step_outputs(out)[-1]
    ref = c10_reference(m["name"], parse_value(m["arg"]))
    if ref is None:
        # routed to std: the verified model calls the same std function with the documented arguments
        if model_out is not None and not model_out.startswith("PANIC"):
            mlast = step_outputs(model_out)[-1]
            if mlast != last and not (mlast.startswith("ERR") and last.startswith("ERR")):
                return "%s(%s) = %s, the reference (std function on the documented arguments) gives %s" % (m["name"], m["arg"], last, mlast)
        return None
    if ref == "err" or ref == "err-notfound":
        if last.startswith("OK"):
            return "%s(%s) must be an error (wrong arity / type / range), got %s" % (m["name"], m["arg"], last)
        return None
    if ref[0] == "val" and last != "OK " + ref[1]:
        return "%s(%s) = %s, documented result %s" % (m["name"], m["arg"], last, ref[1])
    if ref[0] == "oneof-or-err":
        if last.startswith("OK ") and last[3:] not in ref[1]:
            return "%s(%s) = %s, neither the byte-indexed nor the character-indexed substring %s" % (m["name"], m["arg"], last, ref[1])
        if last.startswith("ERR") and not ref[2]:
            return "%s(%s) fails with %s but the range is valid in both indexing units" % (m["name"], m["arg"], last)
        return None
    if ref[0] == "oneof" and (not last.startswith("OK ") or last[3:] not in ref[1]):
        return "%s(%s) = %s, must be one of the extreme arguments %s" % (m["name"], m["arg"], last, ref[1])
    return None


def c10_gen(tier, rng):
    cases = []
    P, SP = G.pool(), G.small_pool()
    names = list(L.DOCUMENTED_BUILTINS)

    def add(name, arg):
        cases.append((G.call_case(name, arg), {"kind": "builtin", "name": name, "arg": arg}))

    ints = [G.vI(i) for i in G.INTS]
    for n in names:
        for a in P:
            add(n, a)
        # random single arguments too (floats of every magnitude, integers, strings): the pool is finite
        for _ in range(80 if tier == "quick" else 2000):
            k = rng.random()
            add(n, G.vF(G.rand_float_bits(rng)) if k < 0.6 else G.vI(G.clamp_i64(G.rand_int(rng))) if k < 0.8 else G.vS(G.rand_unicode_string(rng, 8)))
        pairs = [(a, b) for a in SP for b in SP]
        if n in ("bitand", "bitor", "bitxor", "shl", "shr", "min", "max", "math::pow", "math::log", "math::atan2", "math::hypot"):
            pairs += [(a, b) for a in ints for b in ints if rng.random() < (1.0 if tier == "thorough" else 0.25)]
        if n in ("shl", "shr"):
            pairs += [(a, G.vI(k)) for a in ints for k in range(-2, 67)]
        if n in ("min", "max", "math::pow", "math::log", "math::atan2", "math::hypot"):
            fl = [G.vF(b) for b in G.FLOAT_BITS]
            pairs += [(a, b) for a in fl + ints for b in fl if rng.random() < (1.0 if tier == "thorough" else 0.08)]
        if n in ("min", "max", "math::pow", "math::log", "math::atan2", "math::hypot"):
            # where integer and double arithmetic part ways, and the special doubles: all pairs
            def boundary(v):
                if v[0] == "I":
                    return abs(int(v[1:])) >= 2 ** 53 - 1 or abs(int(v[1:])) <= 2
                f = G.bits_to_float(int(v[1:], 16))
                return f != f or f == 0.0 or abs(f) >= 2.0 ** 52 or abs(f) in (0.5, 1.0, 2.0, 10.0)
            Bn = [v for v in P if v[0] in "IF" and boundary(v)]
            pairs += [(a, b) for a in Bn for b in Bn]
        if n in ("contains", "contains_any"):
            pairs += [(t, v) for t in G.TUPLES for v in P if rng.random() < 0.5]
            hay = G.vT([G.vS("ab"), G.vS("A"), G.vS("abc"), G.vS(""), G.vS("ä"), G.vI(1), G.vF(G.fbits(1.0)), G.vB(True)])
            pairs += [(hay, v) for v in P] + [(hay, G.vT([v, G.vS("zz")])) for v in P if v[0] in "SIFB"]
        for a, b in pairs:
            add(n, G.vT([a, b]))
        for _ in range(150 if tier == "quick" else 3000):
            k = rng.choice([0, 1, 2, 3, 3, 3, 4])
            add(n, G.vT([rng.choice(P) if rng.random() < 0.7 else G.rand_value(rng) for _ in range(k)]))
    elems = [G.vI(1), G.vI(9), G.vT([G.vI(7)]), "E", G.vS("a"), G.vF(G.fbits(1.0))]
    for a in (G.vT([G.vI(1), G.vI(2), G.vI(3)]), G.vT([G.vS("a"), G.vF(G.fbits(1.0))]), G.vT([])):
        for x in elems:
            for y in elems:
                add("contains_any", G.vT([a, G.vT([x, y])]))
                for z in elems:
                    add("contains_any", G.vT([a, G.vT([x, y, z])]))
            add("contains", G.vT([a, x]))
    for x in P:
        if x[0] != "I":
            add("str::substring", G.vT([G.vS("foobar"), G.vI(1), x]))
            add("str::substring", G.vT([G.vS("foobar"), x, G.vI(3)]))
            add("str::substring", G.vT([G.vS("foobar"), x]))
    # substring: subject x offsets
    for s in G.STRINGS:
        blen = len(s.encode("utf-8"))
        for a in range(-1, blen + 2):
            add("str::substring", G.vT([G.vS(s), G.vI(a)]))
            for b in range(-1, blen + 2):
                add("str::substring", G.vT([G.vS(s), G.vI(a), G.vI(b)]))
        add("len", G.vS(s))
    # len and str::substring use the same indexing unit
    for s in G.STRINGS + [G.rand_unicode_string(rng, 8) for _ in range(300)]:
        if '\x00' in s:
            continue
        for src, kind in (("str::substring(x, 0, len(x)) == x", "whole"), ("len(str::substring(x, len(x)))  == 0", "tail"),
                          ("len(str::substring(x, 0, len(x))) == len(x)", "len-of-sub")):
            cases.append((G.script("H", ["init %s %s" % (hexs("x"), G.vS(s)), "ev srv " + hexs(src)]),
                          {"kind": "len-substring-unit", "src": src, "arg": G.vS(s)}))
    # typed `if`
    for c in ("B1", "B0"):
        for a in SP:
            for b in SP:
                add("if", G.vT([c, a, b]))
    # min / max over longer lists
    for _ in range(3000 if tier == "quick" else 50000):
        items = [G.vI(G.clamp_i64(G.rand_int(rng))) if rng.random() < 0.5 else G.vF(G.rand_float_bits(rng)) for _ in range(rng.randint(1, 5) if rng.random() < 0.8 else rng.randint(6, 40))]
        add(rng.choice(["min", "max"]), G.vT(items))
    # names that are not builtins
    for n in ["abs", "sqrt", "math::min", "Math::ln", "str::len", "math::log1p", "substring", "floor2", "shl2"] + builtin_near_misses():
        add(n, G.vI(1))
        add(n, G.vF(G.fbits(1.5)))
    return cases


PROPS["C10"] = {
    "gen": c10_gen, "oracle": c10_oracle, "release": True, "extra_props": ["FloatIEEE2", "IntText"],
    "rule": "every documented builtin (49) applied to every value of the edge pool P, to all pairs of the small pool (full integer/float pairs for the two-argument numeric ones, all shift amounts -2..66), to random tuples of arity 0..4, str::substring over all byte offsets of the string pool, typed `if`, min/max over random lists; debug and release builds; reference: documented result computed independently for the non-transcendental builtins, the std function on the documented arguments (through the model) for the others; non-trivial = the builtin returns a value",
    "nontrivial": lambda c, out: " OK " in out.split(" || ")[0].split(" | ")[-1] or out.split(" || ")[0].split(" | ")[-1].startswith("OK"),
    "assumptions": ["std oracle: the f64 functions of Rust's std are what the documentation calls `the corresponding double-precision library function`",
                    "model of builtin_function equals the Rust code: correspondence of this run (complete matrix, bit-exact)"],
}


# ---------------------------------------------------------------------------------------------
# C08 / C11: a reference interpreter for a small effectful language (python values:
# ("I", n) ("B", b) ("T", [..]) ("E", None) ("S", s))
# ---------------------------------------------------------------------------------------------
class Stop(Exception):
    def __init__(self, name):
        self.name = name


C08_FUNS = {"rec": "id", "k7": "konst:I7", "boom": "fail:" + hexs("boom"), "first": "fst", "sw": "swap", "up": "inc", "min": "id", "len": "fail:" + hexs("boom")}
C08_VARS = {"p": ("I", 1), "q": ("B", True), "t": ("T", [("I", 1), ("I", 2)])}
TYPE_NAME = {"S": "String", "I": "Int", "F": "Float", "B": "Boolean", "T": "Tuple", "E": "Empty"}


def ref_call(f, arg, log):
    log.append((f, arg))
    kind = C08_FUNS[f]
    if kind == "id":
        return arg
    if kind.startswith("konst"):
        return ("I", 7)
    if kind.startswith("fail"):
        raise Stop("CustomMessage")
    if kind == "fst":
        if arg[0] != "T":
            raise Stop("ExpectedTuple")
        if not arg[1]:
            raise Stop("OutOfBoundsAccess")
        return arg[1][0]
    if kind == "swap":
        if arg[0] != "T":
            raise Stop("ExpectedTuple")
        if len(arg[1]) != 2:
            raise Stop("ExpectedFixedLengthTuple")
        return ("T", [arg[1][1], arg[1][0]])
    if kind == "inc":
        if arg[0] != "I":
            raise Stop("ExpectedInt")
        return ("I", arg[1] + 1)
    raise ValueError(kind)


def ref_set(env, x, v, readonly):
    if readonly:
        raise Stop("ContextNotMutable")
    if x in env and env[x][0] != v[0]:
        raise Stop("Expected" + TYPE_NAME[env[x][0]])
    env[x] = v


def ref_eval(e, env, log, readonly=False):
    """strict left-to-right, children before the operator, first error wins"""
    k = e[0]
    if e is None:
        return ("E", None)
    if k == "lit":
        return parse_value(e[2])
    if k == "var":
        if e[1] not in env:
            raise Stop("VariableIdentifierNotFound")
        return env[e[1]]
    if k == "paren":
        return ("E", None) if e[1] is None else ref_eval(e[1], env, log, readonly)
    if k == "tuple":
        return ("T", [("E", None) if x is None else ref_eval(x, env, log, readonly) for x in e[1]])
    if k == "chain":
        vs = [("E", None) if x is None else ref_eval(x, env, log, readonly) for x in e[1]]
        return vs[-1]
    if k == "pre":
        v = ref_eval(e[2], env, log, readonly)
        if e[1] == "!":
            if v[0] != "B":
                raise Stop("ExpectedBoolean")
            return ("B", not v[1])
        if v[0] != "I":
            raise Stop("ExpectedNumber")
        return ("I", -v[1])
    if k == "call":
        a = ref_eval(e[2], env, log, readonly)
        if e[1] == "typeof":  # a real builtin: its argument is evaluated like any other
            return ("S", {"I": "int", "F": "float", "S": "string", "B": "boolean", "T": "tuple", "E": "empty"}[a[0]])
        if e[1] == "if":      # the builtin: an eager function of a 3-tuple like any other
            if a[0] != "T":
                raise Stop("ExpectedTuple")
            if len(a[1]) != 3:
                raise Stop("ExpectedFixedLengthTuple")
            if a[1][0][0] != "B":
                raise Stop("ExpectedBoolean")
            return a[1][1] if a[1][0][1] else a[1][2]
        return ref_call(e[1], a, log)
    if k == "bin":
        a = ref_eval(e[2], env, log, readonly)
        b = ref_eval(e[3], env, log, readonly)
        return ref_binop(e[1], a, b)
    if k == "asg":
        v = ref_eval(e[3], env, log, readonly)
        if e[1] == "=":
            ref_set(env, e[2], v, readonly)
            return ("E", None)
        if readonly:
            raise Stop("ContextNotMutable")
        if e[2] not in env:
            raise Stop("VariableIdentifierNotFound")
        r = ref_binop(e[1][:-1], env[e[2]], v)
        ref_set(env, e[2], r, readonly)
        return ("E", None)
    raise ValueError(k)


def ref_binop(op, a, b):
    if op in ("&&", "||"):
        if a[0] != "B":
            raise Stop("ExpectedBoolean")
        if b[0] != "B":
            raise Stop("ExpectedBoolean")
        return ("B", (a[1] and b[1]) if op == "&&" else (a[1] or b[1]))
    if op == "==":
        return ("B", veq(a, b))
    if op == "+":
        for v in (a, b):
            if v[0] not in "ISF":
                raise Stop("ExpectedNumberOrString")
        if a[0] == "I" and b[0] == "I":
            return ("I", a[1] + b[1])
        raise Stop("WrongTypeCombination")
    if op == "!=":
        return ("B", not veq(a, b))
    if op in ("<", ">", "<=", ">="):
        for v in (a, b):
            if v[0] not in "IF":
                raise Stop("ExpectedNumberOrString")
        x, y = a[1], b[1]
        return ("B", {"<": x < y, ">": x > y, "<=": x <= y, ">=": x >= y}[op])
    if op in ("-", "*", "/", "%", "^"):
        for v in (a, b):
            if v[0] not in "IF":
                raise Stop("ExpectedNumber")
        x, y = a[1], b[1]
        if op == "^":
            return ("F", 0)     # always a float; only its type is ever observable here (assigning it to an int variable fails)
        if op == "/":
            if y == 0:
                raise Stop("DivisionError")
            return ("I", trunc_div(x, y))
        if op == "%":
            if y == 0:
                raise Stop("ModulationError")
            return ("I", x - y * trunc_div(x, y))
        return ("I", x - y if op == "-" else x * y)
    raise ValueError(op)


def c08_rand_expr(r, depth, ty=None):
    """mostly well-typed (ty in 'I', 'B', 'T', None = any) so that most programs run to completion"""
    if ty is None or r.random() < 0.06:
        ty = r.choice("IIIBT")
    if depth <= 0 or r.random() < 0.2:
        if r.random() < 0.04:
            return ("var", r.choice(["u", "w"]))
        if ty == "I":
            if r.random() < 0.6:
                n = r.randint(0, 9)
                return ("lit", str(n), "I%d" % n)
            return ("var", "p")
        if ty == "B":
            if r.random() < 0.6:
                b = r.random() < 0.5
                return ("lit", "true" if b else "false", G.vB(b))
            return ("var", "q")
        return ("var", "t")
    k = r.random()
    if k < 0.12:
        return ("call", r.choice(["rec", "rec", "boom", "min"] if r.random() < 0.9 else sorted(C08_FUNS)), c08_rand_expr(r, depth - 1, ty))
    if k < 0.2:
        x = {"I": r.choice(["p", "u"]), "B": r.choice(["q", "w"]), "T": "t"}[ty]
        op = {"I": r.choice(["=", "+=", "-=", "*=", "=", "+=", "-=", "*=", "/=", "%=", "^="]), "B": r.choice(["=", "&&=", "||="]), "T": "="}[ty]
        return ("paren", ("chain", [("asg", op, x, c08_rand_expr(r, depth - 1, ty)), ("var", x)]))
    if k < 0.27:
        return ("paren", ("chain", [c08_rand_expr(r, depth - 1) if r.random() < 0.9 else None for _ in range(r.randint(1, 2))] + [c08_rand_expr(r, depth - 1, ty)]))
    if k < 0.30 and depth >= 2:      # the same operand twice: each occurrence is evaluated (and logged) on its own
        e1 = c08_rand_expr(r, depth - 1, ty if ty in "IB" else "I")
        if ty == "T":
            return ("paren", ("tuple", [e1, e1] + ([e1] if r.random() < 0.3 else [])))
        if ty == "B":
            return ("bin", r.choice(["&&", "||", "=="]), e1, e1)
        return ("bin", r.choice(["+", "*", "-"]), e1, e1)
    if k < 0.34:      # the builtin `if`: all three arguments are evaluated, in order, whatever the condition
        return ("call", "if", ("paren", ("tuple", [c08_rand_expr(r, depth - 1, "B"), c08_rand_expr(r, depth - 1, ty), c08_rand_expr(r, depth - 1, ty)])))
    if ty == "I":
        if k < 0.7:
            return ("bin", r.choice(["+", "+", "-", "*", "/", "%"]), c08_rand_expr(r, depth - 1, "I"), c08_rand_expr(r, depth - 1, "I"))
        if k < 0.8:
            return ("call", r.choice(["k7", "up", "first"]), c08_rand_expr(r, depth - 1, "T" if r.random() < 0.3 else "I"))
        if k < 0.9:
            return ("pre", "-", c08_rand_expr(r, depth - 1, "I"))
        return ("call", "first", c08_rand_expr(r, depth - 1, "T"))
    if ty == "B":
        if k < 0.6:
            return ("bin", r.choice(["&&", "||"]), c08_rand_expr(r, depth - 1, "B"), c08_rand_expr(r, depth - 1, "B"))
        if k < 0.66:
            return ("bin", r.choice(["<", ">", "<=", ">="]), c08_rand_expr(r, depth - 1, "I"), c08_rand_expr(r, depth - 1, "I"))
        if k < 0.7:       # typeof of anything, also of a power (always a float): the operands are evaluated whatever the type test makes of them
            inner = c08_rand_expr(r, depth - 1) if r.random() < 0.6 else ("bin", "^", c08_rand_expr(r, depth - 1, "I"), c08_rand_expr(r, depth - 1, "I"))
            tn = r.choice(["int", "float", "boolean", "tuple"])
            return ("bin", r.choice(["==", "!="]), ("call", "typeof", ("paren", inner) if inner[0] == "bin" else inner), ("lit", '"%s"' % tn, "S" + hexs(tn)))
        if k < 0.85:
            t2 = r.choice("IBT")
            return ("bin", r.choice(["==", "!="]), c08_rand_expr(r, depth - 1, t2), c08_rand_expr(r, depth - 1, t2))
        return ("pre", "!", c08_rand_expr(r, depth - 1, "B"))
    if k < 0.75:
        return ("paren", ("tuple", [c08_rand_expr(r, depth - 1) if r.random() < 0.93 else None for _ in range(r.randint(2, 3))]))
    if k < 0.9:
        return ("call", "sw", ("paren", ("tuple", [c08_rand_expr(r, depth - 1), c08_rand_expr(r, depth - 1)])))
    return ("call", "rec", c08_rand_expr(r, depth - 1, "T"))


def c08_setup(kind="H"):
    ops = ["init %s %s" % (hexs(k), value_text(v)) for k, v in sorted(C08_VARS.items())]
    ops += ["setfn %s %s" % (hexs(f), spec) for f, spec in sorted(C08_FUNS.items())]
    return ops


def c08_program(r):
    raw = c08_rand_expr(r, r.randint(1, 4))
    if r.random() < 0.4:
        stmts = []
        for _ in range(r.randint(1, 3)):
            if r.random() < 0.5:
                ty = r.choice("IB")
                x = r.choice(["p", "u"]) if ty == "I" else r.choice(["q", "w"])
                stmts.append(("asg", r.choice(["=", "=", "+="]) if ty == "I" else r.choice(["=", "&&=", "||="]), x, c08_rand_expr(r, r.randint(0, 3), ty)))
            else:
                stmts.append(c08_rand_expr(r, r.randint(0, 3)))
        raw = ("chain", stmts + [raw])
        e = G.parenthesize_seq(raw)
    else:
        e = G.parenthesize(raw)
    return e


def ref_run(e, readonly):
    env = dict(C08_VARS)
    log = []
    try:
        v = ref_eval(e, env, log, readonly)
        res = "OK " + value_text(v)
    except Stop as s:
        res = "ERR " + s.name
    ctx = ",".join("%s=%s" % (hexs(k), value_text(env[k])) for k in sorted(env, key=hexs))
    return res, ctx, ",".join("%s(%s)" % (hexs(f), value_text(a)) for f, a in log)


def triple_of(out, nsetup):
    """(last step result with error payload stripped, vars text, log text) of a SCRIPT outcome"""
    steps = step_outputs(out)
    last = steps[-1]
    if last.startswith("ERR "):
        last = "ERR " + re.match(r"ERR (\w+)", last).group(1)
    tail = out.split(" || ")[1]
    ctx = tail[len("CTX{"):tail.index(";off=")]
    lg = tail[tail.index("LOG[") + 4:tail.rindex("]")]
    return last, ctx, lg


def c08_gen(tier, rng):
    cases = []
    n = 20000 if tier == "quick" else 300000
    for _ in range(n):
        e = c08_program(rng)
        src = G.render(G.flatten(e), None, "space")
        ro = rng.random() < 0.3
        want = ref_run(e, ro)
        lvl = rng.choice("sn")
        ty = rng.choice("vvvvvnnibtesf")    # typed entry points evaluate exactly once too; their result is the projection
        want = (strip_payload(project_text(ty, want[0])), want[1], want[2])
        cases.append((G.script("H", c08_setup() + ["ev %s%s%s %s" % (lvl, "r" if ro else "m", ty, hexs(src))]),
                      {"kind": "effects", "src": src, "want": list(want), "readonly": ro, "entry": lvl + ("r" if ro else "m") + ty}))
    # assignment targets that are expressions (the target is the string the left operand evaluates to):
    # left operand first, then the right one, then the assignment; (source, result, variables, call log)
    base = {"p": "I1", "q": "B1", "t": "T(I1,I2)"}
    def ctxt(**kw):
        d = dict(base); d.update(kw)
        return ",".join("%s=%s" % (hexs(k), d[k]) for k in sorted(d, key=hexs))
    L = lambda *calls: ",".join("%s(%s)" % (hexs(f), a) for f, a in calls)
    S = lambda x: "S" + hexs(x)
    for src, res, cx, lg in [
            ('(rec("z")) = rec(2); z', "OK I2", ctxt(z="I2"), L(("rec", S("z")), ("rec", "I2"))),
            ('(rec("p")) = rec(5)', "OK E", ctxt(p="I5"), L(("rec", S("p")), ("rec", "I5"))),
            ("(missing) = rec(1)", "ERR VariableIdentifierNotFound", ctxt(), ""),
            ('(boom("z")) = rec(1)', "ERR CustomMessage", ctxt(), L(("boom", S("z")))),
            ('(rec("z")) = boom(1)', "ERR CustomMessage", ctxt(), L(("rec", S("z")), ("boom", "I1"))),
            ('(rec("z")) = (p = 7; 3)', "OK E", ctxt(p="I7", z="I3"), L(("rec", S("z")))),
            ('("a" + boom(0)) = (p = 5; 6)', "ERR CustomMessage", ctxt(), L(("boom", "I0"))),
            ('(rec("q")) = rec(2)', "ERR ExpectedBoolean", ctxt(), L(("rec", S("q")), ("rec", "I2"))),
            ('(rec(1)) = rec(2)', "ERR ExpectedString", ctxt(), L(("rec", "I1"), ("rec", "I2"))),
            ('(rec("p")) += rec(2); p', "OK I3", ctxt(p="I3"), L(("rec", S("p")), ("rec", "I2"))),
            ("(p = 7; rec(3)) +", "ERR WrongOperatorArgumentAmount", ctxt(p="I7"), L(("rec", "I3"))),
            ("rec(1) * nope &&", "ERR VariableIdentifierNotFound", ctxt(), L(("rec", "I1"))),
            ("! (rec(1) == 1) ||", "ERR WrongOperatorArgumentAmount", ctxt(), L(("rec", "I1"))),
            ("(z = 2; rec(z)) <", "ERR WrongOperatorArgumentAmount", ctxt(z="I2"), L(("rec", "I2"))),
            ("p += (q = false; rec(5)) *", "ERR WrongOperatorArgumentAmount", ctxt(q="B0"), L(("rec", "I5"))),
            ("(rec(1), boom(2) -)", "ERR CustomMessage", ctxt(), L(("rec", "I1"), ("boom", "I2"))),
            ("rec(1); - ; rec(2)", "ERR WrongOperatorArgumentAmount", ctxt(), L(("rec", "I1"))),
            ("w = (); rec(1); w = 5; rec(2)", "ERR ExpectedEmpty", ctxt(w="E"), L(("rec", "I1"))),
            ("u = w = 1; rec(u); u = 5; rec(2); z = 3", "ERR ExpectedEmpty", ctxt(u="E", w="I1"), L(("rec", "E"))),
            ("w = rec(()); w = rec(1); rec(2)", "ERR ExpectedEmpty", ctxt(w="E"), L(("rec", "E"), ("rec", "I1"))),
            ("min(rec(1), rec(2))", "OK T(I1,I2)", ctxt(), L(("rec", "I1"), ("rec", "I2"), ("min", "T(I1,I2)"))),
            ("len(rec(1))", "ERR CustomMessage", ctxt(), L(("rec", "I1"), ("len", "I1")))]:
        for entry in ("smv", "nmv"):
            cases.append((G.script("H", c08_setup() + ["ev %s %s" % (entry, hexs(src))]),
                          {"kind": "effects", "src": src, "want": [res, cx, lg], "readonly": False, "entry": entry}))
    for src in ["false && rec(true)", "true || rec(false)", "false && (1/0 == 1)", "(rec(1), u = 5, 1/0, rec(2), u = 6)",
                "p += (p = 10; 1); p", "rec(1) + boom(2) * rec(3)", "u = 1; (1 / 0) == (u = 2); u = 3"]:
        cases.append((G.script("H", c08_setup() + ["ev smv " + hexs(src)]), {"kind": "effects-fixed", "src": src}))
    return cases


def c08_oracle(case, out, model_out):
    m = case[1]
    if m.get("kind") == "effects" and out.startswith("PANIC"):
        return "program %r (entry %s) panics: %s; the reference interpreter gives %s" % (m["src"], m.get("entry"), out[:160], tuple(m["want"]))
    if m.get("kind") != "effects":
        return None
    got = triple_of(out, 0)
    want = tuple(m["want"])
    if got != want:
        return "program %r (%s context, entry %s): (result, variables, call log) = %s, the reference interpreter (strict left-to-right, first error wins) gives %s" % (m["src"], "shared" if m.get("readonly") else "mutable", m.get("entry"), got, want)
    return None


PROPS["C08"] = {
    "gen": c08_gen, "oracle": c08_oracle, "release": True,
    "rule": "random programs (depth <= 4, optionally a chain of several) over int/bool literals, bound and unbound variables, + - * / && || ==, assignments = += -= *= &&= ||=, calls of six recording user functions (identity, constant, failing, first, swap, increment), tuples and chains with absent elements; evaluated with a mutable context at string and tree level; compared with a reference interpreter on (result or error name, final variables, ordered call log); non-trivial = the program has a call or an assignment",
    "nontrivial": lambda c, out: "LOG[]" not in out or "=" in c[1].get("src", ""),
    "assumptions": ["reference interpreter of tools/props.py (ref_eval): used only to search for failing inputs",
                    "model of the two evaluators equals the Rust code: correspondence of this run"],
}


# ---- C11 ----
def has_assign(e):
    if e is None or e[0] in ("lit", "var"):
        return False
    if e[0] == "asg":
        return True
    kids = {"bin": lambda: e[2:4], "pre": lambda: e[2:3], "call": lambda: e[2:3], "paren": lambda: [e[1]],
            "tuple": lambda: e[1], "chain": lambda: e[1]}[e[0]]()
    return any(has_assign(k) for k in kids)


def c11_gen(tier, rng):
    cases = []
    n = 15000 if tier == "quick" else 200000
    for _ in range(n):
        e = c08_program(rng)
        src = G.render(G.flatten(e), None, "space")
        kind = rng.choice(["H", "H", "N"])
        ty = rng.choice("vvvvvvnibtesf")      # the typed read-only entry points are projections of the same evaluation
        ops = c08_setup() + ["dump", "evc smv " + hexs(src), "ev sr%s %s" % (ty, hexs(src)), "ev nr%s %s" % (ty, hexs(src)), "dump"]
        cases.append((G.script(kind, ops), {"kind": "ro-vs-mut", "src": src, "ctx": kind, "assign": has_assign(e), "ty": ty,
                                             "want_ro": list(ref_run(e, True)), "want_mut": list(ref_run(e, False))}))
    # the full language without assignment operators: the two evaluators must agree exactly
    for _ in range(n // 2):
        raw = G.rand_seq(rng, 2, allow_asg=False) if rng.random() < 0.3 else G.rand_expr(rng, rng.randint(1, 4), allow_asg=False)
        e = G.parenthesize_seq(raw) if raw[0] in ("tuple", "chain") else G.parenthesize(raw)
        src = G.render(G.flatten(e), None, "space")
        kind = rng.choice(["H", "N"])
        extra = rng.choice([[], [], ["off 1"], ["setfn %s konst:I777" % hexs(rng.choice(["min", "len", "typeof"]))], ["off 1", "setfn %s id" % hexs("max")]])
        ty = rng.choice("vvvvsifnbte")
        lv = rng.choice("sn")
        ops = C12_SETUP + extra + ["dump", "evc %sm%s %s" % (lv, ty, hexs(src)), "ev %sr%s %s" % (lv, ty, hexs(src)), "dump"]
        cases.append((G.script(kind, ops), {"kind": "agree", "src": src, "ctx": kind, "entry": lv + "*" + ty}))
    for src in ["()", "", "1", "1.5", '"s"', "true", "(1,2)", "z", "y", "a;", "a", "b", "c", "x", "f(z)", "f(y)", "(z, z)", "1;", "typeof(z)", "if(x, z, y)"]:
        for ty in TYPES:
            for lv in "sn":
                for kind in ("H", "N"):
                    ops = C12_SETUP + ["dump", "evc %sm%s %s" % (lv, ty, hexs(src)), "ev %sr%s %s" % (lv, ty, hexs(src)), "dump"]
                    cases.append((G.script(kind, ops), {"kind": "agree", "src": src, "ctx": kind, "entry": lv + "*" + ty}))
    # variables whose names are not identifiers: the source text is an expression, never a key
    odd = ["true", "7", "a+b", "1 + 1", "", " a", "a ", "()", "-1", '"s"', "a;", "1.5", "f(a)", "a, b"]
    for src in odd + ["a", "b"]:
        for lv in "sn":
            for ty in "vi":
                ops = C12_SETUP + ["init %s I%d" % (hexs(nm), 40 + k) for k, nm in enumerate(odd)] + \
                      ["dump", "evc %sm%s %s" % (lv, ty, hexs(src)), "ev %sr%s %s" % (lv, ty, hexs(src)), "dump"]
                cases.append((G.script("H", ops), {"kind": "agree", "src": src, "ctx": "H", "entry": lv + "*" + ty}))
    # contexts without variable storage / read-only kinds
    for src in ["a = 1", "a += 1", "1; a = 2", "q = 1; q", "1 + (z = 2)", "a = 2.5", 'a = "s"', "c = 1", "a ^= 2", "a /= 2.0", "b = 1", 'x = ()', "y = 1", '"a" = 1.5',
                "z = 1", "a += 0.5", "a *= 1", "a += 0", "a -= 0", "a /= 1", "x &&= true", "x ||= true", 'c += ""', "b *= 1.0", "a %= 7"]:
        for kind in ("N", "E", "EB"):
            ops = (C12_SETUP if kind == "N" else []) + ["dump", "ev srv " + hexs(src), "dump"] + (["evc smv " + hexs(src), "dump"] if kind == "N" else [])
            cases.append((G.script(kind, ops), {"kind": "nostore", "src": src, "ctx": kind}))
            # ... and through every typed entry point at both levels
            ops = (C12_SETUP if kind == "N" else []) + ["dump"] + ["ev %sr%s %s" % (lv, ty, hexs(src)) for lv in "sn" for ty in TYPES] + \
                  (["evc %sm%s %s" % (lv, ty, hexs(src)) for lv in "sn" for ty in TYPES] if kind == "N" else []) + ["dump"]
            cases.append((G.script(kind, ops), {"kind": "nostore", "src": src, "ctx": kind}))
    return cases


def strip_payload(s):
    return "ERR " + re.match(r"ERR (\w+)", s).group(1) if s.startswith("ERR ") else s


def c11_oracle(case, out, model_out):
    m = case[1]
    if out.startswith("PANIC"):
        return "evaluating %r panics: %s" % (m.get("src"), out[:200]) if m.get("kind") in ("ro-vs-mut", "agree", "nostore") else None
    steps = step_outputs(out)
    if m.get("kind") == "ro-vs-mut":
        d0, mut, ro, ro_n, d1 = steps[-5:]
        if d0 != d1:
            return "read-only evaluation of %r changed the context: %s -> %s" % (m["src"], d0, d1)
        if ro != ro_n:
            return "string-level and tree-level read-only evaluation of %r differ: %s vs %s" % (m["src"], ro, ro_n)
        if m["ctx"] == "H" and "LOG[" in out:
            lg = out[out.index("LOG[") + 4:out.rindex("]")]
            want_lg = ",".join(x for x in (m["want_mut"][2], m["want_ro"][2], m["want_ro"][2]) if x)
            if lg != want_lg:
                return "evaluating %r once with a mutable and twice with a shared context calls the user functions %s; the reference (every call made, once, in order) gives %s" % (m["src"], lg, want_lg)
        if m["ctx"] == "N":      # read-only evaluation does not depend on how the context would store anything
            ty = m.get("ty", "v")
            if strip_payload(ro) != strip_payload(project_text(ty, m["want_ro"][0])):
                return "read-only evaluation of %r on a context without variable storage (result type %s) gives %s; the reference gives %s" % (m["src"], ty, ro, m["want_ro"][0])
        if m["ctx"] == "H":
            ty = m.get("ty", "v")
            if not m["assign"] and strip_payload(ro) != strip_payload(project_text(ty, mut)):
                return "%r has no assignment operator but eval_with_context (result type %s) gives %s and eval_with_context_mut gives %s" % (m["src"], ty, ro, mut)
            if strip_payload(ro) != strip_payload(project_text(ty, m["want_ro"][0])):
                return "read-only evaluation of %r (result type %s) gives %s; projecting the mutable run (ContextNotMutable at the first assignment applied, earlier errors first) gives %s" % (m["src"], ty, ro, m["want_ro"][0])
        return None
    if m.get("kind") == "agree":
        d0, mut, ro, d1 = steps[-4:]
        if d0 != d1:
            return "read-only evaluation of %r changed the context" % m["src"]
        if ro != mut:
            return "%r has no assignment operator but the read-only entry point gives %s and the mutable one gives %s (entry %s)" % (m["src"], ro, mut, m.get("entry"))
        return None
    if m.get("kind") == "nostore":
        ds = [s for s in steps if s.startswith("CTX{")]
        if len(set(ds)) != 1:
            return "an assignment changed a context without variable storage: %s" % ds
        for s in steps:
            if s.startswith("OK") and s != "OK" and "=" in m["src"] and not m["src"].startswith("q"):
                return "assignment %r succeeded on context kind %s: %s" % (m["src"], m["ctx"], s)
        evs = [s for s in steps if not s.startswith("CTX{") and s not in ("OK", "NA")]
        if m["src"] in ("a = 2.5", 'a = "s"', "c = 1", "a ^= 2", "a /= 2.0", "b = 1", "x = ()", "y = 1", '"a" = 1.5', "z = 1", "a += 0.5", "a = 1", "a += 1", "1; a = 2", "a *= 1", "a += 0", "a -= 0", "a /= 1", "x &&= true", "x ||= true", 'c += ""', "b *= 1.0", "a %= 7"):
            for s in evs:
                if s != "ERR ContextNotMutable":
                    return "assignment %r on a context without variable storage (kind %s) must fail with ContextNotMutable in every entry point, got %s" % (m["src"], m["ctx"], s)
    return None


PROPS["C11"] = {
    "gen": c11_gen, "oracle": c11_oracle,
    "rule": "random effectful programs (as C08) and random assignment-free programs of the full language, each evaluated with eval_with_context_mut on a clone and with eval_with_context (string and tree level) on the same HashMapContext or NoStore context, state dumped before and after; expected: equal results when no assignment operator occurs, ContextNotMutable projection otherwise (reference interpreter), context unchanged; non-trivial = the two calls return a value or the projection applies",
    "nontrivial": lambda c, out: True,
    "assumptions": ["reference interpreter of tools/props.py in read-only mode: used only to search for failing inputs",
                    "model of the two evaluators equals the Rust code: correspondence of this run"],
}


# ---------------------------------------------------------------------------------------------
# C04: histories of context operations against an abstract map
# ---------------------------------------------------------------------------------------------
C04_NAMES = ["a", "b"]
# more names for the histories: most steps still use a / b so that the steps keep interacting
C04_MORE_NAMES = ["A", "a1", "_c", "math::x", "ab", "ba", "c", "d", "e2", "zz", "aa", "B", "max", "len", "if", "min", "typeof", "str::from", "math::pi"]
# names that only the API can use (not identifiers of the language)
C04_API_NAMES = ["", " a", "a ", "é", "true", "1", "a+b", "variables"]
C04_SEQ_LITERALS = {"T(I1,I2)": "(1, 2)", "E": "()", "T(I1,I2,I3)": "(1, 2, 3)", "T(E,I1)": "(, 1)", "T(I1,F4004000000000000)": "(1, 2.5)",
                    "T(T(I1,I2),S78)": '((1, 2), "x")'}
C04_EXTREMES = ["I9223372036854775807", "I-9223372036854775808", "I9223372036854775806", "I9007199254740993", "F7ff0000000000000", "Ffff0000000000000",
                "F7ff8000000000000", "F4340000000000000", "F7fefffffffffffff", "F0000000000000001", "I3037000500", "I-1"]
C04_VALUES = ["I1", "I2", "F3ff8000000000000", "F4004000000000000", "S" + hexs("x"), "S" + hexs("yz"), "B1", "B0",
              "F0000000000000000", "F8000000000000000", "I0", "S",
              "T(I1)", "T(I1,I2)", "E", "T()", "T(F0000000000000000)", "T(F8000000000000000)"]


class AbsCtx:
    def __init__(self):
        self.vars = {}
        self.funs = {}
        self.off = False

    def clone(self):
        c = AbsCtx()
        c.vars, c.funs, c.off = dict(self.vars), dict(self.funs), self.off
        return c

    def set_value(self, x, v):
        if x in self.vars and self.vars[x][0] != v[0]:
            return "ERR Expected%s(%s)" % (TYPE_NAME[self.vars[x][0]], value_text(v))
        self.vars[x] = v
        return "OK"

    def dump(self):
        vs = ",".join("%s=%s" % (hexs(k), value_text(self.vars[k])) for k in sorted(self.vars, key=hexs))
        return "CTX{%s;off=%d;fns=%s}" % (vs, self.off, ",".join(sorted(hexs(f) for f in self.funs)))


def py_binop(op, a, b):
    """the plain operator of an op-assign on the value pairs used by the history generator; returns value or 'ERR name'"""
    ta, tb = a[0], b[0]
    if op in ("&&", "||"):
        if ta != "B":
            return "ERR ExpectedBoolean(%s)" % value_text(a)
        if tb != "B":
            return "ERR ExpectedBoolean(%s)" % value_text(b)
        return ("B", (a[1] and b[1]) if op == "&&" else (a[1] or b[1]))
    if op == "+":
        for v in (a, b):
            if v[0] not in "ISF":
                return "ERR ExpectedNumberOrString(%s)" % value_text(v)
        if ta == "S" and tb == "S":
            return ("S", a[1] + b[1])
        if ta == "S" or tb == "S":
            return "ERR WrongTypeCombination"
    else:
        for v in (a, b):
            if v[0] not in "IF":
                return "ERR ExpectedNumber(%s)" % value_text(v)
    if op == "^":
        return ("F", f_bits(math.pow(to_f(a), to_f(b))))
    if ta == "I" and tb == "I":
        x, y = a[1], b[1]
        if op in ("/", "%") and y == 0:
            return "ERR " + ("DivisionError" if op == "/" else "ModulationError")
        if op == "%" and x == G.I64_MIN and y == -1:
            return "ERR ModulationError"
        r = {"+": x + y, "-": x - y, "*": x * y, "/": trunc_div(x, y) if y else 0, "%": x - y * trunc_div(x, y) if y else 0}[op]
        if not G.I64_MIN <= r <= G.I64_MAX:
            return "ERR " + {"+": "AdditionError", "-": "SubtractionError", "*": "MultiplicationError", "/": "DivisionError", "%": "ModulationError"}[op]
        return ("I", r)
    x, y = to_f(a), to_f(b)
    if op == "/":
        r = ieee_div(x, y)
    elif op == "%":
        r = ieee_fmod(x, y)
    else:
        r = {"+": x + y, "-": x - y, "*": x * y}[op]
    return ("F", f_bits(r))


def ieee_div(x, y):
    if y == 0.0:
        if x != x or x == 0.0:
            return float("nan")
        return math.copysign(float("inf"), x) * math.copysign(1.0, y)
    return x / y


def ieee_fmod(x, y):
    if math.isinf(x) or y == 0.0 or x != x or y != y:
        return float("nan")
    return math.fmod(x, y)


def c04_history(rng, length):
    """one history: (ops, expected step outputs); values small so that python arithmetic is exact"""
    A = AbsCtx()
    ops, want = [], []
    clones = []
    wide = rng.random() < 0.4       # a history over many names and extreme values
    for _ in range(length):
        k = rng.random()
        x = rng.choice(C04_NAMES) if not wide or rng.random() < 0.5 else rng.choice(C04_MORE_NAMES)
        if k < 0.22:
            v = rng.choice(C04_VALUES) if not wide or rng.random() < 0.5 else rng.choice(C04_EXTREMES)
            if wide and rng.random() < 0.15:
                x = rng.choice(C04_API_NAMES)
            ops.append("set %s %s" % (hexs(x), v))
            want.append(A.set_value(x, parse_value(v)))
        elif k < 0.5:
            aop = rng.choice(G.ASSIGNOPS)
            kk = rng.random()
            if wide and kk < 0.35:          # the right-hand side reads another variable (possibly an extreme value, possibly x itself)
                y = rng.choice(C04_NAMES + C04_MORE_NAMES[:3])
                ops.append("ev smv " + hexs("%s %s %s" % (x, aop, y)))
                if y not in A.vars:
                    want.append("ERR VariableIdentifierNotFound(%s)" % hexs(y))
                    ops.append("dump")
                    want.append(A.dump())
                    continue
                val = A.vars[y]
            elif wide and kk < 0.5:         # a tuple / the empty value written as an expression
                v = rng.choice(sorted(C04_SEQ_LITERALS))
                ops.append("ev smv " + hexs("%s %s %s" % (x, aop, C04_SEQ_LITERALS[v])))
                val = parse_value(v)
            else:
                v = rng.choice(C04_VALUES[:12])
                lit = G.literal_of(v)
                src = "%s %s %s" % (x, aop, lit)
                ops.append("ev smv " + hexs(src))
                val = parse_value(v)
            if wide and rng.random() < 0.5:
                code = rng.choice("sn") + "m" + rng.choice("veeinfsbt")
                ops[-1] = ops[-1].replace("ev smv ", "ev %s " % code, 1)
            else:
                code = "smv"
            proj = lambda w: project_text(code[2], w) if w.startswith("OK") else w
            if aop == "=":
                r = A.set_value(x, val)
                want.append(proj("OK E") if r == "OK" else r)
            elif x not in A.vars:
                want.append("ERR VariableIdentifierNotFound(%s)" % hexs(x))
            else:
                try:
                    r = py_binop(aop[:-1], A.vars[x], val)
                except (ValueError, OverflowError, ZeroDivisionError):
                    ops.pop()
                    continue
                if isinstance(r, str):
                    want.append(r)
                else:
                    s = A.set_value(x, r)
                    want.append(proj("OK E") if s == "OK" else s)
        elif k < 0.6:
            ops.append("get " + hexs(x))
            want.append("SOME " + value_text(A.vars[x]) if x in A.vars else "NONE")
        elif k < 0.66:
            ops.append("ev srv " + hexs(x))
            want.append("OK " + value_text(A.vars[x]) if x in A.vars else "ERR VariableIdentifierNotFound(%s)" % hexs(x))
        elif k < 0.71:
            ops.append("clrv")
            A.vars = {}
            want.append("OK")
        elif k < 0.74:
            ops.append("clrf")
            A.funs = {}
            want.append("OK")
        elif k < 0.77:
            ops.append("clr")
            A.vars, A.funs = {}, {}
            want.append("OK")
        elif k < 0.83:
            f = rng.choice(["f", "a", "max", "F", "Max", " f", "f "])
            kv = rng.choice([7, 8, 9])     # a later set_function of the same name replaces the earlier one
            ops.append("setfn %s konst:I%d" % (hexs(f), kv))
            A.funs[f] = kv
            want.append("OK")
        elif k < 0.87:
            b = rng.random() < 0.5
            ops.append("off %d" % b)
            A.off = b
            want.append("OK")
        elif k < 0.93:
            ops.append("clone")
            want.append("OK")
        elif k < 0.97:
            f = rng.choice(["f", "a", "max", "F", "Max", " f", "f "])
            ops.append("call %s I1" % hexs(f))
            want.append("OK I%d" % A.funs[f] if f in A.funs else "ERR FunctionIdentifierNotFound(%s)" % hexs(f))
        else:
            ops.append("ev srv " + hexs("max(1, 2)"))
            want.append("OK I%d" % A.funs["max"] if "max" in A.funs else "ERR FunctionIdentifierNotFound(%s)" % hexs("max") if A.off else "OK I2")
        ops.append("dump")
        want.append(A.dump())
    return ops, want


def c04_gen(tier, rng):
    cases = []
    n = 6000 if tier == "quick" else 80000
    for _ in range(n):
        ops, want = c04_history(rng, rng.choice([2, 3, 4, 6, 10, 20, 60]) if rng.random() < 0.5 else rng.randint(1, 8))
        cases.append((G.script("H", ops), {"kind": "history", "want": want}))
    # exhaustive: every pair of (typed value, assignment form) on one name: 12 values x (set | 9 assignment operators x 8 literals)
    for v0 in C04_VALUES:
        for v1 in C04_VALUES:
            A = AbsCtx()
            ops = ["set %s %s" % (hexs("a"), v0), "set %s %s" % (hexs("a"), v1), "dump"]
            want = [A.set_value("a", parse_value(v0)), A.set_value("a", parse_value(v1)), A.dump()]
            cases.append((G.script("H", ops), {"kind": "history", "want": want}))
        for v1 in C04_VALUES[:12]:
            for aop in G.ASSIGNOPS:
                A = AbsCtx()
                A.set_value("a", parse_value(v0))
                src = "a %s %s" % (aop, G.literal_of(v1))
                if aop == "=":
                    r = A.set_value("a", parse_value(v1))
                    w = "OK E" if r == "OK" else r
                else:
                    try:
                        r = py_binop(aop[:-1], A.vars["a"], parse_value(v1))
                    except (ValueError, OverflowError, ZeroDivisionError):
                        continue
                    if isinstance(r, str):
                        w = r
                    else:
                        s2 = A.set_value("a", r)
                        w = "OK E" if s2 == "OK" else s2
                cases.append((G.script("H", ["set %s %s" % (hexs("a"), v0), "ev smv " + hexs(src), "dump"]),
                              {"kind": "history", "want": ["OK", w, A.dump()]}))
    cases += c04_macro_cases()
    return cases


def c04_oracle(case, out, model_out):
    m = case[1]
    if m.get("kind") == "macro":
        if "want" in m and out != m["want"]:
            return "%s gives %s, setting the listed pairs in order on the abstract map gives %s" % (case[0], out, m["want"])
        if "want_prefix" in m and not (out.startswith(m["want_prefix"]) and all(p in out for p in m["want_parts"]) and len(re.findall(r"=F[0-9a-f]{16}", out)) == m["count"]):
            return "math_consts_context!() gives %s" % out[:300]
        return None
    if m.get("kind") == "history" and out.startswith("PANIC"):
        return "history %s: the library panicked (%s); every step has a defined outcome in the abstract map" % (case[0].split("\t")[2][:300], out[:160])
    if m.get("kind") != "history":
        return None
    steps = step_outputs(out)
    for i, (got, want) in enumerate(zip(steps, m["want"])):
        if want.startswith("ERR") and "(" not in want:
            ok = got.startswith(want)
        else:
            ok = got == want
        if not ok:
            ops = case[0].split("\t")[2].split(";")
            return "history %s: step %d (%s) gives %s, the abstract map gives %s" % (";".join(ops[:i + 1]), i, ops[i], got, want)
    if "CLONE-MISMATCH" in out or "ITER-MISMATCH" in out:
        return "clone independence / variable listing broken: " + out[-200:]
    return None


def c04_macro_cases():
    """context_map! / math_consts_context!: every pair is set in order, all are applied, the first error is returned"""
    def run(pairs, with_fn=False):
        A = AbsCtx()
        first_err = None
        for k, v in pairs:
            r = A.set_value(k, parse_value(v))
            if r != "OK" and first_err is None:
                first_err = r
        vs = ",".join("%s=%s" % (hexs(k), value_text(A.vars[k])) for k in sorted(A.vars, key=hexs))
        return A, first_err, "OK CTX{%s;off=0} f(1)=%s" % (vs, "I1" if with_fn else "FunctionIdentifierNotFound(66)")
    out = []
    _, _, w = run([])
    out.append(("0", w))
    _, _, w = run([("a", "I1"), ("b", "F4004000000000000"), ("c", "S73")], with_fn=True)
    out.append(("1", w))
    _, e, _ = run([("a", "I1"), ("a", "F4004000000000000"), ("b", "I3")])
    out.append(("2", e))
    _, _, w = run([("a", "I1"), ("a", "I2"), ("t", "T()"), ("t", "T(E)")])
    out.append(("3", w))
    _, _, w = run([("E", "F%016x" % f_bits(math.e)), ("PI", "F%016x" % f_bits(math.pi))])
    out.append(("5", w))
    _, e, w = run([("x", "I1"), ("x", "B1"), ("y", "I2")])
    out.append(("6", e + " " + w))
    cases = [("MACRO\t" + k, {"kind": "macro", "impl_only": True, "want": w}) for k, w in out]
    cases.append(("MACRO\t4", {"kind": "macro", "impl_only": True, "want_prefix": "OK CTX{45=F%016x," % f_bits(math.e),
                               "want_parts": ["5049=F%016x" % f_bits(math.pi), "544155=F%016x" % f_bits(math.tau), "535152545f32=F%016x" % f_bits(math.sqrt(2)),
                                              "465241435f50495f32=F%016x" % f_bits(math.pi / 2), ";off=0} f(1)=FunctionIdentifierNotFound(66)"], "count": 19}))
    return cases


PROPS["C04"] = {
    "gen": c04_gen, "oracle": c04_oracle, "release": True,
    "rule": "random histories (length 1..60) over two names and twelve values of the six types: set_value, expression assignments with the 9 assignment operators, get, read, clear_variables / clear_functions / clear, set_function, toggling builtins, clone-and-continue (the original is re-inspected at the end), call; the complete state is dumped after every step and compared with an abstract map with the type rule; plus every (old value, new value) pair through set_value and through every assignment operator; non-trivial = history of two or more steps",
    "nontrivial": lambda c, out: c[0].count(";") >= 2,
    "assumptions": ["abstract map of tools/props.py (AbsCtx): used only to search for failing inputs; twin of Spec/AbsCtx.v",
                    "clone independence is tested by the harness (clone, continue on the clone, re-dump the original), not proved",
                    "model of HashMapContext and of the assignment operators equals the Rust code: correspondence of this run"],
}


# ---------------------------------------------------------------------------------------------
# C09: function resolution -- the configuration matrix, enumerated completely
# ---------------------------------------------------------------------------------------------
C09_BUILTIN_SAMPLE = ["max", "min", "len", "typeof", "str::from", "math::abs", "floor", "if", "contains", "bitnot",
                      "math::sqrt", "str::trim"]
C09_NON_BUILTIN = ["foo", "g", "maxx", "Max", "abs", "math", "str::len", "_f"]
MARK = "I777"


def c09_cases(names_builtin, names_other, rng, full):
    cases = []
    argsrc = {"x": ("x", "I5"), "lit": ("3", "I3"), "str": ('"s"', "S" + hexs("s"))}
    for n in names_builtin + names_other:
        is_b = n in L.DOCUMENTED_BUILTINS
        for kind in ("H", "N", "E", "EB"):
            for off in ((False, True, "toggle") if kind in ("H", "N") else (None,)):
                for userfn in ((False, True, "fail") if kind in ("H", "N") else (False,)):
                    for var in ((False, True, "first") if kind in ("H", "N") else (False,)):
                        if var == "first" and not userfn:
                            continue
                        for post in (("", "clone", "clrf", "clone-first", "clone+clrf", "clone+clr") if kind == "H" else ("",)):
                            if not full and rng.random() < 0.5 and post:
                                continue
                            setup = []
                            off_first = kind in ("H", "N") and off is not None and rng.random() < 0.3   # the switch is set before anything is bound
                            if post == "clone-first":   # everything is bound on the clone; the original must stay empty
                                setup.append("clone")
                            if off_first:
                                setup += ["off 1", "off 0"] if off == "toggle" else ["off %d" % off]
                            if kind in ("H", "N"):
                                setup.append("init %s I3" % hexs("x"))
                                setup.append("init %s T(I7)" % hexs("t1"))
                                setup.append("setfn %s id" % hexs("wrap"))
                                if var == "first":     # the variable is bound before the function of the same name
                                    setup.append("init %s S%s" % (hexs(n), hexs("var")))
                                if userfn == "fail":
                                    setup.append("setfn %s fail:%s" % (hexs(n), hexs("boom")))
                                elif userfn:
                                    if kind == "H":    # a first binding that the second one must replace
                                        setup.append("setfn %s konst:I111" % hexs(n))
                                    setup.append("setfn %s konst:%s" % (hexs(n), MARK))
                                if var is True:
                                    setup.append("init %s S%s" % (hexs(n), hexs("var")))
                                if off_first:
                                    pass
                                elif off == "toggle":     # disabled, then enabled again
                                    setup += ["off 1", "off 0"]
                                elif off is not None:
                                    setup.append("off %d" % off)
                                if post in ("clone+clrf", "clone+clr"):    # the original stays alive while the copy is cleared
                                    setup += ["clone", "clrf"] if post == "clone+clrf" else ["clone", "clrf", "clrv", "init %s I3" % hexs("x"), "init %s T(I7)" % hexs("t1")]
                                    if var and post == "clone+clr":
                                        setup.append("init %s S%s" % (hexs(n), hexs("var")))
                                elif post and post != "clone-first":
                                    setup.append(post)
                            disabled = {"E": True, "EB": False}.get(kind, off is True)
                            has_user = (userfn if post not in ("clrf", "clone+clrf", "clone+clr") else False)
                            forms = [("%s(3)" % n, "I3"), ("%s 3" % n, "I3"), ("%s()" % n, "E"), ("%s(3, 4)" % n, "T(I3,I4)"),
                                     ('%s "s"' % n, "S" + hexs("s")), ("%s true" % n, "B1"), ("%s 2.5" % n, "F4004000000000000"),
                                     ("%s x" % n, "I3") if kind in ("H", "N") else ("%s (())" % n, "E")]
                            forms += [("%s %s 3" % (n, n), "I3"), ("%s((3))" % n, "I3"), ("%s /* c */ (3)" % n, "I3"), ("%s\n3" % n, "I3"),
                                      ("%s(true, 3, 4)" % n, "T(B1,I3,I4)"), ("%s((false, 3, 4))" % n, "T(B0,I3,I4)"), ('%s("a", "b", "c", "d")' % n, "T(S61,S62,S63,S64)")]
                            forms += [("%s !true" % n, None, "ERR AppendedToLeafNode"), ("%s - 1 !" % n, None, "ERR AppendedToLeafNode")]
                            # a call binds tighter than `^`; a call inside a written-out tuple, through the typed tuple entry point of the tree
                            forms += [("%s 2 ^ 3" % n, "I2", None, "pow3"), ("%s(2) ^ 3" % n, "I2", None, "pow3"), ("%s(3), 1" % n, "I3", None, "tuple")]
                            if kind in ("H", "N"):
                                forms.append(("%s t1" % n, "T(I7)"))     # a one-element tuple is passed as it is
                                forms.append(("%s(t1)" % n, "T(I7)"))
                            if kind in ("H", "N") and post not in ("clrf", "clone+clrf", "clone+clr"):
                                forms.append(("wrap %s 3" % n, "I3"))
                            ops = list(setup)
                            for src, *rest_ in forms:      # resolution is the same through the shared and the mutable entry points
                                if len(rest_) == 3 and rest_[2] == "tuple":
                                    ops.append("ev nrt " + hexs(src))
                                    continue
                                ops.append(rng.choice(["ev srv ", "ev srv ", "evc smv ", "evc nmv "] if kind in ("H", "N") else ["ev srv "]) + hexs(src))
                            ops.append("ev srv " + hexs(n))  # the bare name is a variable
                            if kind in ("E", "EB"):
                                ops += ["off 0", "off 1"]   # fixed policies: one of the two is refused, nothing changes
                            ops.append("dump")
                            cases.append((G.script(kind, ops), {"kind": "resolution", "name": n, "ctx": kind, "disabled": disabled, "user": has_user,
                                                              "var": bool(var), "is_builtin": is_b, "forms": forms, "nsetup": len(setup), "post": post}))
    return cases


def builtin_near_misses():
    """spellings next to the documented builtin names that are NOT builtins"""
    doc = set(L.DOCUMENTED_BUILTINS)
    out = set()
    for n in L.DOCUMENTED_BUILTINS:
        base = n.split("::")[-1]
        for c in ("math::" + base, "str::" + base, base, n.capitalize(), n.upper(), n + "_", n + "2", n[:-1], "_" + n, n.replace("::", ":"), n.replace("::", "::::"),
                  "std::" + base, n + "::", "::" + n, base + "::" + base, n.replace("_", ""), n.replace("_", "::")):
            if c and c not in doc and not c[0].isdigit() and ":" != c[-1] and c != "::" + n:
                out.add(c)
    return sorted(out)


def c09_gen(tier, rng):
    full = tier == "thorough"
    nb = list(L.DOCUMENTED_BUILTINS)     # every builtin name in both tiers (the quick tier drops half of the clone / clear_functions variants)
    cases = c09_cases(nb, C09_NON_BUILTIN, rng, full)
    # a user function bound under a variant spelling: the canonical name still means the builtin (or nothing)
    for n in nb + C09_NON_BUILTIN:
        variants = [v for v in (n.capitalize(), n.upper(), " " + n, n + " ", "::" + n, n.swapcase(), n + "_") if v != n]
        v = rng.choice(variants)
        forms = [("%s(3)" % n, "I3"), ("%s 3" % n, "I3"), ("%s(3, 4)" % n, "T(I3,I4)")]
        for off in (False, True):
            setup = ["setfn %s konst:%s" % (hexs(v), MARK)] + (["off 1"] if off else [])
            ops = setup + ["ev srv " + hexs(src) for src, _ in forms] + ["ev srv " + hexs(n), "call %s I1" % hexs(n), "call %s I1" % hexs(v), "dump"]
            cases.append((G.script("H", ops), {"kind": "resolution", "name": n, "ctx": "H", "disabled": off, "user": False, "var": False,
                                                "is_builtin": n in L.DOCUMENTED_BUILTINS, "forms": forms, "nsetup": len(setup), "post": "", "variant": v}))
    # names next to the builtin names resolve to nothing (contexts without user functions), whatever the switch
    for n in builtin_near_misses():
        for kind in ("EB", "H"):
            forms = [("%s(3)" % n, "I3"), ("%s 1.5" % n, "F3ff8000000000000"), ('%s("a", "b")' % n, "T"), ("%s()" % n, "E")]
            ops = ["ev srv " + hexs(src) for src, _ in forms] + ["ev srv " + hexs(n), "dump"]
            cases.append((G.script(kind, ops), {"kind": "resolution", "name": n, "ctx": kind, "disabled": False, "user": False, "var": False,
                                                "is_builtin": False, "forms": forms, "nsetup": 0, "post": ""}))
    # reference results of the builtins themselves (EmptyContextWithBuiltinFunctions), used for self-consistency
    return cases


def c09_post(cases, impl, model):
    """resolution rule; the builtin's own answer is taken from the EB-context case of the same name and form"""
    fails = []
    builtin_answer = {}
    for i, c in enumerate(cases):
        m = c[1]
        if m.get("kind") == "resolution" and m["ctx"] == "EB":
            steps = step_outputs(impl.get(str(i), ""))
            for (src, *_), got in zip(m["forms"], steps[m["nsetup"]:]):
                builtin_answer[src] = got
    for i, c in enumerate(cases):
        m = c[1]
        if m.get("kind") != "resolution":
            continue
        out = impl.get(str(i), "")
        if out.startswith("PANIC") or not out:
            continue
        steps = step_outputs(out)[m["nsetup"]:]
        n = m["name"]
        if "CLONE-MISMATCH" in out:
            fails.append((i, "binding %s on a clone changed the original context: %s" % (n, out[-300:])))
            continue
        log = out[out.index("LOG[") + 4:out.rindex("]")] if "LOG[" in out else ""
        for (src, arg, *fixed), got in zip(m["forms"], steps):
            tag = fixed[1] if len(fixed) > 1 else None
            if fixed and fixed[0] is not None:
                if got != fixed[0]:
                    fails.append((i, "%r is no call form (the identifier is not followed by an operand): got %s, expected %s in context %s" % (src, got, fixed[0], m["ctx"])))
                    break
                continue
            nested = src.startswith("wrap ")
            if m["user"] == "fail":
                want = "ERR CustomMessage(%s)" % hexs("boom")
            elif m["user"]:
                want = "OK " + MARK
            elif m["disabled"]:
                want = "ERR FunctionIdentifierNotFound(%s)" % hexs(n)
            elif m["is_builtin"]:
                key = src if not nested else src[5:]
                if key == "%s x" % n:
                    key = "%s 3" % n       # x is bound to 3
                want = builtin_answer.get(key)
                if key in ("%s t1" % n, "%s(t1)" % n):     # t1 = (7,): a one-element tuple reaches the builtin as it is
                    want = {"typeof": "OK S" + hexs("tuple"), "len": "OK I1", "str::from": "OK S" + hexs("(7)"), "min": "OK I7", "max": "OK I7",
                            "contains": None, "if": None}.get(n)
                    if want is None and n.startswith("math::") or n in ("floor", "round", "ceil", "bitnot", "str::trim", "str::to_lowercase", "str::to_uppercase"):
                        want = None
            else:
                want = "ERR FunctionIdentifierNotFound(%s)" % hexs(n)
            if tag == "pow3" and m["user"] is True:
                want = "OK F%016x" % f_bits(777.0 ** 3)
            if tag == "tuple" and m["user"] is True:
                want = "OK T(%s,I1)" % MARK
            if nested and want is not None and want.startswith("OK "):
                pass  # wrap is the identity
            if want is not None and got != want:
                fails.append((i, "call form %r in context %s (builtins disabled=%s, user function %s=%s, variable %s=%s, after %r): got %s, resolution rule gives %s" % (src, m["ctx"], m["disabled"], n, m["user"], n, m["var"], m["post"], got, want)))
                break
            if m["user"] and ("%s(%s)" % (hexs(n), arg)) not in log:
                fails.append((i, "call form %r must pass %s to the user function %s; call log: %s" % (src, arg, n, log)))
                break
        else:
            if m.get("variant"):
                c1, c2 = steps[len(m["forms"]) + 1], steps[len(m["forms"]) + 2]
                if c1 != "ERR FunctionIdentifierNotFound(%s)" % hexs(n) or c2 != "OK " + MARK:
                    fails.append((i, "a function bound as %r: call_function(%r) gives %s (no such function is bound), call_function(%r) gives %s" % (m["variant"], n, c1, m["variant"], c2)))
                    continue
            bare = steps[len(m["forms"])]
            want = ("OK S" + hexs("var")) if m["var"] else "ERR VariableIdentifierNotFound(%s)" % hexs(n)
            if bare != want:
                fails.append((i, "bare identifier %r in context %s (variable bound=%s, function bound=%s): got %s, expected %s (separate namespaces)" % (n, m["ctx"], m["var"], m["user"], bare, want)))
    return fails


PROPS["C09"] = {
    "gen": c09_gen, "post": c09_post,
    "rule": "the configuration matrix: builtin names (quick: 20 of the 49, thorough: all) and 8 non-builtin names x context kind (HashMapContext, NoStore, EmptyContext, EmptyContextWithBuiltinFunctions) x builtin switch x user function of that name present/absent x variable of that name present/absent x after clone / after clear_functions x call forms n(3), n 3, n(), n(3, 4), wrap n 3, and the bare name; expected by the resolution rule, the builtin's own answer being taken from the run in EmptyContextWithBuiltinFunctions; non-trivial = every configuration",
    "nontrivial": lambda c, out: True, "exhaustive": True,
    "assumptions": ["resolution rule of tools/props.py (c09_post): used only to search for failing inputs",
                    "model of the FunctionIdentifier arm and of the context kinds equals the Rust code: correspondence of this run"],
}


# ---------------------------------------------------------------------------------------------
# C14: identifier iterators against the occurrence list of the generating AST
# ---------------------------------------------------------------------------------------------

def occurrences(e):
    """identifier occurrences in source order: (class, name), class in W(rite) F(unction) R(ead)"""
    if e is None:
        return []
    k = e[0]
    if k == "lit":
        return []
    if k == "var":
        return [("R", e[1])]
    if k == "paren":
        return occurrences(e[1])
    if k == "pre":
        return occurrences(e[2])
    if k == "call":
        return [("F", e[1])] + occurrences(e[2])
    if k == "bin":
        return occurrences(e[2]) + occurrences(e[3])
    if k == "asg":
        return [("W", e[2])] + occurrences(e[3])
    if k in ("tuple", "chain"):
        return [o for x in e[1] for o in occurrences(x)]
    raise ValueError(k)


def rename_ast(e, f):
    """applies f(class, name) to every identifier"""
    if e is None:
        return None
    k = e[0]
    if k == "lit":
        return e
    if k == "var":
        return ("var", f("R", e[1]))
    if k == "paren":
        return ("paren", rename_ast(e[1], f))
    if k == "pre":
        return ("pre", e[1], rename_ast(e[2], f))
    if k == "call":
        return ("call", f("F", e[1]), rename_ast(e[2], f))
    if k == "bin":
        return ("bin", e[1], rename_ast(e[2], f), rename_ast(e[3], f))
    if k == "asg":
        return ("asg", e[1], f("W", e[2]), rename_ast(e[3], f))
    return (k, [rename_ast(x, f) for x in e[1]])


def c14_gen(tier, rng):
    cases = []
    n = 12000 if tier == "quick" else 200000
    for _ in range(n):
        raw = G.rand_seq(rng, 3) if rng.random() < 0.35 else G.rand_expr(rng, rng.randint(1, 5))
        e = G.parenthesize_seq(raw) if raw[0] in ("tuple", "chain") else G.parenthesize(raw)
        if rng.random() < 0.3:
            e = G.add_redundant_parens(rng, e)
        if rng.random() < 0.25:     # variables named like builtins and like the functions of the program: the class comes from the syntax only
            e = rename_ast(e, lambda c, nm: rng.choice([{"a": "len", "b": "max", "c": "f", "x": "typeof", "foo": "if", "y": "True", "_z": "FALSE", "a1": "tRue"},
                                                         {"a": "price", "b": "e", "c": "xE", "x": "rate", "y": "a2e", "foo": "E", "_z": "one", "a1": "x1e"}]).get(nm, nm) if c in "RW" else nm)
        src = G.render(G.flatten(e), rng, rng.choice(["space", "tight", "random"]))
        occ = occurrences(e)
        j = lambda cls: ",".join(hexs(nm) for c, nm in occ if c in cls)
        prefix = {"R": "ivr", "W": "ivw", "F": "if"}
        renamed = rename_ast(e, lambda c, nm: prefix[c] + nm)
        cases.append(("ITER\t" + hexs(src), {"kind": "iter", "src": src,
                                             "want": {"ids": j("WFR"), "vars": j("WR"), "reads": j("R"), "writes": j("W"), "fns": j("F")},
                                             "renamed": G.tree_of_top(renamed), "occ": [list(x) for x in occ]}))
    # deep nesting: the traversal has no depth limit
    deep = deep_ast
    for kind in ("right", "left", "neg", "call", "paren", "tuple"):
        for d in ((30, 31, 32, 33, 34, 40, 64, 65, 100, 130, 255, 256, 257, 300, 600, 1000) + ((1500, 2000) if kind == "neg" else ()) if kind != "tuple" else (30, 33, 65, 130, 257, 400)) if tier == "quick" else list(range(20, 260, 3)) + [300, 512, 1000, 1024, 1025, 2000]:
            e = deep(kind, d)
            src = G.render(G.flatten(e), None, "tight")
            occ = occurrences(e)
            j = lambda cls: ",".join(hexs(nm) for c, nm in occ if c in cls)
            prefix = {"R": "ivr", "W": "ivw", "F": "if"}
            cases.append(("ITER\t" + hexs(src), {"kind": "iter", "src": src, "want": {"ids": j("WFR"), "vars": j("WR"), "reads": j("R"), "writes": j("W"), "fns": j("F")},
                                                 "renamed": G.tree_of_top(rename_ast(e, lambda c, nm: prefix[c] + nm)), "occ": [list(x) for x in occ]}))
    # hand-built shapes: non-last children with grandchildren, empty parenthesis nodes, n-ary sequence nodes
    for src in ["(a + b) * (c + d) + e", "f((a, b), (c, (d, e))) + g()", "((), (), a)", "a; (b; (c; d)); e", "(a = b) + (c = d)",
                "f g h x", "-(-(-a))", "x = y = z = w", "(a, b, c, d, e, f, g)", "a + (b)", "((((a))))", "f()", "(a; ; b)"]:
        cases.append(("ITER\t" + hexs(src), {"kind": "iter-fixed", "src": src}))
    # renaming variables in the tree and in the context does not change the result
    for _ in range(n // 3):
        raw = G.rand_seq(rng, 2) if rng.random() < 0.3 else G.rand_expr(rng, rng.randint(1, 4))
        e = G.parenthesize_seq(raw) if raw[0] in ("tuple", "chain") else G.parenthesize(raw)
        if rng.random() < 0.3:   # variables named like a function of the context or a builtin: separate namespaces
            e = rename_ast(e, lambda c, nm: {"foo": "f", "_z": "g", "a1": "len", "c": "max"}.get(nm, nm) if c in "RW" else nm)
        src = G.render(G.flatten(e), None, "space")
        ren = rename_ast(e, lambda c, nm: ("v_" + nm) if c in "RW" else nm)
        rsrc = G.render(G.flatten(ren), None, "space")
        if rng.random() < 0.1:      # a string literal that spells the name of the variable it is assigned to, or of another one
            nm = rng.choice(["foo", "_z", "a1", "c"])
            e = ("chain", [("asg", "=", nm, ("lit", '"%s"' % rng.choice([nm, "foo", "c"]), "S" + hexs(nm))), ("var", nm), e])
            e = G.parenthesize_seq(e)
            src = G.render(G.flatten(e), None, "space")
            ren = rename_ast(e, lambda c, nm2: ("v_" + nm2) if c in "RW" else nm2)
            rsrc = G.render(G.flatten(ren), None, "space")
        vals = {"a": "I3", "b": "F4004000000000000", "c": "S" + hexs("xy"), "x": "B1", "y": "T(I1,I2)", "max": "I9"}
        s1 = ["init %s %s" % (hexs(k), v) for k, v in vals.items()] + ["setfn %s id" % hexs("f"), "setfn %s swap" % hexs("g"), "ev nmv " + hexs(src)]
        s2 = ["init %s %s" % (hexs("v_" + k), v) for k, v in vals.items()] + ["setfn %s id" % hexs("f"), "setfn %s swap" % hexs("g"), "ev nmv " + hexs(rsrc)]
        cases.append((G.script("H", s1), {"kind": "rename-a", "pair": len(cases) + 1, "src": src}))
        cases.append((G.script("H", s2), {"kind": "rename-b", "src": rsrc}))
    return cases


def c14_oracle(case, out, model_out):
    m = case[1]
    if m.get("kind") != "iter" or out.startswith("PANIC"):
        return None
    if not out.startswith("OK "):
        return "well-formed program %r does not precompile: %s" % (m["src"], out[:200])
    got = dict(re.findall(r"(\w+)\[([^\]]*)\]", out))
    for k, w in m["want"].items():
        if got.get(k) != w:
            return "iter_%s of %r lists [%s], the identifier occurrences in source order are [%s]" % (k, m["src"], got.get(k), w)
        if got.get(k + "m") != w:
            return "the mutable %s iterator of %r visits [%s], expected the same occurrences [%s]" % (k, m["src"], got.get(k + "m"), w)
    via = re.search(r"via<([^>]*)>", out)
    if via:
        nodes_l = got.get("nodes", "").split(",") if got.get("nodes") else []
        for k, part in enumerate(via.group(1).split(" ")):
            seen, cnt, last, folded = part.split(":", 1)[1].split("|")
            rest = nodes_l[k:]
            want = (",".join(nodes_l), str(len(rest)), rest[-1] if rest else "-", "".join(x + ";" for x in rest))
            if (seen, cnt, last, folded) != want:
                return "Node::iter() of %r used through next() x%d then for_each / count / last / fold gives %s, the pre-order traversal gives %s" % (m["src"], k, (seen, cnt, last, folded), want)
    f2 = re.search(r"free2<(ERR (?:Variable|Function)IdentifierNotFound\(([0-9a-f]*)\))>", out)
    if f2 and "occ" in m:
        pre2 = {"R": "ivr", "W": "ivw", "F": "if"}
        names = [hexs(pre2[c] + nm) for c, nm in m["occ"] if (c in "RW") == ("Variable" in f2.group(1))]
        if f2.group(2) not in names:
            return "after rewriting the identifiers of %r, evaluation without a context reports %s, not one of the rewritten names %s" % (m["src"], f2.group(1), names[:20])
    md = re.search(r"mid<([^>]*)>", out)
    if md and "occ" in m:
        pre1 = {"R": "r", "W": "", "F": ""}
        j1 = lambda cls: ",".join(hexs(pre1[c] + nm) for c, nm in m["occ"] if c in cls)
        want_mid = ";".join([j1("WFR"), j1("WR"), j1("R"), j1("W"), j1("F")])
        if md.group(1) != want_mid:
            return "after rewriting only the read variables of %r through iter_read_variable_identifiers_mut, the immutable iterators list %s; the names are now %s" % (m["src"], md.group(1)[:300], want_mid[:300])
    af = re.search(r"after<([^>]*)>", out)
    if af and "occ" in m:
        pre = {"R": "ivr", "W": "ivw", "F": "if"}
        jj = lambda cls: ",".join(hexs(pre[c] + nm) for c, nm in m["occ"] if c in cls)
        want_after = ";".join([jj("WFR"), jj("WR"), jj("R"), jj("W"), jj("F")])
        if af.group(1) != want_after:
            return "after rewriting the identifiers of %r through the mutable iterators, the immutable iterators list %s; the names are now %s" % (m["src"], af.group(1)[:300], want_after[:300])
    fr = re.search(r"free<(ERR (?:Variable|Function)IdentifierNotFound\(([0-9a-f]*)\))>", out)
    if fr:
        listed = (got.get("vars", "") if "Variable" in fr.group(1) else got.get("fns", "")).split(",")
        if fr.group(2) not in listed:
            return "evaluating %r without a context reports %s, a name the %s iterator does not list: [%s]" % (m["src"], fr.group(1), "variable" if "Variable" in fr.group(1) else "function", ",".join(listed))
    ad = re.search(r"adapt<([^>]*)>", out)
    if ad:
        N = got.get("nodes", "").split(",") if got.get("nodes") else []
        I = got.get("ids", "").split(",") if got.get("ids") else []
        V = got.get("vars", "").split(",") if got.get("vars") else []
        Fn = got.get("fns", "").split(",") if got.get("fns") else []
        R = got.get("reads", "").split(",") if got.get("reads") else []
        nth = lambda l, k: l[k] if k < len(l) else "-"
        want = "|".join(["nth:" + ",".join(nth(N, k) for k in (0, 1, 2, 5)), "skipcnt:" + ",".join(str(len(N[k:])) for k in (0, 1, 3)),
                         "step2:" + ",".join(N[::2]), "idnth1:" + nth(I, 1), "idskip1:" + ",".join(I[1:]), "idlast:" + (I[-1] if I else "-"),
                         "idcnt:%d" % (len(V) + 100 * len(Fn)), "mfe:" + ",".join(N), "mcnt:%d" % len(N), "mlast:" + (N[-1] if N else "-"),
                         "mfold:" + "".join(x + ";" for x in N), "mnth1:" + nth(N, 1), "mskip2:" + ",".join(N[2:]), "midfe:" + ",".join(I),
                         "midcnt:%d" % (len(V) + 100 * len(Fn)), "midlast:" + (I[-1] if I else "-"), "midnth1:" + nth(R, 1)])
        if ad.group(1) != want:
            bad = [(x, y) for x, y in zip(ad.group(1).split("|"), want.split("|")) if x != y]
            return "the iterators of %r used through nth / skip / step_by / last / count / for_each / fold give %s, the traversal order gives %s" % (m["src"], bad[0][0][:200], bad[0][1][:200])
    rt = out[out.index("renamed") + 7:]
    if rt != m["renamed"]:
        return "rewriting identifiers of %r through the five mutable iterators gives %s, expected %s" % (m["src"], rt[:300], m["renamed"][:300])
    if got.get("nodes") != got.get("ops"):
        return "iter() and iter_operators_mut() visit different nodes for %r" % m["src"]
    return None


def c14_post(cases, impl, model):
    fails = []
    for i, c in enumerate(cases):
        if c[1].get("kind") != "rename-a":
            continue
        a, b = impl.get(str(i), ""), impl.get(str(c[1]["pair"]), "")
        if a.startswith("PANIC") or b.startswith("PANIC"):
            continue
        norm = lambda s: re.sub(r"765f", "", s)  # hex of the prefix "v_" in names and in VariableIdentifierNotFound payloads
        ra, rb = step_outputs(a)[-1], step_outputs(b)[-1]
        ta, tb = a.split(" || ")[1], b.split(" || ")[1]
        if norm(ra) != norm(rb) or norm(ta) != norm(tb):
            fails.append((i, "renaming the variables of %r (tree and context) changes the outcome: %s || %s  vs  %s || %s" % (c[1]["src"], ra, ta, rb, tb)))
    return fails


PROPS["C14"] = {
    "gen": c14_gen, "oracle": c14_oracle, "post": c14_post, "extra_props": ["C14Mut"],
    "rule": "random well-formed programs of the C02/C05 grammar (depth <= 5, sequences, redundant parentheses): the five immutable and five mutable iterators against the identifier occurrences of the generating AST in source order with their classes; the tree after rewriting through all five mutable iterators; fixed shapes (non-last children with grandchildren, empty parenthesis nodes, n-ary sequence nodes); pairs program / consistently renamed program+context evaluated and compared; non-trivial = at least one identifier",
    "nontrivial": lambda c, out: "ids[]" not in out,
    "assumptions": ["occurrence list computed by tools/props.py from the generating AST: used only to search for failing inputs",
                    "model of NodeIter (explicit stack) equals the Rust code: correspondence of this run"],
}


# ---------------------------------------------------------------------------------------------
# C06: literals
# ---------------------------------------------------------------------------------------------

def quote(t):
    return '"' + t.replace("\\", "\\\\").replace('"', '\\"') + '"'


def float_renderings(rng, x):
    """standard renderings of a finite non-negative double (all parse back to x in python)"""
    outs = {repr(x)}
    for fmt in ("%.17g", "%.17e", "%.17E"):
        outs.add(fmt % x)
    if x < 1e15 and x == x:
        s = "%.30f" % x
        if float(s) == x:
            outs.add(s.rstrip("0") if "." in s and not s.rstrip("0").endswith(".") else s)
            outs.add(s)
    e = "%.17e" % x
    mant, ex = e.split("e")
    outs.add(mant + "e" + str(int(ex)))              # no sign for positive exponents, no padding
    outs.add(mant + "E" + ("+" if int(ex) >= 0 else "-") + str(abs(int(ex))))
    if x == int(x) and x < 1e15:
        outs.add("%d." % int(x))                      # trailing dot
    if 0 < x < 1:
        s = repr(x)
        if s.startswith("0."):
            outs.add(s[1:])                           # leading dot
    res = []
    for s in outs:
        s = s.replace("e+0", "e+").replace("e-0", "e-").replace("E+0", "E+").replace("E-0", "E-")
        if s[-1] in "+-":
            s += "0"
        try:
            if float(s) == x and not re.fullmatch(r"\d+", s):
                res.append(s)
        except ValueError:
            pass
    return sorted(set(res))


SPECIAL_WORDS = ["inf", "Inf", "INF", "infinity", "Infinity", "INFINITY", "nan", "NaN", "NAN", "iNf", "nAn"]
PLAIN_WORDS = ["a", "abc", "x1", "_", "e", "e5", "E", "x", "0x", "0xg", "1e", "1x", "1_000", "tru", "True", "FALSE", "in", "na",
               "infinit", "nano", "inff", "a.b", "a:b", "math::pi", "#", "é", "日本", "a\\b", "1.2.3", "..", "1e5e", "0b1", ".e1",
               "e.", "1.e", "0x1g", "0X10", "９"]


def classify_word(w):
    """what a maximal run of literal characters denotes, as a precompiled leaf (reference reading of the literal grammar)"""
    if re.fullmatch(r"[0-9]+", w):
        return "Const:I%d" % int(w) if int(w) <= G.I64_MAX else "Const:F%016x" % f_bits(float(w))
    if re.fullmatch(r"0x[0-9a-fA-F]+", w) and int(w[2:], 16) <= G.I64_MAX:
        return "Const:I%d" % int(w[2:], 16)
    if re.fullmatch(r"([0-9]+\.?[0-9]*|\.[0-9]+)([eE][0-9]+)?", w):
        return "Const:F%016x" % f_bits(float(w))
    if w in ("true", "false"):
        return "Const:B%d" % (w == "true")
    return "Read:" + hexs(w)


def c06_gen(tier, rng):
    cases = []

    def tree(src, want, extra=None):
        m = {"kind": "literal", "src": src, "want": want}
        m.update(extra or {})
        cases.append(("TREE\t" + hexs(src), m))

    def ev(src, want):
        cases.append((G.script("H", ["ev sfv " + hexs(src)]), {"kind": "literal-eval", "src": src, "want": want}))

    n = 8000 if tier == "quick" else 100000
    # strings
    for t in G.STRINGS + ["//", "/* x */", "a + b", "\n\t", "\\\\", '""', "\\\"", "𝄞\u0000x"] + [G.rand_unicode_string(rng, 12) for _ in range(n)]:
        tree(quote(t), "OK (RootNode (Const:S%s))" % hexs(t))
    interesting = list("\r\n\t\0 \\\"'/*+-=!<>&|(),;.eExX019azAZ_:#%^~`@$?[]{}") + ["\u000b", "\u000c", "\u0085", "\u00a0", "\u2028", "\u2029", "\u3000", "\ufeff", "\u200b", "ä", "€", "𝄞", "\u0301", "\U0010ffff", "\ud7ff", "\ue000"]
    for c1 in interesting:
        for c2 in interesting:
            t = "a" + c1 + c2 + "b"
            tree(quote(t), "OK (RootNode (Const:S%s))" % hexs(t))
    for _ in range(n // 10):
        t, u = G.rand_unicode_string(rng, 5), G.rand_unicode_string(rng, 5)
        ev(quote(t) + "+" + quote(u), "OK S" + hexs(t + u))
        ev("len(" + quote(t) + ")", "OK I%d" % len(t.encode("utf-8")))
    for c in "nrt0'x ué/":
        tree('"a\\' + c + 'b"', "ERR IllegalEscapeSequence(%s)" % hexs("\\" + c))
    tree('"abc\\', "ERR IllegalEscapeSequence(%s)" % hexs("\\"))
    for t in ['"', '"abc', '"a\\"', '1 + "x', '"\\\\\\"']:
        tree(t, "ERR UnmatchedDoubleQuote")
    # integers
    ints = [i for i in G.INTS if i >= 0] + [rng.randint(0, G.I64_MAX) for _ in range(n // 4)] + [rng.randint(0, 10 ** rng.randint(1, 18)) for _ in range(n // 4)]
    for i in ints:
        z = "0" * rng.choice([0, 0, 0, 1, 3])
        tree(z + str(i), "OK (RootNode (Const:I%d))" % i)
        h = ("%x" if rng.random() < 0.5 else "%X") % i
        if rng.random() < 0.3:
            h = "".join(ch.upper() if rng.random() < 0.5 else ch.lower() for ch in h)
        tree("0x" + z + h, "OK (RootNode (Const:I%d))" % i)
    for big in [2 ** 63, 2 ** 63 + 1, 2 ** 64, 10 ** 19, 10 ** 30]:
        tree(str(big), "OK (RootNode (Const:F%016x))" % f_bits(float(big)))
        tree("0x%x" % big, "OK (RootNode (Read:%s))" % hexs("0x%x" % big))
    # floats
    floats = [G.bits_to_float(b) for b in G.FLOAT_BITS if b < 0x7ff0000000000000] + [G.bits_to_float(rng.getrandbits(63)) for _ in range(n // 3)]
    floats += [rng.random() * 10 ** rng.randint(-20, 20) for _ in range(n // 3)] + [float(rng.randint(0, 10 ** 6)) / 2 ** rng.randint(0, 20) for _ in range(n // 6)]
    floats += [5e-324, 2.5e-324, 2.2250738585072014e-308, 1.7976931348623157e308, 0.1, 0.2, 0.3, 1e22, 1e23, 9007199254740993.0, 4503599627370496.5]
    for x in floats:
        if x != x or x in (float("inf"), float("-inf")) or x < 0:
            continue
        rs = float_renderings(rng, x)
        for s in (rs if tier == "thorough" else rng.sample(rs, min(3, len(rs)))):
            tree(s, "OK (RootNode (Const:F%016x))" % f_bits(x))
    for s in ["1e400", "1e-400", "0e999999999999999999999", "1e99999999999999999999", "0.000000000000000000001e21", "2.4703282292062327e-324",
              "2.4703282292062328e-324", "1.7976931348623158e308", "1.797693134862315807e308", "179769313486231580793728971405303415079934132710037826936173778980444968292764750946649017977587207096330286416692887910946555547851940402630657488671505820681908902000708383676273854845817711531764475730270069855571366959622842914819860834936475292719074168444365510704342711559699508093042880177904174497792.0"]:
        tree(s, "OK (RootNode (Const:F%016x))" % f_bits(float(s)))
    # embedded without spaces
    for a, op, b in [("5e-3", "-", "2e-3"), ("0x1e", "-", "3"), ("1e+2", "+", "1e+2"), ("2.5", "*", ".5"), ("1.", "/", "4"), ("3", "-", "1e-1"), ("1e1", "-", "1")]:
        want = "(%s (Const:%s) (Const:%s))" % (G.BIN_NAME[op], "I%d" % int(a, 0) if re.fullmatch(r"\d+|0x[0-9a-f]+", a) else "F%016x" % f_bits(float(a)),
                                               "I%d" % int(b, 0) if re.fullmatch(r"\d+|0x[0-9a-f]+", b) else "F%016x" % f_bits(float(b)))
        tree(a + op + b, "OK (RootNode %s)" % want)
    F = lambda x: "(Const:F%016x)" % f_bits(float(x))
    # the signed-exponent join does not depend on what precedes or follows the literal
    for src, want in [("f 1e-3", "(Fn:66 %s)" % F("1e-3")), ("(2e+1)", "(RootNode %s)" % F("2e1")), ("1, 1e-3", "(Tuple (RootNode (Const:I1)) (RootNode %s))" % F("1e-3")),
                      ("x = 5e-1", "(Assign (Write:78) %s)" % F("0.5")), ("a 1E-3", "(Fn:61 %s)" % F("1e-3")), ("1e-3;", "(Chain (RootNode %s) (RootNode))" % F("1e-3")),
                      ("-1e-3", "(Neg %s)" % F("1e-3")), ("!1e+3", "(Not %s)" % F("1e3")), ("2*1e-3*2", "(Mul (Mul (Const:I2) %s) (Const:I2))" % F("1e-3")),
                      ("(1e-3, 1e+3)", "(RootNode (Tuple (RootNode %s) (RootNode %s)))" % (F("1e-3"), F("1e3"))), ("x=1e-3", "(Assign (Write:78) %s)" % F("1e-3")),
                      ("1e-3==1e-3", "(Eq %s %s)" % (F("1e-3"), F("1e-3"))), ("max(1e-3,2.5e+1)", "(Fn:6d6178 (RootNode (Tuple (RootNode %s) (RootNode %s))))" % (F("1e-3"), F("25")))]:
        tree(src, "OK (RootNode %s)" % want)
    # spellings of the exponent and of the mantissa
    for s_ in ["1e-05", "1E+007", "1e+0", "2.5e00", "007.5", "00.5e1", "1e-0", "1e+00", "0e-0", "12e-001", "1.e-2", "1.e+2", ".5e-1", ".5E+1", "0.0e+0",
               "000000000000000000001.5", "1.5000000000000000000000000000000000000000", "1e0000000000000000000001", "0.1e-0000000000000000000001"]:
        tree(s_, "OK (RootNode %s)" % F(s_))
    for h, v_ in [("0x00000000000000000001", 1), ("0x" + "0" * 30 + "ff", 255), ("0x0000000000000000", 0), ("0x07fffffffffffffff", 2 ** 63 - 1), ("0x" + "0" * 16 + "1", 1)]:
        tree(h, "OK (RootNode (Const:I%d))" % v_)
    # sources that start with a byte-order mark or a zero-width character: part of the word, never skipped
    for w in ["\ufeffx", "\ufeff1", "\u200bx", "\u200b1", "x\ufeff", "1\ufeff", "\ufefftrue", "\u2060a", "\u00ad1", "\ufeff\"s\""]:
        if '"' in w:
            tree(w, "OK (RootNode (Fn:%s (Const:S73)))" % hexs("\ufeff"))
        else:
            tree(w, "OK (RootNode (%s))" % classify_word(w))
    # long literals with many escapes in a row
    for _ in range(300 if tier == "quick" else 5000):
        t = "".join(rng.choice('aaa\\\\""b ') for _ in range(rng.randint(14, 80)))
        tree(quote(t), "OK (RootNode (Const:S%s))" % hexs(t))
    tree("a-1e+2", "OK (RootNode (Sub (Read:61) (Const:F%016x)))" % f_bits(100.0))
    tree("1e+", "OK (RootNode (Add (Read:%s)))" % hexs("1e"))
    tree("1e-x", "OK (RootNode (Sub (Read:%s) (Read:78)))" % hexs("1e"))
    # the signed-exponent join looks at the TEXT of the third token: a string literal is not an exponent
    tree('1e+"5"', "OK (RootNode (Add (Read:%s) (Const:S35)))" % hexs("1e"))
    tree('2.5e-"3"', "OK (RootNode (Sub (Read:%s) (Const:S33)))" % hexs("2.5e"))
    tree('1E-"x"', "OK (RootNode (Sub (Read:%s) (Const:S78)))" % hexs("1E"))
    tree("1e+true", "OK (RootNode (Add (Read:%s) (Const:B1)))" % hexs("1e"))
    tree("1e-(3)", "OK (RootNode (Sub (Read:%s) (RootNode (Const:I3))))" % hexs("1e"))
    # several string literals in one source: what one contains (a trailing backslash, comment markers, quotes) does not leak into the next
    parts = ["x\\", "/*y*/", "//", "a\"b", "\\\\", "", "*/", "/*", "b//c", "\\\"", "q", "\n", "a\\"]
    for _ in range(600 if tier == "quick" else 8000):
        ts = [rng.choice(parts) for _ in range(rng.randint(2, 4))]
        sep = rng.choice([", ", " + ", ",", "+", "; "])
        src = sep.join(quote(t) for t in ts)
        if "+" in sep:
            want = "(Const:S%s)" % hexs(ts[0])
            for t in ts[1:]:
                want = "(Add %s (Const:S%s))" % (want, hexs(t))
        else:
            want = "(%s %s)" % ("Tuple" if "," in sep else "Chain", " ".join("(RootNode (Const:S%s))" % hexs(t) for t in ts))
        tree(src, "OK (RootNode %s)" % want)
    for src, want in [("true-1", "(Sub (Const:B1) (Const:I1))"), ("false+1.5", "(Add (Const:B0) %s)" % F("1.5")), ("3*false-(2)", "(Sub (Mul (Const:I3) (Const:B0)) (RootNode (Const:I2)))"),
                      ("a&&true-b", "(And (Read:61) (Sub (Const:B1) (Read:62)))"), ("true+true", "(Add (Const:B1) (Const:B1))"), ("false-false-1", "(Sub (Sub (Const:B0) (Const:B0)) (Const:I1))"),
                      ("true-", "(Sub (Const:B1))"), ("1-true", "(Sub (Const:I1) (Const:B1))")]:
        tree(src, "OK (RootNode %s)" % want)
    # evaluations in one thread, one after the other: a literal that failed leaves nothing behind for the next one
    for bad in ['"abc', '"ab\\q cd"', '"x\\', '1 + "zz', '"\\n"']:
        for good, val in [('"def"', "S" + hexs("def")), ('"" + "g"', "S" + hexs("g")), ('len("hi")', "I2"), ('("p", "q")', "T(S70,S71)")]:
            cases.append((G.script("H", ["evc sfv " + hexs(bad), "evc sfv " + hexs(good), "evc smv " + hexs(bad), "evc srv " + hexs(good), "evc build " + hexs(bad), "evc nfv " + hexs(good)]),
                          {"kind": "literal-seq", "src": bad + "  then  " + good, "want": "OK " + val}))
    for ln in (10, 31, 32, 33, 63, 64, 65, 127, 128, 255, 256, 257, 1000, 4000):
        w = "".join(rng.choice("abcxyz_019") for _ in range(ln - 1))
        tree("v" + w, "OK (RootNode (Read:%s))" % hexs("v" + w))
        t = "".join(rng.choice("ab \\\"ä€") for _ in range(ln))
        tree(quote(t), "OK (RootNode (Const:S%s))" % hexs(t))
        tree("1" * ln if ln <= 18 else "0" * (ln - 5) + "12345", "OK (RootNode (Const:I%d))" % (int("1" * ln) if ln <= 18 else 12345))
        tree("0." + "0" * ln + "5", "OK (RootNode %s)" % F("0." + "0" * ln + "5"))
    tree("2e-3x", "OK (RootNode (Sub (Read:%s) (Read:%s)))" % (hexs("2e"), hexs("3x")))
    tree("1e+2e", "OK (RootNode (Add (Read:%s) (Read:%s)))" % (hexs("1e"), hexs("2e")))
    tree("1e-3.5.1", "OK (RootNode (Sub (Read:%s) (Read:%s)))" % (hexs("1e"), hexs("3.5.1")))
    tree("1e--3", "OK (RootNode (Sub (Read:%s) (Neg (Const:I3))))" % hexs("1e"))
    tree("1e-0x3", "OK (RootNode (Sub (Read:%s) (Const:I3)))" % hexs("1e"))
    # booleans, identifiers
    tree("true", "OK (RootNode (Const:B1))")
    tree("false", "OK (RootNode (Const:B0))")
    for w in PLAIN_WORDS:
        tree(w, "OK (RootNode (Read:%s))" % hexs(w))
    for w in SPECIAL_WORDS:
        tree(w, "OK (RootNode (Read:%s))" % hexs(w), {"special_float_word": True})
    # random words over the characters that matter to the literal grammar, against the reference classification
    words = set(["0x0x1f", "0x0x", "0X0x1", "00x1", "0x00x1", "0x0x0x7", "x0x1", "0xx1", "0x_1", "0x1_", "1e1e1", "1.e1", ".1e1", "1..", ".", "0.", ".0", "0e0",
                 "truee", "ttrue", "falsee", "true1", "0xtrue", "0xfalse", "0xe", "0xE1", "1E", "E1", "0e", "00", "0x0", "0x00"])
    for _ in range(n // 2):
        words.add("".join(rng.choice("00119xXeE..afgF_nt") for _ in range(rng.randint(1, 7))))
    # every ASCII character that is neither an operator character, a quote nor white space is part of a word
    words |= {"'a'", "`a`", "'", "''", "a'b", "0o17", "0O7", "0h1f", "0b101", "1'000", "1k", "10px", "$x", "@a", "a?", "~a", "[1]", "{a}", "#1", "a#b", "a.b.c",
              "r'a'", "x\\y", "a:b", "::a", "a::", "a$", "€1", "1€", "ºC", "a\u0301", "０", "١٢٣", "x²", "½", "0x१", "１e5", "1e５", "ⅷ", "true'", "'true", "false.",
              "0x1.8", "0x1p3", "1_0", "_1", "1__", "0x_", "nan0", "infx", "e", "E5", ".e", "e.", "-", "0e", "0x0e"} - {"-"}
    for _ in range(n // 4):
        words.add("".join(rng.choice("019obhkxe'`@$?~[]{}#:._a") for _ in range(rng.randint(1, 6))))
    words = {w for w in words if not w.startswith("//") and "/*" not in w}
    for w in sorted(words):
        if w.lower() in ("inf", "infinity", "nan"):
            continue
        tree(w, "OK (RootNode (%s))" % classify_word(w))
    return cases


def c06_oracle(case, out, model_out):
    m = case[1]
    if m.get("kind") == "literal":
        if out != m["want"]:
            return "the literal %r precompiles to %s, it denotes %s" % (m["src"], out[:200], m["want"][:200])
    if m.get("kind") == "literal-seq" and not out.startswith("PANIC"):
        st = step_outputs(out)
        for k in (1, 3, 5):
            if st[k] != m["want"]:
                return "%r (evaluated one after the other): the well-formed source gives %s, expected %s" % (m["src"], st[k][:200], m["want"])
    if m.get("kind") == "literal-eval":
        last = step_outputs(out)[-1]
        if last != m["want"]:
            return "%r evaluates to %s, expected %s" % (m["src"], last[:200], m["want"][:200])
    return None


PROPS["C06"] = {
    "gen": c06_gen, "oracle": c06_oracle, "extra_props": ["FloatIEEE", "EndToEndF"],
    "rule": "quoted random Unicode strings (all planes, quotes, backslashes, comment markers, newlines), concatenated and measured; every other escape and missing quotes; decimal (with leading zeros) and hexadecimal (both cases) renderings of boundary and random integers in [0, 2^63), values beyond the range; shortest / 17-digit / fixed / e / E / e+ / e- / leading-dot / trailing-dot renderings of boundary and random finite doubles compared bit-exactly with the correctly rounded value (python float()); literals embedded between operators without spaces; booleans; words that are identifiers; the special words inf / infinity / nan (known finding); non-trivial = every case",
    "nontrivial": lambda c, out: True,
    "assumptions": ["python's float() is the correctly rounded decimal-to-double conversion; used only to search for failing inputs",
                    "the model's decimal-to-double conversion equals Rust's f64::from_str: correspondence of this run; that it IS the nearest double (ties to even) of the exact decimal is Props/FloatIEEE.v IEEE_of_decimal (Flocq; depends on the four real-number axioms of Coq's standard library)"],
}


# ---------------------------------------------------------------------------------------------
# C07: whitespace and comments
# ---------------------------------------------------------------------------------------------

def c07_gen(tier, rng):
    cases = []
    n = 6000 if tier == "quick" else 100000
    group = 0
    for _ in range(n):
        k = rng.random()
        if k < 0.55:
            raw = G.rand_seq(rng, 2) if rng.random() < 0.3 else G.rand_expr(rng, rng.randint(1, 4))
            e = G.parenthesize_seq(raw) if raw[0] in ("tuple", "chain") else G.parenthesize(raw)
            toks = G.flatten(e)
            if rng.random() < 0.3 and toks:
                toks.pop(rng.randrange(len(toks)))
        else:
            toks = [rng.choice(G.TOKEN_ALPHABET_FULL + ["1e", "e5", "0x", "1.5e", "x", "3"]) for _ in range(rng.randint(1, 7))]
        base = G.render(toks, rng, "space")
        cases.append(("TREE\t" + hexs(base), {"kind": "sep-base", "group": group, "src": base}))
        for style in (["tight", "random", "random"] if tier == "quick" else ["tight", "random", "random", "random", "random"]):
            src = G.render(toks, rng, style)
            if style == "random" and rng.random() < 0.5:
                # separators before the first and after the last token too (a comment directly before a leading prefix operator,
                # white space and comments at the very end), and now and then a long run of separators
                lead = G.rand_separator(rng, False, False)
                trail = G.rand_separator(rng, False, bool(toks) and toks[-1] == "/")
                if rng.random() < 0.1:
                    lead += "".join(G.rand_separator(rng, True, False) for _ in range(rng.randint(3, 12)))
                src = lead + src + trail
            cases.append(("TREE\t" + hexs(src), {"kind": "sep-variant", "group": group, "src": src, "tokens": toks}))
        if group % 3 == 0:
            srcs = [c[1]["src"] for c in cases[-4:] if c[1].get("group") == group]
            r3 = G.render(toks, rng, "random")
            order = srcs + [r3, srcs[0], " ".join(toks)]
            cases.append((G.script("EB", ["evc build " + hexs(x) for x in order]), {"kind": "sep-sequence", "srcs": order, "tokens": toks}))
        group += 1
    # every Unicode whitespace character separates, one at a time
    for w in G.WHITESPACE:
        for a, b in (("a", "b"), ("1", "2"), ("+", "="), ("&", "&"), ("1e", "-3")):
            src = a + chr(w) + b
            cases.append(("TREE\t" + hexs(src), {"kind": "ws-char", "src": src, "ws": w, "ref": a + " " + b}))
            cases.append(("TREE\t" + hexs(a + " " + b), {"kind": "ws-ref", "src": a + " " + b}))
    # the halves of a two-character operator: a comment between them separates exactly as white space does
    for a, b in (("&", "&"), ("|", "|"), ("=", "="), ("!", "="), ("<", "="), (">", "="), ("+", "="), ("-", "="), ("*", "="), ("/", "="), ("%", "="), ("^", "="),
                 ("&&", "="), ("||", "="), ("a", "b"), ("1", "2"), ("1e", "-3"), ("1", ".5"), ("-", "9223372036854775808"), ("+ -", "9223372036854775808"),
                 ("len", '"abc"'), ("f", '"a /* b */ c"'), ("x", '"'), ("1", '"s"'), ('"a"', '"b"'), ('"a"', "b"), (")", "("), ("a", "(")):
        for sep in ("/**/", "/* x */", "//\n", "// y\n", " /**/ ", "/**//**/", "\n", ""):
            if a == "/" and sep.startswith("/"):
                continue
            if sep == "" and not (a in ("-", "+ -", "len", "f", "x", "1", '"a"', ")") and b[0] in '"9(b'):
                continue      # the empty separator only where the two tokens cannot fuse
            src = "p " + a + sep + b + " q"
            ref = "p " + a + " " + b + " q"
            cases.append(("TREE\t" + hexs(src), {"kind": "ws-char", "src": src, "ws": 0x20, "ref": ref}))
            cases.append(("TREE\t" + hexs(ref), {"kind": "ws-ref", "src": ref}))
    for src, ref in (('1e-"3"', '1e - "3"'), ('2.5e+"7"', '2.5e + "7"'), ('a 1E-"0"', 'a 1E - "0"'), ('1e-(3)', '1e - (3)'), ('1e+true', '1e + true'), ('xe-3', 'xe - 3'),
                     ('price-tax', 'price - tax'), ('1e-3e', '1e - 3e'), ('(1e)-3', '( 1e ) - 3'),
                     ('1e- 3', '1e - 3'), ('1e-/**/3', '1e - 3'), ('2.5E+\n7', '2.5E + 7'), ('1e-//c\n3', '1e - 3'), ('a 1e- 3', 'a 1e - 3'), ('1e +3', '1e + 3'),
                     ('-9223372036854775808', '- 9223372036854775808'), ('a * -9223372036854775808', 'a * - 9223372036854775808'), ('(-9223372036854775808)', '( - 9223372036854775808 )'),
                     ('-9223372036854775808 ^ 2', '- 9223372036854775808 ^ 2'), ('x = -09223372036854775808', 'x = - 09223372036854775808'), ('!-9223372036854775808', '! - 9223372036854775808'),
                     ('-9223372036854775807', '- 9223372036854775807'), ('-0x8000000000000000', '- 0x8000000000000000'), ('--9223372036854775808', '- - 9223372036854775808')):
        cases.append(("TREE\t" + hexs(src), {"kind": "ws-char", "src": src, "ws": 0x20, "ref": ref}))
        cases.append(("TREE\t" + hexs(ref), {"kind": "ws-ref", "src": ref}))
    # characters that are NOT whitespace must not separate
    for w in (0x200B, 0x2060, 0xFEFF, 0x180E, 0x1F, 0x7F, 0x200C):
        src = "a" + chr(w) + "b"
        cases.append(("TREE\t" + hexs(src), {"kind": "non-ws", "src": src, "want": "OK (RootNode (Read:%s))" % hexs(src)}))
    # unterminated inline comments; comment markers in strings
    for src in ["1 /*", "1 + /* x", "/*/", "/* * /", "a /* b */ /* c", "1 /* \" */ + /* x", "1 /**", "1 + 2 /* x *", "/*\n * doc\n *", "1 /***", "a /* b */ /* c *", "/* */ /*"]:
        cases.append(("TREE\t" + hexs(src), {"kind": "unterminated", "src": src, "want": "ERR CustomMessage(%s)" % hexs("unmatched inline comment")}))
    for t in ["//", "/* x */", "a // b", "/*"]:
        cases.append(("TREE\t" + hexs(quote(t)), {"kind": "in-string", "src": quote(t), "want": "OK (RootNode (Const:S%s))" % hexs(t)}))
    return cases


def c07_oracle(case, out, model_out):
    m = case[1]
    if m.get("kind") == "sep-sequence" and not out.startswith("PANIC"):
        st = step_outputs(out)
        for k in range(1, len(m["srcs"])):
            if st[k] != st[0]:
                return "renderings of the token sequence %s precompiled one after the other in one process: %r -> %s but %r -> %s" % (m["tokens"], m["srcs"][0], st[0][:200], m["srcs"][k], st[k][:200])
    if m.get("kind") in ("non-ws", "unterminated", "in-string") and out != m["want"]:
        return "%r precompiles to %s, expected %s" % (m["src"], out[:200], m["want"][:200])
    return None


def c07_post(cases, impl, model):
    fails = []
    base = {}
    refs = {}
    for i, c in enumerate(cases):
        if c[1].get("kind") == "sep-base":
            base[c[1]["group"]] = (i, impl.get(str(i), ""))
        if c[1].get("kind") == "ws-ref":
            refs[c[1]["src"]] = impl.get(str(i), "")
    for i, c in enumerate(cases):
        m = c[1]
        if m.get("kind") == "sep-variant":
            bi, bout = base[m["group"]]
            out = impl.get(str(i), "")
            if out != bout and not (out.startswith("PANIC") or bout.startswith("PANIC")):
                fails.append((i, "two renderings of the token sequence %s differ only in their separators but precompile differently: %r -> %s ; %r -> %s" % (m["tokens"], cases[bi][1]["src"], bout[:200], m["src"], out[:200])))
        if m.get("kind") == "ws-char":
            out = impl.get(str(i), "")
            if out != refs.get(m["ref"]):
                fails.append((i, "a separator (white space U+%04X or a comment) is replaced by a space: %r precompiles to %s while %r gives %s" % (m["ws"], m["src"], out[:150], m["ref"], refs.get(m["ref"], "")[:150])))
    return fails


PROPS["C07"] = {
    "gen": c07_gen, "oracle": c07_oracle, "post": c07_post, "extra_props": ["EndToEnd"],
    "rule": "token sequences (well-formed programs, near misses, random tokens incl. scientific-notation fragments), each rendered with single spaces, with no separator where fusion cannot occur, and with random valid separator assignments (all 25 Unicode whitespace characters, /* */ comments, // comments to end of line); all renderings of one sequence must precompile identically; every whitespace character alone; non-whitespace look-alikes; unterminated /*; comment markers inside strings; non-trivial = more than one token",
    "nontrivial": lambda c, out: len(c[1].get("tokens", [0, 0])) > 1,
    "assumptions": ["valid separator rule of tools/gen.py (fuses, sci_risk): twin of Spec/LexSpec.v valid_seps; used only to search for failing inputs",
                    "model of the tokenizer equals the Rust code: correspondence of this run; the character-class table is regenerated exhaustively"],
}


# ---------------------------------------------------------------------------------------------
# C01: never panics
# ---------------------------------------------------------------------------------------------
import audit as A  # noqa: E402


def c01_gen(tier, rng):
    cases = []
    P, SP = G.pool(), G.small_pool()
    # every builtin x argument shapes of arity 0..3
    for n in L.DOCUMENTED_BUILTINS:
        for a in P:
            cases.append((G.call_case(n, a), {"kind": "builtin"}))
        for a in SP:
            for b in SP:
                cases.append((G.call_case(n, G.vT([a, b])), {"kind": "builtin"}))
        for _ in range(120 if tier == "quick" else 4000):
            cases.append((G.call_case(n, G.vT([rng.choice(P) for _ in range(rng.choice([0, 1, 2, 3, 3, 3]))])), {"kind": "builtin"}))
    # long argument lists and long strings: a size-dependent path (a sort, a scratch buffer) needs them
    for n in L.DOCUMENTED_BUILTINS:
        for _ in range(25 if tier == "quick" else 600):
            k = rng.random()
            if k < 0.5:
                items = [rng.choice(P) if rng.random() < 0.4 else (G.vF(G.rand_float_bits(rng)) if rng.random() < 0.6 else G.vI(G.clamp_i64(G.rand_int(rng)))) for _ in range(rng.choice([4, 5, 8, 16, 21, 33, 64, 130]))]
                if rng.random() < 0.5:
                    items[rng.randrange(len(items))] = "F7ff8000000000000"
                cases.append((G.call_case(n, G.vT(items)), {"kind": "builtin"}))
            elif k < 0.8:
                t = "".join(rng.choice(["a", "ä", " ", "\t", "Σ", "ß", "€", "𝄞", "\"", "\\", "x"]) for _ in range(rng.choice([13, 16, 17, 32, 64, 100, 255, 256, 300])))
                cases.append((G.call_case(n, G.vS(t)), {"kind": "builtin"}))
                cases.append((G.call_case(n, G.vT([G.vS(t), G.vI(rng.randint(-2, 400)), G.vI(rng.randint(-2, 400))])), {"kind": "builtin"}))
            else:
                t = G.vS("ab" * rng.choice([7, 20, 150]))
                cases.append((G.call_case(n, G.vT([G.vT([t, t, G.vI(1)]), t])), {"kind": "builtin"}))
    for n in ("shl", "shr"):
        for a in G.INTS:
            for b in list(range(-70, 140)) + G.INTS:
                cases.append((G.call_case(n, G.vT([G.vI(a), G.vI(b)])), {"kind": "builtin"}))
    for s in G.STRINGS + [G.rand_unicode_string(rng, 6) for _ in range(60)]:
        bl = len(s.encode("utf-8"))
        for a in range(-2, bl + 3):
            for b in range(-2, bl + 3):
                cases.append((G.call_case("str::substring", G.vT([G.vS(s), G.vI(a), G.vI(b)])), {"kind": "builtin"}))
    # operators on all pairs
    for op in G.BINOPS:
        for a in SP:
            for b in SP:
                cases.append((G.op_case_vars(op, a, b), {"kind": "op"}))
        for a in G.INTS:
            for b in G.INTS:
                if rng.random() < 0.3:
                    cases.append((G.op_case_vars(op, G.vI(a), G.vI(b)), {"kind": "op"}))
    # token soup, character soup, programs, near misses through all entry points
    n = 15000 if tier == "quick" else 400000
    for seq in G.token_sequences_exhaustive(G.TOKEN_ALPHABET16, 3 if tier == "quick" else 4):
        cases.append(c12_case("H", C12_SETUP, " ".join(seq)))
    for seq in G.token_sequences_random(rng, n, maxlen=14):
        src = " ".join(seq)
        cases.append((G.script("H", C12_SETUP + ["evc build " + hexs(src), "evc smv " + hexs(src), "evc srv " + hexs(src)]), {"kind": "token-soup"}))
        cases.append(("ITER\t" + hexs(src), {"kind": "iter"}))
    for s_ in ["0x8000000000000000", "0xffffffffffffffff", "0x10000000000000000", "0x" + "f" * 40, "1 + 0x8000000000000000", "0X8000000000000000",
               "true &" + "ä" * 20, "1 |" + "€" * 15 + "x", "a &" + "𝄞" * 9 + "b", "&" + "é" * 31, "| " + "ä" * 40, "x & " + "ab" * 30, "true &a" + "ä" * 16]:
        cases.append(("TOK\t" + hexs(s_), {"kind": "char-soup"}))
        cases.append((G.script("H", C12_SETUP + ["evc build " + hexs(s_), "evc smv " + hexs(s_), "evc srv " + hexs(s_)]), {"kind": "token-soup"}))
        cases.append(("SHOW\t" + hexs(s_), {"kind": "show"}))
    for s in G.char_soup(rng, n, maxlen=24):
        cases.append(("TOK\t" + hexs(s), {"kind": "char-soup"}))
        cases.append((G.script(rng.choice(["H", "N", "E", "EB"]), ["evc build " + hexs(s), "evc srv " + hexs(s)]), {"kind": "char-soup"}))
    for _ in range(n // 3):
        s = G.rand_unicode_string(rng, 40)
        cases.append((G.script("H", ["evc build " + hexs(s), "evc sfv " + hexs(s)]), {"kind": "unicode"}))
    for _ in range(n // 2):
        raw = G.rand_seq(rng, 3) if rng.random() < 0.3 else G.rand_expr(rng, rng.randint(1, 6))
        e = G.parenthesize_seq(raw) if raw[0] in ("tuple", "chain") else G.parenthesize(raw)
        toks = G.flatten(e)
        if rng.random() < 0.3 and toks:
            toks[rng.randrange(len(toks))] = rng.choice(G.TOKEN_ALPHABET_FULL)
        src = G.render(toks, rng, "random")
        cases.append((G.script("H", C12_SETUP + ["evc smv " + hexs(src), "evc nrv " + hexs(src), "evc sfi " + hexs(src)]), {"kind": "program"}))
    # Display of trees, Display / Debug of values and Display of errors (the formatting code is modelled too)
    for _ in range(n // 3):
        k = rng.random()
        if k < 0.6:
            raw = G.rand_seq(rng, 2) if rng.random() < 0.3 else G.rand_expr(rng, rng.randint(1, 5))
            e = G.parenthesize_seq(raw) if raw[0] in ("tuple", "chain") else G.parenthesize(raw)
            toks = G.flatten(e)
            if rng.random() < 0.3 and toks:
                toks[rng.randrange(len(toks))] = rng.choice(G.TOKEN_ALPHABET_FULL)
            src = G.render(toks, rng, "space")
        elif k < 0.8:
            src = rng.choice(G.char_soup(rng, 1, 16))
        else:
            src = "%s(%s)" % (rng.choice(L.DOCUMENTED_BUILTINS), rng.choice(["a", "b", "c", "y", "(a, b)", "(c, 1)", "()", "1e300", "\"ä\\\\\"", "(y, y)", "-0.0", "0.1 + 0.2"]))
        cases.append(("SHOW\t" + hexs(src), {"kind": "display"}))
    for first in "&|":
        for second in ["", "+", "-", "*", "/", "%", "^", "=", "!", ">", "<", "&", "|", "(", ")", ",", ";", " ", "x", "1", "1.5", "true", '"s"', "==", ">="]:
            cases.append(("SHOW\t" + hexs("1 " + first + second + " 2"), {"kind": "display"}))
            cases.append(("SHOW\t" + hexs(first + second), {"kind": "display"}))
    for src in ["min()", "max(())", "1 + 2 )", "len(1)", "str::substring(\"a\", 1, 2, 3)", "str::substring(\"a\")", "if(1)", "contains(1, 2)", "(1, 2) + 3", "\"a\" + 1",
                "\"a\\x\"", "\"a", "a = 1; a = 2.5", "a = (1,2); a = ()", "1 /* x", "math::abs(-9223372036854775807 - 1)", "-(-9223372036854775807 - 1)", "1 % 0", "9223372036854775807 * 2"]:
        cases.append(("SHOW\t" + hexs(src), {"kind": "display"}))
    # context histories (set / assign / clear / clone / toggle / call) and effectful programs
    for _ in range(n // 5):
        ops, _want = c04_history(rng, rng.randint(1, 12))
        cases.append((G.script(rng.choice(["H", "H", "N"]), ops), {"kind": "history"}))
    for _ in range(n // 5):
        e = c08_program(rng)
        src = G.render(G.flatten(e), None, "space")
        cases.append((G.script("H", c08_setup() + ["ev smv " + hexs(src), "ev srv " + hexs(src)]), {"kind": "effects"}))
    return cases


DEEP = [("-" * 4095 + "1", "neg"), ("(" * 2048 + ")" * 2048, "paren"), ("f " * 2047 + "1", "call"), ("a=" * 2047 + "1", "assign"),
        ("1^" * 2047 + "1", "exp"), ("!" * 4092 + "true", "not"), ("(1," * 1024 + "1" + ")" * 1024, "tuple"), ("1+" * 2047 + "1", "add"),
        ("(" * 4096, "open"), (")" * 4096, "close"), ("1;" * 2048, "chain"), ("1," * 2048, "flat-tuple"), ('"' + "\\\\" * 2047 + '"', "escapes"),
        ("/*" + "*" * 4092 + "*/", "comment"), ("a" * 4096, "ident"), ("9" * 4096, "digits"), ("1e" + "9" * 4000, "exponent")]


def c01_special(tier, rng, hooks):
    """the 4096-character nesting corpus, one process per input (an abort is observed, not suffered);
    the panic-site audit"""
    fails = []
    cov = {}
    lines = []
    for i, (src, name) in enumerate(DEEP):
        lines.append("%d\t%s" % (i, G.script("H", ["evc build " + hexs(src), "evc smv " + hexs(src), "evc srv " + hexs(src)])))
        lines.append("%d\tITER\t%s" % (1000 + i, hexs(src)))
    for profile in ("debug", "release"):
        outs, errs = L.run_impl(lines, profile, tag="deep", shards=len(lines))
        for l in lines:
            k = l.split("\t")[0]
            o = outs.get(k)
            name = DEEP[int(k) % 1000][1]
            if o is None:
                fails.append({"why": "the process evaluating the 4096-character input %r (%s build) died without output (abort / stack overflow)" % (name, profile), "case": l.split("\t", 1)[1][:200] + "...", "observed": "no output"})
            elif o.startswith("PANIC"):
                fails.append({"why": "panic on the 4096-character input %r (%s build): %s" % (name, profile, o), "case": l.split("\t", 1)[1][:200] + "...", "observed": o})
    cov["deep_nesting_inputs"] = len(DEEP)
    new_sites, cur = A.panic_site_audit()
    cov["panic_sites_in_source"] = len(cur)
    cov["panic_sites_unknown_to_model"] = new_sites
    new_arith, cur_arith = A.arithmetic_site_audit()
    cov["arithmetic_sites_in_source"] = len(cur_arith)
    cov["arithmetic_sites_unknown_to_model"] = new_arith
    if (new_sites or new_arith) and not fails:
        fails.append({"why": "the source has potential panic / overflow sites the model does not know (tools/panic_sites.json, tools/arithmetic_sites.json): %s" % (new_sites + new_arith)[:5], "has_input": False, "kind": "obligation-broken"})
    return {"failures": fails, "coverage": cov}


def c01_oracle(case, out, model_out):
    if out.startswith("PANIC"):
        return "the library panicked: %s" % out
    return None


PROPS["C01"] = {
    "gen": c01_gen, "oracle": c01_oracle, "special": c01_special, "release": True,
    "rule": "Display of trees and Display/Debug of values and errors compared as text with the modelled formatting code; context histories; every builtin x every value of the edge pool, all pairs of the small pool, random tuples up to arity 3, all shift amounts -70..139, all byte offsets of str::substring; all operators on all pairs; all token sequences of length <= 3 (quick) / 4 (thorough) through all 48 entry points; random token sequences, character soup (operators, quotes, backslashes, comment markers, exotic whitespace), random Unicode strings, generated programs with one token replaced, through string/tree, typed/untyped, shared/mutable entry points and the iterators, with Display and Debug of every result; debug (overflow checks) and release builds; 17 inputs of 4096 characters (deep nesting), one process each; every harness call under catch_unwind; non-trivial = every case",
    "nontrivial": lambda c, out: True,
    "assumptions": ["stack depth in bytes and allocation failure are runtime behaviour the model cannot exhibit: the theorem bounds the recursion depth by the input length, the 4096-character corpus is run on an 8 MiB main-thread stack",
                    "user functions do not panic (the property's hypothesis)",
                    "evalexpr's own Display / Debug code for values, operators, trees, tokens and errors is modelled (Model/Display.v) and compared as text; std's formatting of floats and of strings with {:?} is an oracle"],
}


# ---------------------------------------------------------------------------------------------
# C15: Send + Sync (rustc), purity audit, stress
# ---------------------------------------------------------------------------------------------

def c15_gen(tier, rng):
    # the ordinary correspondence on read-only evaluation of shared programs
    cases = []
    for _ in range(3000 if tier == "quick" else 40000):
        raw = G.rand_expr(rng, rng.randint(1, 4), allow_asg=False)
        e = G.parenthesize(raw)
        src = G.render(G.flatten(e), None, "space")
        cases.append((G.script("H", C12_SETUP + ["ev srv " + hexs(src), "ev nrv " + hexs(src), "dump"]), {"kind": "ro", "src": src}))
    return cases


def c15_special(tier, rng, hooks):
    fails, cov = [], {}
    ok, hk, lg = L.ensure_harness("release", sendsync=True)
    cov["send_sync_assertions_compile"] = ok
    if not ok:
        m = re.search(r"error\[E0277\][^\n]*\n(?:[^\n]*\n){0,12}", lg)
        fails.append({"why": "the compile-time assertions `T: Send + Sync` for Node, Value, EvalexprError, Function, Operator, HashMapContext, EmptyContext, EmptyContextWithBuiltinFunctions do not compile", "detail": (m.group(0) if m else lg[-1500:]), "case": "harness/src/send_sync.rs static_assertions()", "observed": "rustc error"})
        return {"failures": fails, "coverage": cov}
    pur = A.purity()
    cov["purity_audit_findings"] = pur
    # stress: shared Arc<Node> x Arc<HashMapContext>, 16 threads
    progs = []
    # every operator and every builtin on operands of every type bound in the shared context, then random programs
    srcs = []
    for op in G.BINOPS:
        for l, r in (("a", "a"), ("b", "a"), ("s", "s"), ('"x"', '"y"'), ("t", "t"), ("true", "false"), ("a", "s")):
            srcs.append("%s %s %s" % (l, op, r))
    for n in L.DOCUMENTED_BUILTINS:
        for arg in ("a", "b", "s", "t", "(a, b)", "(s, 0, 1)", "(true, a, s)", "(t, 1)", "()"):
            srcs.append("%s(%s)" % (n, arg))
    srcs += ["f(a) + f(b)", "(a, b, s, t)", "a; b; s", "-a", "!true", 's + s + s + s', 'str::from(t) + str::from(b)']
    # a user function that takes a while: other threads read variables and call functions of the shared context meanwhile
    srcs += ["slow(a) + a + b", "a + slow(b) * a", "(slow(1), a, b, s, t)", "slow(slow(a)) + len(s)", "f(a) + slow(f(b)) + a", "a + a + a + a + b + b",
             "s + s", "(a, a, a, a, a, a, a, a)", "slow(s) + s"] * 3
    for _ in range(200 if tier == "quick" else 3000):
        raw = G.rand_expr(rng, rng.randint(1, 5), allow_asg=False)
        srcs.append(G.render(G.flatten(G.parenthesize(raw)), None, "space"))
    # deep trees: per-evaluation bookkeeping (depth, scratch space) must not be shared between concurrent evaluations
    for d in (100, 300, 600, 900):
        srcs += ["- " * d + "a", "(" * d + "a + b" + ")" * d, "f(" * (d // 2) + "s" + ")" * (d // 2), "!" * d + "true",
                 "a + (" * d + "a" + ")" * d]
    for i, src in enumerate(srcs):
        progs.append("%d\t%s" % (i, hexs(src)))
    os.makedirs(L.WORK, exist_ok=True)
    path = os.path.join(L.WORK, "threads.cases")
    open(path, "w").write("\n".join(progs) + "\n")
    rc, out, err = L.sh([L.harness_bin("release", sendsync=True), "threads", path], timeout=600)
    mism = [l for l in out.splitlines() if l.startswith("MISMATCH")]
    summ = [l for l in out.splitlines() if l.startswith("THREADS")]
    cov["stress"] = summ[0] if summ else "no summary (rc=%d) %s" % (rc, err[-300:])
    for l in mism[:3]:
        f = l.split("\t")
        fails.append({"why": "a thread evaluating a shared tree against a shared context got a result different from the sequential one", "case": "program #%s of work/threads.cases" % f[1], "observed": "sequential %s, concurrent %s" % (f[2], f[3])})
    if rc != 0 and not mism:
        fails.append({"why": "the multi-threaded stress run crashed: " + err[-500:], "case": "harness threads", "observed": "rc=%d" % rc})
    if pur and not fails:
        fails.append({"why": "the premise of the schedule-independence theorem is no longer established: read-only evaluation may touch shared mutable state: %s" % pur[:5], "has_input": False, "kind": "obligation-broken"})
    return {"failures": fails, "coverage": cov}


PROPS["C15"] = {
    "gen": c15_gen, "special": c15_special, "level": "other",
    "explanation": "partial: rustc decides Send + Sync, a Coq theorem gives schedule independence under the no-shared-mutable-state premise, a source audit establishes the premise, a stress run samples real interleavings",
    "rule": "Send + Sync of the eight public types decided by rustc (harness feature sendsync); purity audit of src/ (no static, thread_local, Cell, RefCell, UnsafeCell, Mutex, RwLock, Atomic*, Once*, Rc, unsafe; forbid(unsafe_code) present); stress run: 16 threads, phase 1: all threads evaluate the same shared Arc<Node> at the same time (barrier per tree, 40 rounds), phase 2: every thread walks all trees in an order of its own (6 rounds), against one shared Arc<HashMapContext> with a user function that takes 40 microseconds; trees: every operator and builtin on operands of every type, random programs, trees of depth 100-900; each result compared with the sequential one; plus the ordinary correspondence of read-only evaluation; non-trivial = every program",
    "nontrivial": lambda c, out: True,
    "assumptions": ["real interleavings under the hardware memory model are outside any Gallina model: the theorem assumes thread-private state and shared immutable data, the audit and rustc establish that premise for this tree",
                    "PARTIAL: a cache behind a Mutex would pass rustc, fail the audit and be reported as no-failing-input-found unless the stress run catches a wrong result"],
}


# ---------------------------------------------------------------------------------------------
# C16: serde round trips (harness feature serde, real ron)
# ---------------------------------------------------------------------------------------------

def c16_gen(tier, rng):
    # the tree half goes through the ordinary correspondence as well (deserialize = build_operator_tree)
    cases = []
    for _ in range(2000 if tier == "quick" else 30000):
        raw = G.rand_seq(rng, 2) if rng.random() < 0.3 else G.rand_expr(rng, rng.randint(1, 4))
        e = G.parenthesize_seq(raw) if raw[0] in ("tuple", "chain") else G.parenthesize(raw)
        toks = G.flatten(e)
        if rng.random() < 0.3 and toks:
            toks.pop(rng.randrange(len(toks)))
        cases.append(("TREE\t" + hexs(G.render(toks, rng, "random")), {"kind": "tree"}))
    return cases


def c16_special(tier, rng, hooks):
    fails, cov = [], {}
    ok, hk, lg = L.ensure_harness("debug", serde=True)
    cov["serde_harness_compiles"] = ok
    if not ok:
        m = re.search(r"error\[E\d+\][^\n]*\n(?:[^\n]*\n){0,14}", lg)
        fails.append({"why": "with the serde feature, HashMapContext<DefaultNumericTypes> / Node do not (de)serialize: the harness does not compile", "detail": (m.group(0) if m else lg[-1500:]), "case": "harness/src/serde_cases.rs", "observed": "rustc error"})
        return {"failures": fails, "coverage": cov}
    lines = []
    n = 3000 if tier == "quick" else 40000
    for i in range(n):
        k = rng.random()
        if k < 0.5:
            raw = G.rand_seq(rng, 2) if rng.random() < 0.3 else G.rand_expr(rng, rng.randint(1, 4))
            e = G.parenthesize_seq(raw) if raw[0] in ("tuple", "chain") else G.parenthesize(raw)
            toks = G.flatten(e)
            if rng.random() < 0.3 and toks:
                toks.pop(rng.randrange(len(toks)))
            src = G.render(toks, rng, "random")
        elif k < 0.8:
            src = rng.choice(G.char_soup(rng, 1, 16))
        else:
            src = G.rand_unicode_string(rng, 12)
        lines.append("%d\tSERDEN\t%s" % (i, hexs(src)))
    for src in ["", " ", "  a + 1  ", "\ta\n", "1 +", ")", "\"", "a /* x", "1, 2; 3", "1 + 2 /* todo", "/*", "(1+2)", "((a))", "()", "(1, 2)", "(a = 1; a)", "(1)+(2)", "(((1)))", "-5", "+5", "-9223372036854775808", "9223372036854775807", " 7", "7 ", "0x10", "-0x10", "1e3", "true", "-1.5", "+1.5", "007", "1_000", " -5 ", "--5", "- 5", "\"a\\n\"", "(", "a b", "1 2", "= 1", "a \\ b", "\"\\", "1 )) 2"]:
        lines.append("%d\tSERDEN\t%s" % (len(lines), hexs(src)))
    # strings that differ only in white space (inside a string literal, at the end of a line comment, between tokens),
    # deserialized one after the other in the same thread
    pairs = [('"a b"', '"a  b"'), ('"a  b"', '"a b"'), ("1 // c\n+ 2", "1 // c + 2"), ("1 + 2", "1 +  2"), ('"x"', '" x"'), ("a  b", "a b"), ("1 2", "12"), ("12", "1 2"),
             ("a\n=\n1", "a = 1"), ('"\t"', '" "'), ("1 /* a  b */ + 2", "1 /* a b */ - 2"), ("true", "true "), (" 1", "1"), ('"a" + "b  c"', '"a" + "b c"')]
    for a_, b_ in pairs:
        lines.append("%d\tSERDEN2\t%s\t%s\t%s" % (len(lines), hexs(a_), hexs(b_), hexs(a_)))
    for _ in range(n // 10):
        t = G.rand_unicode_string(rng, 6)
        a_, b_ = quote("p " + t + " q"), quote("p  " + t + " q")
        lines.append("%d\tSERDEN2\t%s\t%s" % (len(lines), hexs(a_), hexs(b_)))
    for i in range(n // 2):
        ops = []
        for _ in range(rng.randint(0, 8) if rng.random() < 0.8 else rng.randint(9, 40)):
            r = rng.random()
            if r < 0.7:
                if rng.random() < 0.1:
                    ops.append("set %s %s" % (hexs("qs"), rng.choice(["S" + hexs('"hi"'), "S" + hexs('"'), "S" + hexs('""'), "T(S%s,S%s)" % (hexs('"a"'), hexs("'b'")), "S" + hexs("(1, 2)"), "S" + hexs("Int(1)"), "S" + hexs("\\\"x\\\"")])))
                    continue
                ops.append("set %s %s" % (hexs(rng.choice(["a", "b", "ä", "", "x y", "z", "qs", "variables", "functions", "without_builtin_functions", "a1", "a2", "a3", "a4", "a5", "Value", "Int", "\"", "(", "\\"])), G.rand_value(rng) if rng.random() < 0.6 else rng.choice(G.pool())))
            elif r < 0.85:
                ops.append("off %d" % (rng.random() < 0.5))
            else:
                ops.append("setfn " + hexs(rng.choice(["f", "a", "max"])))
        lines.append("%d\tSERDEC\t%s" % (len(lines), ";".join(ops)))
    # round trips that FAIL (tuples nested deeper than the wire format reads back) leave nothing behind in the thread:
    # an ordinary context round-trips afterwards
    for depth, reps in ((40, 3), (60, 2), (100, 2), (36, 4), (33, 70)):
        deep = "I1"
        for _ in range(depth):
            deep = "T(%s)" % deep
        parts = ["set %s %s" % (hexs("d"), deep)] * reps + ["set %s T(I1,T(I2,S61))" % hexs("t") + ";set %s I5" % hexs("a")]
        lines.append("%d\tSERDEC2\t%s" % (len(lines), "|".join(parts)))
    outs, errs = L.run_impl(lines, "debug", serde=True, tag="serde")
    ns = nc = 0
    for l in lines:
        k = l.split("\t")[0]
        o = outs.get(k, "")
        if "SERDEN" in l:
            ns += 1
        else:
            nc += 1
        if "SERDEC2" in l:
            nc += 1
            last = o.split(" ;; ")[-1] if o else ""
            if not last.startswith("SAME"):
                fails.append({"why": "after round trips of deeply nested tuples in the same thread, an ordinary context no longer round-trips: %s" % last[:300], "case": l.split("\t", 1)[1][:200], "observed": o[-400:]})
            continue
        if "SERDEN2" in l:
            if not o or any(not part.startswith("SAME") for part in o.split(" ;; ")):
                fails.append({"why": "strings deserialized one after the other: the serde result of one of them differs from precompiling it: %s" % o[:400], "case": l.split("\t", 1)[1][:400], "observed": o[:400]})
            continue
        if not o.startswith("SAME"):
            kind = "string" if "SERDEN" in l else "context"
            fails.append({"why": "serde round trip of a %s differs from the direct result: %s" % (kind, o[:400]), "case": l.split("\t", 1)[1][:400], "observed": o[:400]})
    cov["serde_node_roundtrips"] = ns
    cov["serde_context_roundtrips"] = nc
    fails.sort(key=lambda f: len(f["case"]))
    return {"failures": fails, "coverage": cov}


PROPS["C16"] = {
    "level": "other",
    "explanation": "partial: Coq theorems cover the evalexpr-owned logic (Deserialize for Node = build_operator_tree; field selection of the context for any round-tripping codec); serde derive output and the ron wire format are exercised by real round trips",
    "gen": c16_gen, "special": c16_special,
    "rule": "real ron round trips in the harness built with the serde feature: for generated programs, near misses, character soup and random Unicode strings, ron::from_str::<Node> of the RON string literal against build_operator_tree (trees equal / error messages contained); for random HashMapContexts (all value types, NaN, -0.0, nested tuples, odd names, functions, both switch positions) serialize -> deserialize -> same sorted variable map (floats by bits), same switch, no user function resolves; non-trivial = every round trip",
    "nontrivial": lambda c, out: True,
    "assumptions": ["PARTIAL: serde's derive output and the ron wire format are exercised, not modelled; the theorems cover only Deserialize for Node = build_operator_tree and the field selection of the context for any round-tripping codec"],
}



# ---------------------------------------------------------------------------------------------
# hand-built trees and the Value API, added to the properties whose theorems quantify over EVERY tree / value
# ---------------------------------------------------------------------------------------------
HAND_VARS0 = "61=I3,62=F4004000000000000,63=S7879,78=B1,79=T(I1,I2)"


def hand_cases(rng, n):
    out = []
    for _ in range(n):
        t = G.rand_hand_tree(rng, rng.randint(0, 4))
        text = G.hand_text(t)
        pre = G.hand_preorder(t)
        ident = lambda o: o.split(":")[1] if o.startswith(("Write:", "Read:", "Fn:")) else None
        out.append(("HAND\t" + text, {"kind": "hand", "text": text, "preorder": ",".join(pre),
                                       "ids": ",".join(ident(o) for o in pre if ident(o) is not None),
                                       "vids": ",".join(ident(o) for o in pre if o.startswith(("Write:", "Read:"))),
                                       "assign": G.hand_has_assign(t), "bad_arity": G.hand_bad_arity(t), "roots_small": G.hand_roots_small(t)}))
    return out


def hand_fields(out):
    return dict(re.findall(r"(\w+)=(\S*)", out)), dict(re.findall(r"(\w+)[\[{]([^\]}]*)[\]}]", out))


def hand_oracle(which):
    def o(case, out, model_out):
        m = case[1]
        if m.get("kind") != "hand":
            return None
        if out.startswith("PANIC"):
            return "panic on the hand-built tree %s: %s" % (m["text"], out) if which == "C01" else None
        kv, lists = hand_fields(out)
        ro = re.search(r"ro=(.*?) rolog\[", out).group(1)
        mt = re.search(r"mut=(.*?) vars\{", out).group(1)
        if which == "C14":
            if lists.get("nodes") != m["preorder"] or lists.get("ops") != m["preorder"]:
                return "iter() / iter_operators_mut() of the hand-built tree %s visit [%s] / [%s], the pre-order of its proper descendants is [%s]" % (m["text"], lists.get("nodes"), lists.get("ops"), m["preorder"])
            if lists.get("ids") != m["ids"] or lists.get("vids") != m["vids"]:
                return "identifier iterators of the hand-built tree %s list [%s] / [%s], expected [%s] / [%s]" % (m["text"], lists.get("ids"), lists.get("vids"), m["ids"], m["vids"])
        if which == "C11" and not m["assign"]:
            if ro != mt or lists.get("rolog") != lists.get("mutlog") or lists.get("vars") != HAND_VARS0:
                return "the hand-built tree %s has no assignment operator but eval_with_context gives %s [%s] and eval_with_context_mut gives %s [%s] with variables {%s}" % (m["text"], ro, lists.get("rolog"), mt, lists.get("mutlog"), lists.get("vars"))
        if which == "C12":
            vs = re.search(r" views\[(.*)\]$", out)
            if not vs:
                return "no entry-point views reported for the hand-built tree %s: %s" % (m["text"], out[-200:])
            views = vs.group(1).split("|")
            if len(views) != 24:
                return "expected 24 tree-level entry points on the hand-built tree %s, got %d" % (m["text"], len(views))
            for mi, (mode, base) in enumerate((("context-free", views[0]), ("shared-context", ro), ("mutable-context", mt))):
                for ti, ty in enumerate("vsifnbte"):
                    want = project_text(ty, views[8 * mi]) if mi == 0 else project_text(ty, base)
                    if views[8 * mi + ti] != want:
                        return "%s tree-level entry point of type %s on the hand-built tree %s returned %s; the projection of the untyped result %s is %s" % (mode, ty, m["text"], views[8 * mi + ti], views[8 * mi] if mi == 0 else base, want)
        if which == "C13" and m["bad_arity"] and m["roots_small"]:
            if ro.startswith("OK") or mt.startswith("OK"):
                return "the hand-built tree %s has an operator with the wrong number of operands but evaluates: %s / %s" % (m["text"], ro, mt)
        return None
    return o


def with_hand(pid, count, vals=False):
    P = PROPS[pid]
    base_gen, base_oracle = P["gen"], P.get("oracle")
    ho = hand_oracle(pid)

    def gen(tier, rng):
        def chunks_of(x):
            if isinstance(x, list):
                yield x
            else:
                yield from x
        yield from chunks_of(base_gen(tier, rng))
        extra = hand_cases(rng, count if tier == "quick" else count * 20)
        if vals:
            for v in G.pool() + [G.rand_value(rng) for _ in range(300)]:
                extra.append(("VAL\t" + v, {"kind": "value-api"}))
            for k in range(260):     # every error variant the public API can build, displayed (the list has fewer entries; the rest answer NA)
                extra.append(("ERRSHOW\t%d" % k, {"kind": "error-display"}))
        yield extra

    def oracle(case, out, model_out):
        if case[1].get("kind") == "hand":
            return ho(case, out, model_out)
        return base_oracle(case, out, model_out) if base_oracle else None

    P["gen"], P["oracle"] = gen, oracle
    P["rule"] += "; plus random HAND-BUILT trees of any shape (through operator_mut / children_mut: wrong arities, roots with several children, write leaves anywhere) evaluated read-only and mutably and traversed by the iterators" + ("; plus every public accessor / conversion of Value on the edge-value pool" if vals else "")


with_hand("C01", 6000, vals=True)
with_hand("C11", 4000)
with_hand("C13", 4000)
with_hand("C14", 4000)
with_hand("C12", 3000)


# ---------------------------------------------------------------------------------------------
# thorough tier: the full-size first chunk where a generator has one, then many more quick-sized chunks
# drawn from the same PRNG stream (fresh random cases every time; fixed parts repeat and are counted once)
# ---------------------------------------------------------------------------------------------

def deepen(gen, reps, first_thorough=False):
    def g(tier, rng):
        def chunks_of(x):
            if isinstance(x, list):
                yield x
            else:
                yield from x
        if tier == "quick":
            yield from chunks_of(gen("quick", rng))
            return
        if first_thorough:
            yield from chunks_of(gen("thorough", rng))
        for _ in range(reps):
            yield from chunks_of(gen("quick", rng))
    return g


def levelled(gen):
    """the untyped string-level entry points and the tree-level ones (precompile, then evaluate the tree) are
    interchangeable for every property: a quarter of the `ev s?v` steps of SCRIPT cases go through the tree level"""
    def g(tier, rng):
        r2 = G.random.Random(rng.getrandbits(64))
        sub = lambda mo: ("ev n%sv" % mo.group(1)) if r2.random() < 0.25 else mo.group(0)
        res = gen(tier, rng)
        for chunk in ([res] if isinstance(res, list) else res):
            yield [((re.sub(r"\bev s([frm])v\b", sub, c[0]) if c[0].startswith("SCRIPT") else c[0]), c[1]) for c in chunk]
    return g


for _pid in ("C03", "C04", "C06", "C07", "C09", "C10", "C13"):
    PROPS[_pid]["gen"] = levelled(PROPS[_pid]["gen"])


for _pid, _reps, _first in (("C01", 60, False), ("C03", 120, True), ("C04", 200, False), ("C06", 80, False), ("C07", 150, False),
                            ("C08", 200, False), ("C10", 30, True), ("C11", 150, False), ("C12", 60, False), ("C14", 40, False),
                            ("C15", 5, False), ("C16", 10, False), ("C09", 1, True)):
    PROPS[_pid]["gen"] = deepen(PROPS[_pid]["gen"], _reps, _first)
