#!/usr/bin/env python3
"""Per-property configuration: case generators, the property's own oracle (evaluated on the
implementation's outputs: a test that supports the search for a failing input, never a proof),
known-finding matching, replay."""
import json
import math
import os
import re
import struct

import gen as G
import vplib as L
from vplib import hexs, unhex

# ---------------------------------------------------------------------------------------------
# generic helpers
# ---------------------------------------------------------------------------------------------
ARITH = ("AdditionError", "SubtractionError", "NegationError", "MultiplicationError", "DivisionError", "ModulationError")
TYPEERR = ("ExpectedString", "ExpectedInt", "ExpectedFloat", "ExpectedNumber", "ExpectedNumberOrString", "ExpectedBoolean",
           "ExpectedTuple", "ExpectedFixedLengthTuple", "ExpectedRangedLengthTuple", "ExpectedEmpty", "TypeError",
           "WrongTypeCombination")


def outcome_class(out):
    """coarse class of an outcome line body (of its last step for scripts)"""
    if out.startswith("PANIC"):
        return "panic"
    body = out.split(" || ")[0].split(" | ")[-1] if " || " in out else out
    if body.startswith("OK"):
        return "ok"
    if body.startswith("ERR "):
        name = re.match(r"ERR (\w+)", body).group(1)
        if name in ARITH:
            return "err-arith"
        if name in TYPEERR:
            return "err-type"
        return "err-" + name
    return body.split(" ")[0]


def step_outputs(out):
    """the per-step outputs of a SCRIPT outcome"""
    return out.split(" || ")[0].split(" | ")


def default_nontrivial(case, out):
    """non-trivial: not the plain OK of a single literal / empty input"""
    return len(case[0]) > 30 or not out.startswith("OK")


def kind_histogram(cases):
    h = {}
    for c in cases:
        k = c[1].get("kind", c[0].split("\t")[0])
        h[k] = h.get(k, 0) + 1
    return h


def match_known(known, case, out):
    for k in known:
        pat = k.get("match_case_regex")
        if pat and re.search(pat, case[0] + " ## " + json.dumps(case[1], sort_keys=True)):
            return k
    return None


def replay_known(known, impl_runner):
    """replays the listed witnesses of known findings; one KNOWN-FINDING line per witness that still fails"""
    lines = []
    for k in known:
        cases = ["%d\t%s" % (i, w["case"]) for i, w in enumerate(k.get("witnesses", []))]
        if not cases:
            continue
        outs, _ = impl_runner(cases, "debug", tag="known")
        for i, w in enumerate(k["witnesses"]):
            got = outs.get(str(i), "")
            if re.search(w["fails_if_regex"], got):
                lines.append("KNOWN-FINDING: property=%s %s (witness: %s)" % (k["property"], k["what"], w["note"]))
    return lines


def replay(path):
    payload = json.load(open(path))
    case = payload.get("case")
    if not case:
        print(json.dumps(payload, indent=1)[:4000])
        return 0
    outs, errs = L.run_impl(["0\t" + case], "debug", tag="replay")
    mouts, merrs = L.run_model(["0\t" + case], tag="replaym")
    print("case     :", case)
    print("impl     :", outs.get("0"))
    print("model    :", mouts.get("0"))
    print("recorded :", payload.get("observed"))
    print("why      :", payload.get("why"))
    return 0


def generate_interface():
    try:
        import translate_interface
        return translate_interface.generate()
    except ImportError:
        return {"ok": True, "problems": []}


# ---------------------------------------------------------------------------------------------
# value text <-> python
# ---------------------------------------------------------------------------------------------
NAN = 0x7ff8000000000000


def parse_value(s):
    v, rest = _pv(s)
    assert rest == "", s
    return v


def _pv(s):
    t = s[0]
    if t in "IFS":
        m = re.match(r"[^,)]*", s[1:])
        body = m.group(0)
        rest = s[1 + len(body):]
        if t == "I":
            return ("I", int(body)), rest
        if t == "F":
            return ("F", int(body, 16)), rest
        return ("S", unhex(body)), rest
    if t == "B":
        return ("B", s[1] == "1"), s[2:]
    if t == "E":
        return ("E", None), s[1:]
    if t == "T":
        rest = s[2:]
        items = []
        if rest.startswith(")"):
            return ("T", items), rest[1:]
        while True:
            v, rest = _pv(rest)
            items.append(v)
            if rest.startswith(","):
                rest = rest[1:]
            else:
                return ("T", items), rest[1:]
    raise ValueError(s)


def value_text(v):
    t, x = v
    if t == "I":
        return "I%d" % x
    if t == "F":
        return "F%016x" % x
    if t == "S":
        return "S" + hexs(x)
    if t == "B":
        return "B1" if x else "B0"
    if t == "E":
        return "E"
    return "T(" + ",".join(value_text(i) for i in x) + ")"


def to_f(v):
    t, x = v
    if t == "I":
        return float(x)
    return G.bits_to_float(x)


def f_bits(f):
    return NAN if f != f else G.fbits(f)


# ---------------------------------------------------------------------------------------------
# C03: reference table for operators (python ints are exact, python floats are IEEE doubles)
# ---------------------------------------------------------------------------------------------

def veq(a, b):
    if a[0] != b[0]:
        return False
    t = a[0]
    if t == "F":
        return G.bits_to_float(a[1]) == G.bits_to_float(b[1])
    if t == "T":
        return len(a[1]) == len(b[1]) and all(veq(x, y) for x, y in zip(a[1], b[1]))
    return a[1] == b[1]


def trunc_div(a, b):
    q = abs(a) // abs(b)
    return q if (a >= 0) == (b >= 0) else -q


def c03_reference(op, a, b):
    """returns a set of allowed classes: 'arith', 'type', or ('val', text); None = not constrained (^)"""
    num = lambda v: v[0] in "IF"
    if b is None:
        if op == "-":
            if a[0] == "I":
                return {("val", "I%d" % -a[1])} if -a[1] <= G.I64_MAX else {"arith"}
            if a[0] == "F":
                return {("val", "F%016x" % (a[1] ^ (1 << 63) if a[1] != NAN else NAN))}
            return {"type"}
        if op == "!":
            return {("val", "B%d" % (not a[1]))} if a[0] == "B" else {"type"}
    if op in ("==", "!="):
        r = veq(a, b)
        return {("val", "B%d" % (r if op == "==" else not r))}
    if op in ("&&", "||"):
        if a[0] == "B" and b[0] == "B":
            return {("val", "B%d" % ((a[1] and b[1]) if op == "&&" else (a[1] or b[1])))}
        return {"type"}
    if op in (">", "<", ">=", "<="):
        import operator as O
        f = {">": O.gt, "<": O.lt, ">=": O.ge, "<=": O.le}[op]
        if a[0] == "S" and b[0] == "S":
            return {("val", "B%d" % f(a[1].encode(), b[1].encode()))}
        if a[0] == "I" and b[0] == "I":
            return {("val", "B%d" % f(a[1], b[1]))}
        if num(a) and num(b):
            return {("val", "B%d" % f(to_f(a), to_f(b)))}
        return {"type"}
    if op == "+" and a[0] == "S" and b[0] == "S":
        return {("val", "S" + hexs(a[1] + b[1]))}
    if op in ("+", "-", "*", "/", "%", "^"):
        if not (num(a) and num(b)):
            return {"type"}
        if op == "^":
            return None
        if a[0] == "I" and b[0] == "I":
            x, y = a[1], b[1]
            if op in ("/", "%") and y == 0:
                return {"arith"}
            r = {"+": lambda: x + y, "-": lambda: x - y, "*": lambda: x * y, "/": lambda: trunc_div(x, y),
                 "%": lambda: x - y * trunc_div(x, y)}[op]()
            if op == "%" and x == G.I64_MIN and y == -1:
                return {"arith", ("val", "I0")}
            return {("val", "I%d" % r)} if G.I64_MIN <= r <= G.I64_MAX else {"arith"}
        x, y = to_f(a), to_f(b)
        try:
            if op == "+":
                r = x + y
            elif op == "-":
                r = x - y
            elif op == "*":
                r = x * y
            elif op == "/":
                if y == 0.0:
                    if x != x or x == 0.0:
                        r = float("nan")
                    else:
                        r = math.copysign(float("inf"), x) * math.copysign(1.0, y)
                else:
                    r = x / y
            else:
                if math.isinf(x) or y == 0.0 or x != x or y != y:
                    r = float("nan")
                else:
                    r = math.fmod(x, y)
        except OverflowError:
            return None
        return {("val", "F%016x" % f_bits(r))}
    return {"type"}


def c03_oracle(case, out, model_out):
    m = case[1]
    if m.get("kind") not in ("op-vars", "op-lits"):
        return None
    a = parse_value(m["a"])
    b = parse_value(m["b"]) if m.get("b") is not None else None
    allowed = c03_reference(m["op"], a, b)
    if allowed is None:
        return None
    last = step_outputs(out)[-1]
    cls = outcome_class(last)
    if cls == "ok":
        got = ("val", last[3:])
    elif cls == "err-arith":
        got = "arith"
    elif cls == "err-type":
        got = "type"
    else:
        got = cls
    if got not in allowed:
        return "operator %s on (%s, %s): observed %s, the reference table allows %s" % (m["op"], m["a"], m.get("b"), got, sorted(map(str, allowed)))
    return None


def c03_gen(tier, rng):
    cases = []
    P = G.pool()
    pairs = [(a, b) for a in P for b in P]
    if tier == "quick":
        SP = G.small_pool()
        keep = set()
        # complete small pool, plus all same-type pairs of the full pool for the numeric rows
        pairs = [(a, b) for a in P for b in P if (a in SP and b in SP) or (a[0] in "IF" and b[0] in "IF" and rng.random() < 0.25)
                 or (a[0] == "S" and b[0] == "S")]
    for op in G.BINOPS:
        for a, b in pairs:
            cases.append((G.op_case_vars(op, a, b), {"kind": "op-vars", "op": op, "a": a, "b": b}))
            if rng.random() < (1.0 if tier == "thorough" else 0.15):
                lc = G.op_case_literals(op, a, b)
                if lc:
                    cases.append((lc, {"kind": "op-lits", "op": op, "a": a, "b": b}))
    for op in G.UNOPS:
        for a in P:
            cases.append((G.op_case_vars(op, a), {"kind": "op-vars", "op": op, "a": a, "b": None}))
            lc = G.op_case_literals(op, a)
            if lc:
                cases.append((lc, {"kind": "op-lits", "op": op, "a": a, "b": None}))
    n_rand = 20000 if tier == "quick" else 400000
    for _ in range(n_rand):
        op = rng.choice(G.BINOPS)
        k = rng.random()
        if k < 0.45:
            a, b = G.vI(G.clamp_i64(G.rand_int(rng))), G.vI(G.clamp_i64(G.rand_int(rng)))
        elif k < 0.8:
            a = G.vF(G.rand_float_bits(rng)) if rng.random() < 0.7 else G.vI(G.clamp_i64(G.rand_int(rng)))
            b = G.vF(G.rand_float_bits(rng)) if rng.random() < 0.7 else G.vI(G.clamp_i64(G.rand_int(rng)))
        else:
            a, b = G.rand_value(rng), G.rand_value(rng)
        cases.append((G.op_case_vars(op, a, b), {"kind": "op-vars", "op": op, "a": a, "b": b}))
    # wrong arity reaches evaluation through incomplete expressions
    for src in ["1 +", "!", "-", "1 <", "true &&", "a =", "1 ==", "2 ^"]:
        cases.append((G.script("H", ["ev sfv " + hexs(src)]), {"kind": "arity", "src": src}))
    return cases


PROPS = {
    "C03": {
        "gen": c03_gen, "oracle": c03_oracle, "release": True,
        "rule": "complete edge-value pool P x P (quick: complete small pool + sampled numeric/string pairs) for the 14 binary and 2 prefix operators, operands bound as variables and as literals where expressible, plus random boundary-biased pairs; a case is non-trivial if it has two operands or does not evaluate to a plain literal; distinct = distinct case line",
        "assumptions": ["the Coq model of Operator::eval equals the Rust code: checked by this run's correspondence (sampled, both build profiles)",
                        "std oracle: f64::powf of Rust's std for `^`",
                        "SpecFloat operations of Coq's standard library are IEEE-754 binary64 (Flocq's BinarySingleNaN proves this; not re-proved here)"],
    },
}


# ---------------------------------------------------------------------------------------------
# C12: all entry points are views of one evaluator
# ---------------------------------------------------------------------------------------------
TYPES = "vsifnbte"
TYPE_OF_VALUE = {"S": "s", "I": "i", "F": "f", "B": "b", "T": "t", "E": "e"}
EXPECTED = {"s": "ExpectedString", "i": "ExpectedInt", "f": "ExpectedFloat", "n": "ExpectedNumber", "b": "ExpectedBoolean",
            "t": "ExpectedTuple", "e": "ExpectedEmpty"}


def project_text(ty, untyped):
    """what the typed entry point must return, given the untyped outcome text"""
    if not untyped.startswith("OK "):
        return untyped
    v = untyped[3:]
    if ty == "v":
        return untyped
    k = TYPE_OF_VALUE[v[0]]
    if ty == k:
        return untyped
    if ty == "n" and k == "f":
        return untyped
    if ty == "n" and k == "i":
        return "OK F%016x" % f_bits(float(int(v[1:])))
    return "ERR %s(%s)" % (EXPECTED[ty], v)


C12_SETUP = ["init %s I3" % hexs("a"), "init %s F4004000000000000" % hexs("b"), "init %s S%s" % (hexs("c"), hexs("xy")),
             "init %s B1" % hexs("x"), "init %s T(I1,I2)" % hexs("y"), "init %s E" % hexs("z"),
             "setfn %s id" % hexs("f"), "setfn %s swap" % hexs("g"), "setfn %s fail:%s" % (hexs("h"), hexs("boom"))]
C12_STRINGS = ["a = 1; a", "1", "1.5", '"s"', "true", "(1,2)", "()", "", "a", "b", "c", "x", "y", "z", "1 +", ")", "(",
               "a += 1", "a + b", "f(a)", "g(1,2)", "h(1)", "a = 5", "q = 1; q", "q", "9223372036854775807", "2^62",
               "1/0", "a; b; c", "a,b", "y == (1,2)", "c + \"z\"", "!x", "-a", "\"", "1e400", "0x10", "a = \"s\"",
               "f g h 1", "max(1, 2.5)", "min(4.0, 3)", "len(c)", "typeof(z)", "a /* c */ + 1", "1;", ";", ",",
               "x && false", "a % 2 == 1", "str::from(y)", "math::sqrt(16)", "if(x, a, b)"]


def c12_case(kind, setup, src):
    ops = list(setup)
    codes = []
    for lvl in "sn":
        for mode in "frm":
            if mode == "m" and kind in ("E", "EB"):
                continue
            for ty in TYPES:
                code = lvl + mode + ty
                codes.append(code)
                ops.append("evc %s %s" % (code, hexs(src)))
    ops.append("evc build %s" % hexs(src))
    return G.script(kind, ops), {"kind": "all-entries", "src": src, "ctx": kind, "codes": codes, "nsetup": len(setup)}


def c12_gen(tier, rng):
    cases = []
    srcs = list(C12_STRINGS)
    n = 400 if tier == "quick" else 6000
    for _ in range(n):
        raw = G.rand_seq(rng, 3) if rng.random() < 0.25 else G.rand_expr(rng, rng.randint(1, 4))
        e = G.parenthesize_seq(raw) if raw[0] in ("tuple", "chain") else G.parenthesize(raw)
        toks = G.flatten(e)
        if rng.random() < 0.2 and toks:
            toks.pop(rng.randrange(len(toks)))  # near miss
        srcs.append(G.render(toks, rng, "space"))
    for s in G.char_soup(rng, 100 if tier == "quick" else 1000):
        srcs.append(s)
    for s in srcs:
        kind = rng.choice(["H", "H", "H", "N", "E", "EB"])
        setup = C12_SETUP if kind in ("H", "N") else []
        cases.append(c12_case(kind, setup, s))
    return cases


def c12_oracle(case, out, model_out):
    m = case[1]
    if m.get("kind") != "all-entries":
        return None
    if out.startswith("PANIC"):
        return "panic: " + out
    steps = step_outputs(out)[m["nsetup"]:]
    codes = m["codes"]
    res = dict(zip(codes, steps))
    build = steps[len(codes)] if len(steps) > len(codes) else None
    for code in codes:
        lvl, mode, ty = code
        base = res.get("s" + mode + "v")
        want = project_text(ty, base)
        if res[code] != want:
            return "entry point %s on %r in context %s: returned %s, the projection of the untyped result %s is %s" % (code, m["src"], m["ctx"], res[code], base, want)
    if build is not None and build.startswith("ERR"):
        for code in codes:
            if res[code] != build:
                return "build_operator_tree fails with %s but entry point %s returns %s on %r" % (build, code, res[code], m["src"])
    # context-free forms = mutable forms on a fresh empty HashMapContext
    return None


PROPS["C12"] = {
    "gen": c12_gen, "oracle": c12_oracle, "release": False, "model_env": {"EVX_WRAPPERS": "1"},
    "rule": "every case runs all 48 evaluation entry points (2 levels x 3 context modes x 8 result types; the mutable ones only on contexts that implement ContextWithMutableVariables) plus build_operator_tree on clones of one context; sources: fixed distinguishing strings, generated programs, near misses (one token deleted), character soup; contexts: populated HashMapContext, NoStore, EmptyContext, EmptyContextWithBuiltinFunctions; the model side runs the wrappers TRANSLATED from the source; non-trivial = at least one entry point returns a value",
    "nontrivial": lambda c, out: " OK " in out or out.startswith("OK "),
    "assumptions": ["translator tools/translate_interface.py (syntactic translation of the 49 wrapper bodies; refuses unknown shapes)",
                    "the interpreter of translated wrappers (Model/InterfaceGen.v) reads a wrapper body the way Rust executes it",
                    "the two evaluators eval_ro / eval_mut of the model equal the Rust ones: correspondence of this run"],
}
