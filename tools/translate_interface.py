#!/usr/bin/env python3
"""Translates the 24 functions of src/interface/mod.rs and the 24 Node::eval* methods of src/tree/mod.rs
into Gallina records (coq/Gen/Interface.v).  The translation is purely syntactic: callee, how the context
argument is passed, the match arms (variant, conversion) and the error constructor of the fallback arm."""
import os
import re

import vplib as L

VARIANT_TY = {"String": "TyString", "Float": "TyFloat", "Int": "TyInt", "Boolean": "TyBoolean", "Tuple": "TyTuple",
              "Empty": "TyEmpty"}
ERRCTOR = {"expected_string": "XeString", "expected_int": "XeInt", "expected_float": "XeFloat",
           "expected_number": "XeNumber", "expected_boolean": "XeBoolean", "expected_tuple": "XeTuple",
           "expected_empty": "XeEmpty"}


def strip_comments(src):
    src = re.sub(r"//[^\n]*", "", src)
    return src


def functions(src, method):
    """yields (name, params, body) of every `pub fn` (top-level functions, or methods taking &self)"""
    out = []
    for m in re.finditer(r"pub fn (\w+)\s*(<[^{;]*?>)?\s*\(", src):
        name = m.group(1)
        # parameters up to the matching ')'
        i = m.end()
        depth = 1
        while depth:
            if src[i] == "(":
                depth += 1
            elif src[i] == ")":
                depth -= 1
            i += 1
        params = src[m.end():i - 1]
        j = src.index("{", i)
        # a `where` clause or return type may contain no braces
        k = j + 1
        depth = 1
        while depth:
            if src[k] == "{":
                depth += 1
            elif src[k] == "}":
                depth -= 1
            k += 1
        body = src[j + 1:k - 1]
        is_method = "&self" in params or "&mut self" in params
        if is_method == method:
            out.append((name, params, body))
    return out


def norm(s):
    return re.sub(r"\s+", "", s)


def translate_body(name, params, body, level):
    """returns the Gallina term of the body, or None if the shape is not recognised"""
    b = norm(body)
    recv = "self." if level == "LvNode" else ""
    arg0 = "" if level == "LvNode" else "string,"
    mut_ctx = "&mutC" in norm(params)
    # primitive evaluators of Node
    if level == "LvNode" and name in ("eval_with_context", "eval_with_context_mut"):
        suffix = "_mut" if name.endswith("_mut") else ""
        want = ("letmutarguments=Vec::new();forchildinself.children(){arguments.push(child.eval_with_context%s(context)?);}"
                "self.operator().eval%s(&arguments,context)" % (suffix, suffix))
        if b == want:
            return "BPrim %s" % ("true" if suffix else "false")
        return None
    m = re.fullmatch(r"tree::tokens_to_operator_tree\(token::tokenize\(string\)\?\)\?\.(eval_with_context(?:_mut)?)\(context\)", b)
    if m and level == "LvString":
        return 'BParseThen "%s"' % m.group(1)
    if b == "tree::tokens_to_operator_tree(token::tokenize(string)?)" and level == "LvString":
        return "BParseOnly"
    m = re.fullmatch(re.escape(recv) + r"(\w+)\(" + re.escape(arg0) + r"&mutHashMapContext(?:::<DefaultNumericTypes>)?::new\(\)\)", b)
    if m:
        return 'BDelegateFresh "%s"' % m.group(1)
    m = re.fullmatch(r"match" + re.escape(recv) + r"(\w+)\(" + re.escape(arg0) + r"context\)\{(.*)\}", b)
    if m:
        callee, arms_txt = m.group(1), m.group(2)
        arms = []
        fallback = None
        passthrough = False
        rest = arms_txt
        arm_re = re.compile(r"Ok\(Value::(\w+)(?:\((\w+)\))?\)=>Ok\((.*?)\),(?=Ok\(|Err\()")
        pos = 0
        while True:
            am = arm_re.match(rest, pos)
            if not am:
                break
            variant, var, expr = am.group(1), am.group(2), am.group(3)
            if variant not in VARIANT_TY:
                return None
            if var is not None and expr == var:
                conv = "ConvId"
            elif var is None and expr == "EMPTY_VALUE" and variant == "Empty":
                conv = "ConvId"
            elif var is not None and re.fullmatch(r"(?:NumericTypes|<\w+(?:::NumericTypes)?asEvalexprNumericTypes>)::int_as_float\(&" + re.escape(var) + r",?\)", expr) and variant == "Int":
                conv = "ConvIntAsFloat"
            else:
                return None
            arms.append("(%s, %s)" % (VARIANT_TY[variant], conv))
            pos = am.end()
        tail = rest[pos:]
        tm = re.fullmatch(r"Ok\((\w+)\)=>Err\(EvalexprError::(\w+)\(\1\)\),Err\((\w+)\)=>Err\(\3\),", tail)
        if not tm or tm.group(2) not in ERRCTOR:
            return None
        return 'BMatch "%s" [%s] %s' % (callee, "; ".join(arms), ERRCTOR[tm.group(2)])
    return None


def generate():
    res = {"ok": True, "problems": []}
    try:
        isrc = strip_comments(open(os.path.join(L.REPO, "src/interface/mod.rs")).read())
        tsrc = strip_comments(open(os.path.join(L.REPO, "src/tree/mod.rs")).read())
    except FileNotFoundError as e:
        return {"ok": False, "problems": ["interface sources missing: %s" % e]}
    entries = []
    for level, src, method in (("LvString", isrc, False), ("LvNode", tsrc, True)):
        for name, params, body in functions(src, method):
            if not name.startswith("eval") and name != "build_operator_tree":
                continue
            term = translate_body(name, params, body, level)
            if term is None:
                res["ok"] = False
                res["problems"].append("translate_interface: body of %s (%s) has an unrecognised shape" % (name, level))
                continue
            mutctx = "true" if re.search(r"context\s*:\s*&mut", params) else "false"
            hasctx = "true" if "context" in params else "false"
            entries.append('  {| w_level := %s; w_name := "%s"; w_hasctx := %s; w_mutctx := %s; w_body := %s |}' % (level, name, hasctx, mutctx, term))
    text = ["(* GENERATED by tools/translate_interface.py from %s/src/interface/mod.rs and src/tree/mod.rs on every run." % L.REPO,
            "   One record per public evaluation entry point: a purely syntactic translation of its body.  Do not edit. *)",
            "From Coq Require Import Strings.String List.", "Import ListNotations.",
            "Require Import Model.Syntax Model.Interface Model.InterfaceDefs.", "Open Scope string_scope.\n",
            "Definition wrappers : list wrapper :=\n[", ";\n".join(entries), "].\n",
            "Definition translation_complete : bool := %s.\n" % ("true" if res["ok"] else "false")]
    res["changed"] = L.write_if_changed(os.path.join(L.COQ, "Gen/Interface.v"), "\n".join(text))
    res["count"] = len(entries)
    if len(entries) != 49:
        res["ok"] = False
        res["problems"].append("translate_interface: %d entry points translated, 49 expected" % len(entries))
    return res


if __name__ == "__main__":
    print(generate())
