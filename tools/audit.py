#!/usr/bin/env python3
"""Source audits of /repo: (1) purity -- nothing in src/ can carry state between or across evaluations
(C15 premise); (2) panic sites -- every unwrap()/expect()/unreachable!()/panic!()/indexing/slicing in the
library is one the model knows (C01)."""
import json
import os
import re

import vplib as L

PURITY_FORBIDDEN = [r"\bthread_local!", r"\bCell<", r"\bRefCell<", r"\bUnsafeCell<", r"\bMutex<",
                    r"\bRwLock<", r"\bAtomic[A-Z]\w*", r"\bOnceCell\b", r"\bOnceLock\b", r"\bLazyLock\b", r"\bLazyCell\b", r"\blazy_static!",
                    r"\bunsafe\b", r"\bOnce\b", r"\bRc<", r"\bstatic\s+mut\b"]


def rust_sources():
    out = []
    for d, _, files in os.walk(os.path.join(L.REPO, "src")):
        for f in files:
            if f.endswith(".rs"):
                out.append(os.path.join(d, f))
    return sorted(out)


def strip_rust(text):
    """removes comments, the contents of string / char literals and the bodies of #[cfg(test)] modules; the line
    structure is kept.  One pass over the characters, so that a comment marker inside a string literal (or a quote
    inside a comment) is not taken for the real thing; code that FOLLOWS a test module is kept."""
    out = []
    i, n = 0, len(text)
    while i < n:
        c = text[i]
        two = text[i:i + 2]
        if two == "//":
            j = text.find("\n", i)
            i = n if j < 0 else j
        elif two == "/*":
            depth, j = 1, i + 2
            while j < n and depth:
                if text[j:j + 2] == "/*":
                    depth, j = depth + 1, j + 2
                elif text[j:j + 2] == "*/":
                    depth, j = depth - 1, j + 2
                else:
                    j += 1
            out.append("\n" * text[i:j].count("\n"))
            i = j
        elif c == '"' or (c == "r" and re.match(r'r#*"', text[i:]) and not (i and (text[i - 1].isalnum() or text[i - 1] == "_"))):
            if c == "r":
                m = re.match(r'r(#*)"', text[i:])
                close = '"' + m.group(1)
                j = text.find(close, i + len(m.group(0)))
                j = n if j < 0 else j + len(close)
            else:
                j = i + 1
                while j < n and text[j] != '"':
                    j += 2 if text[j] == "\\" else 1
                j += 1
            out.append('""' + "\n" * text[i:j].count("\n"))
            i = j
        elif c == "'" and re.match(r"'(\\.[^']*|[^'\\])'", text[i:]):
            m = re.match(r"'(\\.[^']*|[^'\\])'", text[i:])
            out.append("' '")
            i += len(m.group(0))
        else:
            out.append(c)
            i += 1
    text = "".join(out)
    # drop the brace-matched body of every #[cfg(test)] mod (not the rest of the file)
    while True:
        m = re.search(r"#\[cfg\(test\)\]\s*mod\s+\w+\s*\{", text)
        if not m:
            break
        depth, j = 1, m.end()
        while j < len(text) and depth:
            depth += {"{": 1, "}": -1}.get(text[j], 0)
            j += 1
        text = text[:m.start()] + "\n" * text[m.start():j].count("\n") + text[j:]
    return text


def purity():
    problems = []
    for p in rust_sources():
        text = strip_rust(open(p).read())
        for ln, line in enumerate(text.splitlines(), 1):
            for pat in PURITY_FORBIDDEN:
                if re.search(pat, line) and "forbid(unsafe_code)" not in line:
                    problems.append("%s:%d: %s" % (os.path.relpath(p, L.REPO), ln, line.strip()[:120]))
    lib = open(os.path.join(L.REPO, "src/lib.rs")).read()
    if "#![forbid(unsafe_code)]" not in lib:
        problems.append("src/lib.rs: #![forbid(unsafe_code)] is missing")
    return problems


SITE = re.compile(r"\.unwrap\(\)|\.expect\(|unreachable!|panic!|\bassert!|debug_assert|\[[^\[\]\n]*\]\s*(?!\s*=>)|swap_remove|\.remove\(|split_at|copy_from_slice")


PANICKY = (r"\.unwrap\(\)|\.expect\(|unreachable!|panic!|\bassert!|\bassert_eq!|\bassert_ne!|debug_assert|todo!|unimplemented!|swap_remove|\.remove\(|split_at\(|"
           r"\.insert\(\s*[\w.]+\s*,|\.drain\(|split_off\(|\.swap\(|replace_range\(|step_by\(|\.chunks\(|\.windows\(|from_str_radix\(|borrow_mut\(|\.borrow\(\)|"
           r"\.lock\(\)|copy_from_slice|clone_from_slice|\.truncate\(|_unchecked|process::exit|process::abort|\.write\(\)|\.read\(\)|"
           r"sort(_unstable)?_by(_key)?\(|binary_search_by|select_nth|\.repeat\(|with_capacity\(|vec!\[[^\]]*;|char::from_digit\(|\.rotate_(left|right)\(|"
           r"\.split_first\(\)\.unwrap|\.first\(\)\.unwrap|\.last\(\)\.unwrap|insert_str\(|::unwrap\(|::expect\(|\.unwrap_or_else\(\|\|\s*(panic|unreachable)|"
           r"\.get\([^)]*\)\.unwrap|\.nth\([^)]*\)\.unwrap|\.next\(\)\.unwrap|\.parse::<[^>]*>\(\)\.unwrap|\.pop\(\)\.unwrap|set_len\(|\.copy_within\(")


def panic_sites():
    """normalized (file, code) pairs of potential panic sites in the library (outside tests)"""
    sites = []
    for p in rust_sources():
        rel = os.path.relpath(p, L.REPO)
        if rel in ("src/lib.rs", "src/verif.rs", "src/bin/evalexpr.rs"):
            continue
        text = strip_rust(open(p).read())
        for line in text.splitlines():
            s = line.strip()
            if not s or s.startswith("#[") or s.startswith("use ") or s.startswith("#!["):
                continue
            if re.search(PANICKY, s) or re.search(r"\w\[[^\]\n]+\]", s) and not re.search(r"vec!\[|#\[|\[\s*\]|: \[|&\[|<\[", s):
                sites.append([rel, re.sub(r"\s+", " ", s)])
    return sites


ARITH = re.compile(r"(?<![=!<>&|+\-*/%^])\s(\+|-|\*|/|%|<<|>>)=?\s(?!=)|\bas\s+(u8|u16|u32|u64|u128|usize|i8|i16|i32|i64|i128|isize|f32|f64|Self::Float|Self::Int)\b|\.pow\(|\.abs\(\)|"
                   r"wrapping_|saturating_|overflowing_|unchecked_|\b(Add|Sub|Mul|Div|Rem|Neg|Shl|Shr)::(add|sub|mul|div|rem|neg|shl|shr)\b|\.(add|sub|mul|div|rem|neg|shl|shr)\(|"
                   r"(^|[(,=\[{]|return|=>)\s*-\s*[A-Za-z_(*]|\.sum\(|\.product\(|\.try_into\(|::try_from\(|"
                   r"ilog(2|10)?\(|_euclid\(|abs_diff\(|next_power_of_two|::abs\(|::pow\(|\.signum\(|isqrt\(|\.sum::<|div_ceil\(|\.to_digit\(|checked_next_multiple|\.pow\(|\.powi\(")


def arithmetic_sites():
    """lines of the library (outside tests, Display code and hooks) that perform primitive arithmetic, shifts or `as` casts:
    the places where a build with overflow checks could panic or a build without them could wrap.  The model writes
    each of them with its range test (checked_*) or its wrap (wrapping_shl / wrapping_shr) explicitly."""
    sites = []
    for p in rust_sources():
        rel = os.path.relpath(p, L.REPO)
        if rel.endswith("display.rs") or rel in ("src/lib.rs", "src/verif.rs", "src/bin/evalexpr.rs"):
            continue
        text = strip_rust(open(p).read())
        for line in text.splitlines():
            s = line.strip()
            if not s or s.startswith(("#[", "use ", "#![", "///", "//")) or ("->" in s and "fn " in s and "{" not in s.split("->", 1)[1].replace("{", "", 1)):
                continue
            if ARITH.search(s) and not re.search(r"impl<|where|: Add<|: Sub<|Output = Self", s):
                sites.append([rel, re.sub(r"\s+", " ", s)])
    return sites


def new_sites(cur, base):
    """sites of the current source that the baseline does not account for (multiset difference: a second copy of a
    known line is a new site)"""
    import collections
    left = collections.Counter(tuple(x) for x in base)
    out = []
    for f, c in cur:
        if left[(f, c)] > 0:
            left[(f, c)] -= 1
        else:
            out.append("%s: %s" % (f, c))
    return out


def arithmetic_site_audit():
    base_path = os.path.join(L.ROOT, "tools", "arithmetic_sites.json")
    cur = arithmetic_sites()
    try:
        base = json.load(open(base_path))
    except FileNotFoundError:
        return ["baseline tools/arithmetic_sites.json missing"], cur
    return new_sites(cur, base), cur


def panic_site_audit():
    base_path = os.path.join(L.ROOT, "tools", "panic_sites.json")
    cur = panic_sites()
    try:
        base = json.load(open(base_path))
    except FileNotFoundError:
        return ["baseline tools/panic_sites.json missing"], cur
    return new_sites(cur, base), cur


if __name__ == "__main__":
    import sys
    if len(sys.argv) > 1 and sys.argv[1] == "write-baseline":
        json.dump(panic_sites(), open(os.path.join(L.ROOT, "tools", "panic_sites.json"), "w"), indent=0)
        json.dump(arithmetic_sites(), open(os.path.join(L.ROOT, "tools", "arithmetic_sites.json"), "w"), indent=0)
    print("purity:", purity())
    new, cur = panic_site_audit()
    print("panic sites:", len(cur), "new:", new)
    new, cur = arithmetic_site_audit()
    print("arithmetic sites:", len(cur), "new:", new)
